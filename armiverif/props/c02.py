"""C02 - mass / volume / number-density accounting: dimension typing of every conversion formula
(with a role generator for volume fractions), placement of the symmetry factor at the sibling
sites, setters delegating to one implementation, cache invalidation when geometry changes.
Structural necessary conditions only (DESIGN.md section 3, C02)."""
from __future__ import annotations

import ast

from ..astutil import call_attr, iter_calls, iter_stores, propagate, single_assign_env, walk_local
from ..flow import Flow, path_conditions
from ..index import AnalysisError, AnchorMissing, dotted, norm
from ..units import LIT, ONE, TOP, ZERO, Law, U, analyze, known

AO = "armi.reactor.composites.ArmiObject"
COMP = "armi.reactor.components.component.Component"
DT = "armi.utils.densityTools"

N = U("atom b^-1 cm^-1")
CM3, CM2, CM, G = U("cm^3"), U("cm^2"), U("cm"), U("g")
RHO = U("g cm^-3")
AW = U("g mol^-1")
MPC = U("atom cm^2 b^-1 mol^-1")  # MOLES_PER_CC_TO_ATOMS_PER_BARN_CM
VF = U("vf")

BASE = dict(
    methods={
        "getVolume": CM3, "getArea": CM2, "getComponentArea": CM2, "getHeight": CM, "getMass": G, "getHMMass": G, "getFuelMass": G,
        "density": RHO, "getNumberDensity": N, "getNumberDensities": N, "getNuclideNumberDensities": N, "_getNdensHelper": N, "getHMDens": N,
        "getAtomicWeight": AW, "getSymmetryFactor": ONE, "getVolumeFractions": (TOP, VF), "getMassFracs": ONE, "getMassFractions": ONE,
        "calculateMassDensity": RHO, "calculateNumberDensity": N, "getMassInGrams": G, "computeVolume": CM3, "getComponentVolume": CM3,
        "_getCached": ZERO, "normalizeNuclideList": ONE,  # a cached value has whatever unit was stored: neutral
        "getNuclides": TOP, "_getNuclidesFromSpecifier": TOP, "getChildrenWithNuclides": TOP, "getChildren": TOP, "isHeavyMetal": ONE,
    },
    consts={"units.MOLES_PER_CC_TO_ATOMS_PER_BARN_CM": MPC, "units.CM2_PER_BARN": U("cm^2 b^-1"), "units.AVOGADROS_NUMBER": U("atom mol^-1"), "TRACE_NUMBER_DENSITY": N,
            "math.pi": ONE, "np.pi": ONE},
    attr_suffix={".weight": AW, ".abundance": ONE, ".p.height": CM, ".p.volume": CM3, ".p.ztop": CM, ".p.zbottom": CM},
)

# function -> (parameter units, required unit of returns, {sink method: (arg index, required unit)})
TABLE = [
    (AO + ".getNuclideNumberDensities", {}, N, {}),
    (AO + ".getNumberOfAtoms", {}, U("atom"), {}),
    (AO + ".density", {}, RHO, {}),
    (AO + ".getMass", {}, G, {}),
    (AO + ".getVolume", {}, CM3, {}),
    (AO + ".getArea", {}, CM2, {}),
    (AO + ".setMassFracs", {"massFracs": ONE}, None, {"setNumberDensity": (1, N)}),
    (AO + ".setNumberDensity", {"val": N}, None, {"setNumberDensity": (1, N / VF)}),
    (AO + ".updateNumberDensities", {"numberDensities": N}, None, {"updateNumberDensities": (0, N / VF)}),
    (AO + ".addMass", {"mass": G}, None, {"setNumberDensity": (1, N)}),
    (AO + ".setMass", {"mass": G}, None, {"setNumberDensity": (1, N)}),
    (AO + ".getHMMoles", {}, U("mol"), {}),
    (AO + ".getHMDens", {}, N, {}),
    (AO + ".getVolumeFractions", {}, None, {}),
    (COMP + ".getMass", {}, G, {}),
    (COMP + ".computeVolume", {}, CM3, {}),
    ("armi.reactor.blocks.Block.getVolume", {}, CM3, {}),
    ("armi.reactor.blocks.Block.getArea", {}, CM2, {}),
    ("armi.reactor.blocks.Block.adjustDensity", {"frac": ONE}, G, {"setNumberDensity": (1, N), "getMassInGrams": (2, N)}),
    (DT + ".getNDensFromMasses", {"rho": RHO, "massFracs": ONE}, N, {}),
    (DT + ".getMassFractions", {"numberDensities": N}, ONE, {}),
    (DT + ".calculateMassDensity", {"numberDensities": N}, RHO, {}),
    (DT + ".calculateNumberDensity", {"mass": G, "volume": CM3}, N, {}),
    (DT + ".getMassInGrams", {"volume": CM3, "numberDensity": N}, G, {}),
]


def _law(extra_names):
    return Law(methods=dict(BASE["methods"]), consts=dict(BASE["consts"]), attr_suffix=dict(BASE["attr_suffix"]), names=dict(extra_names))


def r1_dimensions(idx, r):
    for fq, params, ret_unit, sinks in TABLE:
        f = idx.func(fq)
        law = _law(params)
        own = f.name
        if own in law.methods and fq.startswith(DT):
            pass
        ev = analyze(f.node, law, sink_names=set(sinks))
        key = f"{f.qualname}"
        if ev.conflicts:
            node, a, b, what = ev.conflicts[0]
            r.violate(key + ":homogeneous", f, f"`{norm(node)[:90]}` combines {a} with {b} ({what}): the formula is dimensionally inconsistent", node=node)
            continue
        ok = True
        if ret_unit is not None:
            if not ev.returns:
                raise AnalysisError(f"{fq}: no return found")
            for st, u in ev.returns:
                uu = ev.flat(u)
                if uu == ZERO or (isinstance(st.value, ast.Constant)):
                    continue
                if isinstance(st.value, (ast.List, ast.BinOp)) and uu == ZERO:
                    continue
                if not known(uu):
                    if norm(st.value) in ("[0.0] * len(nucNames)", "0", "0.0"):
                        continue
                    raise AnalysisError(f"{fq}: return `{norm(st.value)[:60]}` left the typed fragment")
                if uu != ret_unit:
                    r.violate(key + ":return-unit", f, f"returns {uu}, the accounting law requires {ret_unit} (`{norm(st.value)[:80]}`)", node=st)
                    ok = False
        for call, argv, kwv in ev.sinks:
            nm = call_attr(call)
            if nm not in sinks:
                continue
            if norm(call.func) == f"self.{own}" and nm == own:
                continue
            pos, want = sinks[nm]
            if pos >= len(argv):
                continue
            got = ev.flat(argv[pos])
            if got == ZERO:
                continue
            if not known(got):
                raise AnalysisError(f"{fq}: argument of {nm} `{norm(call.args[pos])[:60]}` left the typed fragment")
            if got != want:
                r.violate(key + f":{nm}-argument", f, f"`{norm(call)[:100]}` passes {got}; the accounting law requires {want}", node=call)
                ok = False
        if ok:
            r.ok(key, f, msg=f"returns {ret_unit}" if ret_unit is not None else "sinks typed")
    # sums over children iterate the object itself and add the children's same quantity
    ao = idx.cls(AO)
    for meth in ("getMass", "getVolume", "getArea", "getFuelMass"):
        f = ao.methods.get(meth)
        ret = next((n for n in walk_local(f.node) if isinstance(n, ast.Return)), None)
        ge = ret.value.args[0] if isinstance(ret.value, ast.Call) and dotted(ret.value.func) == "sum" and ret.value.args else None
        okc = isinstance(ge, ast.GeneratorExp) and norm(ge.generators[0].iter) == "self" and not ge.generators[0].ifs and isinstance(ge.elt, ast.Call) and call_attr(ge.elt) == meth \
            and norm(ge.elt.func.value) == norm(ge.generators[0].target)
        r.require(okc, f"ArmiObject.{meth}:sum-of-children", f, node=ret, msg=f"{meth} must be the plain sum of every child's {meth}")
    gm = ao.methods["getMass"]
    ret = next((n for n in walk_local(gm.node) if isinstance(n, ast.Return)), None)
    r.require("nuclideNames=nuclideNames" in norm(ret.value), "ArmiObject.getMass:forwards-selection", gm, node=ret, msg="the nuclide selection must be forwarded to the children")


def r2_symmetry(idx, r):
    want = "self.parent.getSymmetryFactor() if self.parent else 1.0"
    gm = idx.method(COMP, "getMass")
    vol = next((s for s in iter_stores(gm.node) if s.attr == "volume" and s.value is not None), None)
    r.require(vol is not None and norm(vol.value) == f"self.getVolume() / ({want})", "Component.getMass:volume-over-parent-symmetry", gm, node=vol.stmt if vol else None,
              msg="a component's mass uses its volume divided by the PARENT block's symmetry factor (1.0 without parent)")
    gn = idx.method(AO, "getNuclideNumberDensities")
    vs = next((s for s in iter_stores(gn.node) if s.attr == "volumes" and s.value is not None), None)
    okv = False
    if vs is not None:
        lc = next((x for x in ast.walk(vs.value) if isinstance(x, ast.ListComp)), None)
        if lc is not None:
            v = norm(lc.generators[0].target)
            okv = norm(lc.generators[0].iter) == "self" and norm(lc.elt) == f"{v}.getVolume() / ({v}.parent.getSymmetryFactor() if {v}.parent else 1.0)"
    r.require(okv, "getNuclideNumberDensities:weights", gn, node=vs.stmt if vs else None, msg="each child's weight is its volume over ITS PARENT's symmetry factor (the same reduction Component.getMass applies)")
    env = single_assign_env(gn.node)
    ret = [n for n in walk_local(gn.node) if isinstance(n, ast.Return)][-1]
    r.require(norm(ret.value) == "volumes.dot(nucDensForEachComp) / totalVol" and norm(env.get("totalVol", ast.Constant(0))) == "volumes.sum()", "getNuclideNumberDensities:normalised", gn, node=ret,
              msg="the weighted sum must be normalised by the sum of the same weights")
    for meth, inner in (("getVolume", "getVolume"), ("getArea", "getArea")):
        f = idx.method("armi.reactor.blocks.Block", meth)
        divs = [n for n in walk_local(f.node) if isinstance(n, ast.BinOp) and isinstance(n.op, ast.Div) and norm(n.right) == "self.getSymmetryFactor()"]
        muls = [n for n in walk_local(f.node) if isinstance(n, ast.BinOp) and isinstance(n.op, ast.Mult) and "getSymmetryFactor" in norm(n)]
        r.require(len(divs) == 1 and not muls, f"Block.{meth}:divided-by-own-symmetry-once", f, node=divs[0] if divs else None, msg="a block's total is the children's sum divided (once) by the block's own symmetry factor")
    hs = idx.method("armi.reactor.blocks.HexBlock", "getSymmetryFactor")
    rets = sorted({norm(n.value) for n in walk_local(hs.node) if isinstance(n, ast.Return)})
    r.require(rets == ["1.0", "2.0", "3.0"], "HexBlock.getSymmetryFactor:values", hs, msg=f"symmetry factors are 3 (centre), 2 (boundary line with edge slot occupied) and 1: {rets}")
    three = next((n for n in walk_local(hs.node) if isinstance(n, ast.Return) and norm(n.value) == "3.0"), None)
    conds = [norm(t) for t, p in path_conditions(hs.node, three) if p] if three is not None else []
    r.require(any("indices[0] == 0 and indices[1] == 0" in c for c in conds) and any("THIRD_CORE" in c for c in conds), "HexBlock.getSymmetryFactor:centre", hs, node=three, msg=f"factor 3 only for the centre of a third-core periodic model: {conds}")


def r3_setters(idx, r):
    c = idx.cls(COMP)
    sn, sns = c.methods.get("setNumberDensity"), c.methods.get("setNumberDensities")
    r.require(sn is not None and norm(sn.node.body[-1]) == "self.updateNumberDensities({nucName: val})", "Component.setNumberDensity", sn, msg="must delegate to updateNumberDensities({nuc: val})")
    r.require(sns is not None and norm(sns.node.body[-1]) == "self.updateNumberDensities(numberDensities, wipe=True)", "Component.setNumberDensities", sns, msg="must delegate to updateNumberDensities(..., wipe=True)")
    ao = idx.cls(AO)
    f = ao.methods["setNumberDensities"]
    txt = [norm(s) for s in f.node.body if not (isinstance(s, ast.Expr) and isinstance(s.value, ast.Constant))]
    r.require(txt == ["numberDensities.update({nuc: 0.0 for nuc in self.getNuclides() if nuc not in numberDensities})", "self.updateNumberDensities(numberDensities)"], "ArmiObject.setNumberDensities", f,
              msg="nuclides not mentioned are zeroed, then one update")
    f = ao.methods["changeNDensByFactor"]
    txt = norm(f.node)
    ok = "val * factor for nuc, val in self.getNumberDensities().items()" in txt and "self.p.detailedNDens *= factor" in txt and "self.p.pinNDens *= factor" in txt and "self.setNumberDensities(densitiesScaled)" in txt
    r.require(ok, "ArmiObject.changeNDensByFactor", f, msg="every nuclide, and the detailed and pin densities, are scaled by the same factor")
    # ArmiObject.changeNDensByFactor is what blocks, assemblies and cores inherit; a side table that not every level defines as a parameter
    # must be tested for membership before it is touched, or the call raises AFTER the children's densities were already rescaled
    levels = ("armi.reactor.components.componentParameters", "armi.reactor.blockParameters", "armi.reactor.assemblyParameters", "armi.reactor.reactorParameters")
    for fld in ("detailedNDens", "pinNDens"):
        defined = [lv for lv in levels if idx.modules.get(lv) is not None and any(isinstance(x, ast.Constant) and x.value == fld for fn in idx.modules[lv].all_funcs() for cc in iter_calls(fn.node)
                                                                                  if call_attr(cc) == "defParam" for x in cc.args[:1])]
        if len(defined) == len(levels):
            continue
        aug = [n for n in walk_local(f.node) if isinstance(n, ast.AugAssign) and norm(n.target) == f"self.p.{fld}"]
        for a in aug:
            conds = " and ".join(norm(t) for t, p in path_conditions(f.node, a) if p)
            r.require(f"'{fld}' in self.p" in conds or f"hasattr(self.p, '{fld}')" in conds, f"ArmiObject.changeNDensByFactor:{fld}:only-where-defined", f, node=a,
                      msg=f"`self.p.{fld}` is a parameter of {len(defined)} of the {len(levels)} levels only; reading it on the others raises AttributeError - after setNumberDensities has already "
                          "rescaled every child, so the call fails half done")
    f = c.methods["_changeOtherDensParamsByFactor"]
    r.require("self.p.detailedNDens *= factor" in norm(f.node) and "self.p.pinNDens *= factor" in norm(f.node), "Component._changeOtherDensParamsByFactor", f, msg="detailed and pin densities follow the same factor")
    f = ao.methods["setMassFrac"]
    r.require(norm(f.node.body[-1]) == "self.setMassFracs({nucName: val})", "ArmiObject.setMassFrac", f, msg="must delegate to setMassFracs")
    f = ao.methods["removeMass"]
    r.require(norm(f.node.body[-1]) == "self.addMass(nucName, -mass)", "ArmiObject.removeMass", f, msg="removeMass = addMass(-mass)")
    f = ao.methods["addMass"]
    call = next((x for x in iter_calls(f.node) if dotted(x.func) == "self.setNumberDensity"), None)
    r.require(call is not None and norm(call.args[1]) == "self.getNumberDensity(nucName) + addedNumberDensity", "ArmiObject.addMass", f, node=call, msg="new density = current + added")
    # setMassFracs: the remaining nuclides keep their proportions and share exactly what is left
    f = ao.methods["setMassFracs"]

    def ev(n):
        if isinstance(n, ast.AugAssign) and norm(n.target) == "totalFracSet" and norm(n.value) == "massFrac":
            return ["acc"]
        return []
    loop = next((n for n in f.node.body if isinstance(n, ast.For) and norm(n.iter) == "massFracs.items()"), None)
    if loop is None:
        raise AnalysisError("setMassFracs: loop over massFracs not found")
    fb = Flow(f.node, ev, body=loop.body).run()
    ends = fb.iteration_ends()
    r.require(bool(ends) and all(s.get("acc", (0, 0)) == (1, 1) for s in ends), "setMassFracs:every-set-fraction-counted", f, node=loop,
              msg="every assigned mass fraction (also of a nuclide that was not present before) must be added to the total set, exactly once, or the others are not rescaled to sum to one")
    others = [c_ for c_ in iter_calls(f.node) if dotted(c_.func) == "self.setNumberDensity" and "massFracOther" in norm(c_)]
    r.require(len(others) == 1 and norm(others[0].args[1]).startswith("(1.0 - totalFracSet) * massFracOther * rho"), "setMassFracs:others-share-remainder", f, node=others[0] if others else None,
              msg="the other nuclides receive (1 - total set) x their normalised old fraction")
    nrm = next((s for s in iter_stores(f.node) if s.attr == "normalizedOtherMassFracs"), None)
    r.require(nrm is not None and "val / totalOther" in norm(nrm.value) and any(norm(s.value) == "sum(oldMassFracs.values())" for s in iter_stores(f.node) if s.attr == "totalOther"), "setMassFracs:others-normalised", f,
              msg="old fractions of the untouched nuclides are normalised by their own total")
    rho = next((s for s in iter_stores(f.node) if s.attr == "rho"), None)
    r.require(rho is not None and rho.stmt.lineno < loop.lineno and norm(rho.value) == "self.density()", "setMassFracs:density-read-first", f, msg="the total density must be read before any nuclide is changed (it is to stay unchanged)")


def r4_caches(idx, r):
    """Geometry or temperature changes invalidate the cached areas/volumes that masses are computed from."""
    cl = idx.method(COMP, "clearLinkedCache")

    def ev(n):
        if isinstance(n, ast.Call) and dotted(n.func) == "self.clearCache":
            return ["own"]
        if isinstance(n, ast.Assign) and norm(n) == "self.parent.cached = {}":
            return ["parent"]
        return []
    fl = Flow(cl.node, ev, assume=lambda t: True if norm(t) == "self.parent" else None).run()
    for e in fl.normal_exits():
        r.require(e.state.get("own", (0, 0))[0] >= 1 and e.state.get("parent", (0, 0))[0] >= 1, "clearLinkedCache:own-and-parent", cl,
                  msg="when a component's geometry changes both its own cache and its parent block's cached area/volume must be dropped (else block and assembly volumes stay stale)")
    for meth in ("setTemperature", "setDimension"):
        f = idx.method(COMP, meth)
        fl = Flow(f.node, lambda n: ["clr"] if isinstance(n, ast.Call) and dotted(n.func) == "self.clearLinkedCache" else []).run()
        bad = [e for e in fl.normal_exits() if e.state.get("clr", (0, 0))[0] < 1 and not (e.kind == "return" and e.node is not None and any(norm(t) == "key" and not p for t, p in path_conditions(f.node, e.node)))]
        r.require(not bad, f"Component.{meth}:invalidates", f, msg=f"{meth} must clear linked caches on every path")
    ga = idx.method("armi.reactor.blocks.Block", "getArea")
    gets = [c for c in iter_calls(ga.node) if dotted(c.func) == "self._getCached"]
    sets = [c for c in iter_calls(ga.node) if dotted(c.func) == "self._setCache"]
    r.require(len(gets) == 1 and len(sets) == 1 and norm(gets[0].args[0]) == norm(sets[0].args[0]), "Block.getArea:cache-key", ga, msg="the cached area is stored and looked up under one key")
    sh = idx.method("armi.reactor.blocks.Block", "setHeight")
    r.require(any(dotted(c.func) == "self.clearCache" for c in iter_calls(sh.node)), "Block.setHeight:clears-cache", sh, msg="a height change must drop the block's cached values")


# functions whose effect changes what cached areas/volumes/symmetry-dependent values are computed from: each must drop
# its own cache (clearCache / clearLinkedCache on self) on EVERY normal path. Confirmed by reading, one reason each.
MUST_INVALIDATE = {
    "armi.reactor.assemblies.Assembly.moveTo": "the symmetry factor of the location may change (on or off a symmetry line)",
    "armi.reactor.blocks.Block.setHeight": "volume = area x height",
    "armi.reactor.blocks.Block.replaceBlockWithBlock": "all children replaced",
    "armi.reactor.blocks.Block.add": "a component was added",
    "armi.reactor.blocks.Block.insert": "a component was inserted (the sibling primitive of add)",
    "armi.reactor.blocks.Block.remove": "a component was removed",
    "armi.reactor.composites.ArmiObject.adjustMassFrac": "densities changed",
    "armi.reactor.composites.Composite._syncParameters": "parameters overwritten from another process",
    "armi.reactor.cores.Core.symmetry": "every symmetry factor in the core changes with the core's symmetry",
    "armi.reactor.components.UnshapedVolumetricComponent.setVolume": "volume set directly",
    "armi.reactor.components.component.Component.setProperties": "material / temperatures re-initialised",
    "armi.reactor.components.component.Component.setTemperature": "every expanding dimension changes",
    "armi.reactor.components.component.Component.clearLinkedCache": "is the invalidation primitive of components",
}
# functions that invalidate their own cache on some paths only, with the reason this is right
MAY_SKIP_INVALIDATION = {
    "armi.reactor.components.component.Component.updateNumberDensities": "only when the composition change moved the thermal expansion (dLL) is geometry affected",
    "armi.reactor.components.component.Component.setDimension": "returns early for an empty key: nothing was set",
}


def r5_owned_density_table(idx, r):
    """A component owns its number-density table: whatever is bound to `.p.numberDensities` is a fresh mapping
    (literal, comprehension, dict()/copy, or the result of a call), never an object the caller still holds."""
    from ..own import all_stores

    def fresh(v, f, depth=0):
        if isinstance(v, (ast.Dict, ast.DictComp)):
            return True
        if isinstance(v, ast.Call):
            return True  # a call result is a new object unless the callee returns its argument; densityTools helpers build new dicts
        if isinstance(v, ast.Name) and depth < 3:
            if v.id in f.params():
                return False
            defs = [s_.value for s_ in iter_stores(f.node) if isinstance(s_.node, ast.Name) and s_.attr == v.id and s_.kind == "assign"]
            return bool(defs) and all(fresh(d, f, depth + 1) for d in defs if d is not None)
        return False

    n = 0
    for f, st in all_stores(idx, "numberDensities"):
        if ".tests" in f.module.name or st.kind != "assign" or not (st.chain or "").endswith("p.numberDensities"):
            continue
        n += 1
        r.require(fresh(st.value, f), f"{f.qualname}:{norm(st.stmt)[:60]}", f, node=st.stmt,
                  msg=f"`{norm(st.stmt)[:70]}` binds an object that the caller (or another component) still holds: a later in-place change of one "
                      "component's densities silently changes the other's, so setting one nuclide changes more than was asked")
    if n < 3:
        raise AnalysisError(f"only {n} stores into p.numberDensities found")


def r7_dehomogenisation_range(idx, r):
    """Block-level density N spread over children: N / sum(volume fractions of the receivers). The children that
    receive the nuclide and the volume fractions that are summed must be selected by the same index set."""
    f = idx.method("armi.reactor.composites.ArmiObject", "updateNumberDensities")
    if f is None:
        raise AnchorMissing("ArmiObject.updateNumberDensities")

    def selector(e):
        """('ALL',) | ('IDX', iterable-text) | ('FILTER', text) | None"""
        if isinstance(e, ast.Call) and dotted(e.func) in ("tuple", "list", "sum") and len(e.args) == 1:
            e = e.args[0]
        if isinstance(e, ast.Name):
            return ("ALL", e.id)
        if isinstance(e, (ast.GeneratorExp, ast.ListComp)) and len(e.generators) == 1:
            g = e.generators[0]
            if isinstance(e.elt, ast.Subscript) and isinstance(e.elt.value, ast.Name) and isinstance(g.target, ast.Name) and norm(e.elt.slice) == g.target.id and not g.ifs:
                return ("IDX", e.elt.value.id, norm(g.iter))
            return ("FILTER", norm(e)[:80])
        return None

    n = 0
    for node in walk_local(f.node):
        body = getattr(node, "body", None)
        for blk in [b for b in (body, getattr(node, "orelse", None)) if isinstance(b, list)]:
            recv = [s_ for s_ in blk if isinstance(s_, ast.Assign) and norm(s_.targets[0]) == "childrenToSet"]
            den = [s_ for s_ in blk if isinstance(s_, ast.Assign) and isinstance(s_.value, ast.BinOp) and isinstance(s_.value.op, ast.Div) and isinstance(s_.value.right, ast.Call)]
            if not recv or not den:
                continue
            n += 1
            if dotted(den[0].value.right.func) != "sum":
                r.violate(f"branch:{norm(recv[0].value)[:50]}", f, f"the block-level density is divided by `{norm(den[0].value.right)[:50]}`: de-homogenising means dividing by the SUM OF THE "
                          "VOLUME FRACTIONS of the receiving children; any other divisor (a count of children ...) does not give density x volume back", node=den[0])
                continue
            a, b = selector(recv[0].value), selector(den[0].value.right)
            same = a is not None and b is not None and a[0] == b[0] and a[2:] == b[2:] and a[0] in ("ALL", "IDX")
            r.require(same, f"branch:{norm(recv[0].value)[:50]}", f, node=recv[0],
                      msg=f"the nuclide is given to `{norm(recv[0].value)[:60]}` but the density is divided by `{norm(den[0].value.right)[:60]}`: receivers and "
                          "summed volume fractions are selected differently, so density x volume over the children no longer adds up to the block value")
    if n < 2:
        raise AnalysisError(f"updateNumberDensities: {n} (receivers, denominator) pairs found, expected the two branches")


def r6_unconditional_invalidation(idx, r, only=None):
    def is_clear(n):
        return isinstance(n, ast.Call) and dotted(n.func) in ("self.clearCache", "self.clearLinkedCache")

    seen = set()
    for fq, why in MUST_INVALIDATE.items():
        if only is not None and fq not in only:
            continue
        owner, name = fq.rsplit(".", 1)
        f = idx.method(owner, name)
        if f is None:
            # property setters are indexed under the same name; try the class body directly
            c = idx.cls(owner)
            cand = [x for x in (c.node.body if c is not None else []) if isinstance(x, ast.FunctionDef) and x.name == name and any("setter" in norm(d) for d in x.decorator_list)]
            if not cand:
                raise AnchorMissing(fq)
            node, at = cand[0], c
        else:
            node, at = f.node, f
            c = idx.cls(owner)
            setters = [x for x in c.node.body if isinstance(x, ast.FunctionDef) and x.name == name and any("setter" in norm(d) for d in x.decorator_list)]
            if setters:
                node = setters[0]
        seen.add(fq)
        fl = Flow(node, lambda n: ["clr"] if is_clear(n) else []).run()
        bad = [e for e in fl.normal_exits() if e.state.get("clr", (0, 0))[0] < 1]
        r.require(not bad, f"{owner.rsplit('.', 1)[-1]}.{name}:always-invalidates", at, node=(bad[0].node if bad and bad[0].node is not None else node),
                  msg=f"a path leaves {name} without dropping the object's cached values ({why}); a cached area/volume computed before the change is then served after it")
    # path contradiction elsewhere: a function that invalidates self on one path but not on another must be a listed exception
    for m in ([] if only is not None else idx.modules.values()):
        if not m.name.startswith("armi.reactor") or ".tests" in m.name:
            continue
        for f in m.all_funcs():
            fq = f"{m.name}.{f.qualname}"
            if fq in seen or not any(is_clear(n) for n in ast.walk(f.node)):
                continue
            fl = Flow(f.node, lambda n: ["clr"] if is_clear(n) else []).run()
            bad = [e for e in fl.normal_exits() if e.state.get("clr", (0, 0))[0] < 1]
            if not bad:
                r.ok(f"{f.qualname}:invalidates-on-all-paths", f)
            elif fq in MAY_SKIP_INVALIDATION:
                r.ok(f"{f.qualname}:listed-exception", f, msg=MAY_SKIP_INVALIDATION[fq])
            else:
                # a function this table has not seen: a path contradiction is a lead, not a verdict (Engler et al.: read before arming)
                r.undecided(f"{f.qualname}:conditional-invalidation", f, "invalidates its own cache on one path and leaves on another without doing so; not among the functions "
                            "confirmed by reading (MUST_INVALIDATE / MAY_SKIP_INVALIDATION) - review and add it to one of the tables", node=bad[0].node if bad[0].node is not None else f.node)


GEOM_READS = {"getVolume", "getArea", "getMass", "getNumberDensity", "getNumberDensities", "getNuclideNumberDensities", "getVolumeFractions",
              "getHeight", "getDimension", "getComponentArea", "getSymmetryFactor"}
MASS_ACCESSORS = {"getMass", "getMasses", "getMassFrac", "getMassFracs", "getNumberOfAtoms", "getHMMass", "getHMMoles", "getFissileMass", "getFissileMassEnrich",
                  "getFuelMass", "getMicroSuffix"} - {"getMicroSuffix"}


def r8_cache_levels(idx, r):
    """The composite cache (`self.cached`, _getCached/_setCache) is dropped by clearCache(), which every implementation propagates DOWN to
    the children only; geometry mutators call it on the component and on its parent block.  A geometry- or composition-derived value cached
    by a method that assemblies/cores inherit (ArmiObject, Composite, Assembly, Core ...) is therefore never dropped when a child changes."""
    blk = idx.cls("armi.reactor.blocks.Block")
    cmpc = idx.cls(COMP)
    low = {c.fq for c in [blk, cmpc] + idx.subclasses(blk) + idx.subclasses(cmpc)}
    upward = False
    n_clear = 0
    for m in idx.modules.values():
        if not m.name.startswith("armi.reactor") or ".tests" in m.name:
            continue
        for f in m.all_funcs():
            if f.name == "clearCache":
                n_clear += 1
                if any(dotted(c.func) == "self.parent.clearCache" for c in iter_calls(f.node)) and f.cls is not None and f.cls.fq not in {c.fq for c in [cmpc] + idx.subclasses(cmpc)}:
                    upward = True
    if n_clear < 2:
        raise AnalysisError("clearCache implementations not found")
    n = 0
    for m in idx.modules.values():
        if not m.name.startswith("armi.reactor") or ".tests" in m.name:
            continue
        for f in m.all_funcs():
            sets = [c for c in iter_calls(f.node) if dotted(c.func) == "self._setCache"] + [s.node for s in iter_stores(f.node) if s.kind == "subscript" and s.chain == "self.cached"]
            if not sets or f.name in ("_setCache",):
                continue
            n += 1
            geom = any(call_attr(c) in GEOM_READS for c in iter_calls(f.node))
            ok = (f.cls is not None and f.cls.fq in low) or not geom
            if not ok and upward:
                r.undecided(f"{f.qualname}:cache-level", f, "caches a geometry-derived value above block level while some clearCache propagates upward; not decided")
                continue
            r.require(ok, f"{f.qualname}:cache-at-block-level-or-below", f, node=sets[0],
                      msg=f"{f.qualname} caches a geometry/composition-derived value in a method that assemblies and cores inherit, but clearCache() only reaches a block, its "
                          "components and their descendants: after a child's volume changes the assembly/core keeps serving the stale value")
    if n < 1:
        raise AnchorMissing("no composite-cache writer found (Block.getArea caches `area`)")
    # the memo key covers the arguments: a value that depends on a parameter of the method is cached under a name that depends on it too
    for m in idx.modules.values():
        if not m.name.startswith("armi.reactor") or ".tests" in m.name:
            continue
        for f in m.all_funcs():
            cc = [c for c in iter_calls(f.node) if dotted(c.func) in ("self._setCache", "self._getCached") and c.args]
            if not cc or f.name in ("_setCache", "_getCached"):
                continue
            # the names the stored value is computed from (closure over the assignments and loops of the method)
            feeds = set()
            for c in cc:
                if dotted(c.func) == "self._setCache" and len(c.args) == 2:
                    feeds |= {x.id for x in ast.walk(c.args[1]) if isinstance(x, ast.Name)}
            grew = True
            while grew:
                grew = False
                for nd in walk_local(f.node):
                    tgt, src = [], []
                    if isinstance(nd, ast.Assign):
                        tgt, src = nd.targets, [nd.value]
                    elif isinstance(nd, (ast.AugAssign, ast.AnnAssign)) and nd.value is not None:
                        tgt, src = [nd.target], [nd.value]
                    elif isinstance(nd, ast.For):
                        tgt, src = [nd.target], [nd.iter]
                    if any(isinstance(x, ast.Name) and x.id in feeds for t in tgt for x in ast.walk(t)):
                        new = {x.id for e in src for x in ast.walk(e) if isinstance(x, ast.Name)} - feeds
                        if new:
                            feeds |= new
                            grew = True
            for prm in f.params()[1:]:
                if prm not in feeds:
                    continue
                for c in cc:
                    names = {x.id for x in ast.walk(c.args[0]) if isinstance(x, ast.Name)}
                    key_src = [c.args[0]] + [s_.value for s_ in iter_stores(f.node) if s_.kind == "assign" and isinstance(s_.node, ast.Name) and s_.node.id in names and s_.value is not None]
                    in_key = any(isinstance(x, ast.Name) and x.id == prm for k in key_src for x in ast.walk(k))
                    guarded = any(prm in {x.id for x in ast.walk(t) if isinstance(x, ast.Name)} for t, _p in path_conditions(f.node, c))
                    r.require(in_key or guarded, f"{f.qualname}:cache-key-covers:{prm}", f, node=c,
                              msg=f"{f.qualname} computes a value that depends on `{prm}` but `{norm(c)[:60]}` uses a cache name that does not: the first caller's `{prm}` decides what every later caller gets")


def r9_mass_from_number_densities(idx, r):
    """Mass accessors read the number densities; none may go through Component.density(), whose handbook fall-back answers for a component
    with all densities zero - mass would then differ from the sum over nuclides."""
    n = 0
    for m in idx.modules.values():
        if not m.name.startswith("armi.reactor") or ".tests" in m.name:
            continue
        for f in m.all_funcs():
            if f.name not in MASS_ACCESSORS or f.cls is None:
                continue
            n += 1
            bad = [c for c in iter_calls(f.node) if dotted(c.func) == "self.density"]
            r.require(not bad, f"{f.qualname}:no-handbook-density", f, node=bad[0] if bad else None,
                      msg="a mass accessor goes through self.density(), which falls back to the material's handbook density when all number densities are zero: "
                          "getMass() then differs from the sum of the nuclide masses")
    gm = idx.method(COMP, "getMass")
    rets = [x for x in walk_local(gm.node) if isinstance(x, ast.Return) and x.value is not None]
    env = single_assign_env(gm.node)
    for x in rets:
        v = propagate(x.value, env)
        r.require(any(call_attr(c) == "getNuclideNumberDensities" for c in ast.walk(v) if isinstance(c, ast.Call)), "Component.getMass:return-reads-number-densities", gm, node=x,
                  msg="a return of Component.getMass does not depend on the component's number densities")
    if n < 6:
        raise AnalysisError(f"only {n} mass accessors found")
    # Material.__init_subclass__ wraps every material's density(); Fluid.__init_subclass__ removes the wrapper again for the whole fluid
    # family.  Code that reaches for `<material>.density.__wrapped__` therefore has to cope with its absence.
    mat = idx.module("armi.materials.material")
    wraps = [f for f in mat.all_funcs() if f.name == "__init_subclass__" and any((isinstance(x, ast.Attribute) and x.attr == "__wrapped__") or (isinstance(x, ast.Constant) and x.value == "__wrapped__") for x in ast.walk(f.node))]
    if len(wraps) < 2:
        raise AnchorMissing("Material.__init_subclass__ / Fluid.__init_subclass__ handling density.__wrapped__")
    k = 0
    for m in idx.modules.values():
        if not m.name.startswith("armi.") or ".tests" in m.name:
            continue
        for f in m.all_funcs():
            if f.name == "__init_subclass__":
                continue
            for x in walk_local(f.node):
                if isinstance(x, ast.Attribute) and x.attr == "__wrapped__" and isinstance(x.value, ast.Attribute) and x.value.attr == "density":
                    k += 1
                    conds = " ".join(norm(t) for t, p in path_conditions(f.node, x) if p)
                    r.require("hasattr(" in conds and "__wrapped__" in conds, f"{f.qualname}:density-wrapper-may-be-absent", f, node=x,
                              msg=f"`{norm(x)}` assumes the parent-aware wrapper is there; every Fluid material has it removed, so a fluid component whose number densities are all zero "
                                  "(a voided coolant) raises AttributeError from density() and from everything built on it (setMassFrac ...)")
                if isinstance(x, ast.Call) and dotted(x.func) == "getattr" and len(x.args) == 3 and isinstance(x.args[1], ast.Constant) and x.args[1].value == "__wrapped__":
                    k += 1
                    r.ok(f"{f.qualname}:density-wrapper-may-be-absent", f, node=x)
    if k < 1:
        raise AnchorMissing("Component.density: fall-back through the material's unwrapped density")


def r10_scaling_guard(idx, r):
    """Block.adjustDensity scales every listed nuclide by `frac`; the only admissible skip is a density that is already zero.
    A skip condition that depends on `frac` (e.g. on the product) exempts frac == 0 from scaling."""
    f = idx.method("armi.reactor.blocks.Block", "adjustDensity")
    frac = f.params()[1]
    taint = {frac}
    changed = True
    while changed:
        changed = False
        for s in iter_stores(f.node):
            if s.kind == "assign" and isinstance(s.node, ast.Name) and s.value is not None and s.attr not in taint and any(isinstance(x, ast.Name) and x.id in taint for x in ast.walk(s.value)):
                taint.add(s.attr)
                changed = True
    sets = [c for c in iter_calls(f.node) if dotted(c.func) == "self.setNumberDensity"]
    if not sets:
        raise AnchorMissing("Block.adjustDensity: self.setNumberDensity(...)")
    for c in sets:
        conds = path_conditions(f.node, c)
        bad = [t for t, _p in conds if any(isinstance(x, ast.Name) and x.id in taint for x in ast.walk(t))]
        r.require(not bad, "Block.adjustDensity:skip-independent-of-factor", f, node=bad[0] if bad else c,
                  msg=f"whether a density is rescaled depends on `{norm(bad[0]) if bad else ''}`, i.e. on the factor: adjustDensity(0.0, ...) leaves the densities unchanged")
        r.require(any(isinstance(x, ast.Name) and x.id in taint for a in c.args[1:] for x in ast.walk(a)), "Block.adjustDensity:new-density-uses-factor", f, node=c, msg="the density written does not depend on the factor")


def r11_in_plane_and_all_isotopes(idx, r):
    """(a) Whether a Cartesian block lies on a symmetry line is a statement about its IN-PLANE indices (i, j): the axial index k of the complete
    index triple must not take part (every block of the bottom layer has k == 0).  (b) An element specifier stands for ALL nuclide bases of
    that element present in the directory - mass of an element = sum over its nuclides; restricting it to the naturally occurring isotopes
    silently leaves out e.g. U236, and everything for elements without natural isotopes."""
    f = idx.method("armi.reactor.blocks.CartesianBlock", "getSymmetryFactor")
    iv = next((s_.attr for s_ in iter_stores(f.node) if isinstance(s_.node, ast.Name) and s_.value is not None and "getCompleteIndices" in norm(s_.value)), None)
    if iv is None:
        raise AnchorMissing("CartesianBlock.getSymmetryFactor: indices = ...getCompleteIndices()")
    n = 0
    for t in [x.test for x in walk_local(f.node) if isinstance(x, ast.If)]:
        if not any(isinstance(y, ast.Name) and y.id == iv for y in ast.walk(t)):
            continue
        n += 1
        whole = [y for y in ast.walk(t) if isinstance(y, ast.Compare) and any(isinstance(o, (ast.In, ast.NotIn)) for o in y.ops) and any(isinstance(c_, ast.Name) and c_.id == iv for c_ in y.comparators)]
        whole += [y for y in ast.walk(t) if isinstance(y, ast.Call) and dotted(y.func) in ("any", "all", "min", "max", "sum") and any(isinstance(a_, ast.Name) and a_.id == iv for a_ in ast.walk(y))
                  and not any(isinstance(s2, ast.Subscript) and isinstance(s2.slice, ast.Slice) for s2 in ast.walk(y))]
        axial = [y for y in ast.walk(t) if isinstance(y, ast.Subscript) and norm(y.value) == iv and norm(y.slice) in ("2", "-1")]
        r.require(not whole and not axial, f"CartesianBlock.getSymmetryFactor:test{n}:in-plane-indices-only", f, node=t,
                  msg=f"`{norm(t)}` looks at the whole (i, j, k) triple: k == 0 (every block of the bottom layer) then counts as lying on a symmetry line and the block's volume and "
                      "masses are divided by 2")
    if n < 2:
        raise AnalysisError("CartesianBlock.getSymmetryFactor: centre and edge tests not found")
    g = idx.method(AO, "_getNuclidesFromSpecifier")
    nat = [c for c in iter_calls(g.node) if call_attr(c) in ("getNaturalIsotopics", "getNaturalIsotopes")]
    allb = [x for x in ast.walk(g.node) if isinstance(x, ast.Attribute) and x.attr == "nuclides" and "bySymbol" in norm(x.value)]
    r.require(bool(allb) and not nat, "_getNuclidesFromSpecifier:element-means-all-its-nuclides", g, node=nat[0] if nat else None,
              msg="an element specifier is expanded through the element's natural isotopics: nuclides of the element that do not occur naturally (U236, U232, every Pu isotope when "
                  "some natural one exists ...) are left out of getMass('U') / setMass / number-density queries")


def r12_assembly_area_and_merge(idx, r):
    """(a) Assembly.getArea is the symmetry-reduced area of its first block (getArea, which divides by the symmetry factor), not the full cell:
    assembly volume = sum of block volumes.  (b) Component.mergeNuclidesInto sets, for every nuclide of either component, the SUM of the two
    contributions: a dict update lets one side overwrite the other for shared nuclides."""
    f = idx.method("armi.reactor.assemblies.Assembly", "getArea")
    rets = [x for x in walk_local(f.node) if isinstance(x, ast.Return) and isinstance(x.value, ast.Call) and "self[0]" in norm(x.value)]
    if not rets:
        raise AnchorMissing("Assembly.getArea: return self[0].<area>()")
    for x in rets:
        r.require(call_attr(x.value) == "getArea", "Assembly.getArea:symmetry-reduced-block-area", f, node=x,
                  msg=f"`{norm(x)}`: the assembly's area must be its first block's getArea() (cut by the symmetry factor); with the full cell area the volume of an assembly on a symmetry line is "
                      "its blocks' volume times the factor, and every assembly-level mass edit is off by it")
    g = idx.method(COMP, "mergeNuclidesInto")
    tgt = g.params()[1]
    upd = [c for c in iter_calls(g.node) if call_attr(c) == "update" and isinstance(c.func, ast.Attribute) and isinstance(c.func.value, ast.Name)]
    r.require(not upd, "mergeNuclidesInto:no-overwrite", g, node=upd[0] if upd else None, msg=f"`{norm(upd[0]) if upd else ''}` overwrites one component's densities with the other's for shared nuclides")
    sets = [c for c in iter_calls(g.node) if call_attr(c) in ("setNumberDensity",) and norm(c.func.value) == tgt]
    oks = [c for c in sets if len(c.args) == 2 and isinstance(c.args[1], ast.BinOp) and isinstance(c.args[1].op, ast.Add)]
    r.require(bool(oks) and len(oks) == len(sets), "mergeNuclidesInto:sum-of-both-contributions", g, msg="each nuclide of either component receives the sum of both contributions (atoms conserved for shared nuclides)")


def r13_block_primitives_invalidate(idx, r):
    """Composite.add / insert / remove change which components a block holds; Composite itself clears no cache and does not re-arm the derived
    shape.  Block must therefore override each of the three primitives (and drop its caches in it): one it merely inherits changes the block's
    contents while the cached volumes and the derived coolant volume stay those of the old contents."""
    blk = idx.cls("armi.reactor.blocks.Block")
    for name in ("add", "insert", "remove"):
        f = blk.methods.get(name)
        if f is None:
            r.violate(f"Block.{name}:overridden-and-invalidating", blk, f"Block inherits Composite.{name} unchanged: a component {name}ed this way leaves the cached block volume and the derived-shape volume stale "
                      "(block volume larger than its cell, coolant mass too high) until some other call happens to clear the cache")
            continue
        okc = any(dotted(c.func) == "self.clearCache" for c in iter_calls(f.node)) and any((dotted(c.func) or "").endswith(f"Composite.{name}") or (call_attr(c) == name and "super()" in norm(c.func)) for c in iter_calls(f.node))
        r.require(okc, f"Block.{name}:overridden-and-invalidating", f, msg=f"Block.{name} must go through Composite.{name} and drop the block's caches")
        if name in ("add", "insert"):
            r.require(any(isinstance(x, ast.Assign) and norm(x) == "self.derivedMustUpdate = True" for x in walk_local(f.node)), f"Block.{name}:re-arms-the-derived-shape", f, msg="adding a component changes what is left for the derived shape")


def r14_expansion_adds(idx, r):
    """expandElementalToIsotopics replaces an elemental entry (FE) by its natural isotopes.  A component may already hold some of those
    isotopes explicitly (FE56 from the blueprint): the share coming from the element is ADDED to what is there - a plain assignment overwrites it
    and the element's atoms are not conserved."""
    f = idx.method(AO, "expandElementalToIsotopics")
    loop = next((x for x in walk_local(f.node) if isinstance(x, ast.For) and "getNaturalIsotopics" in norm(x.iter)), None)
    if loop is None:
        raise AnchorMissing("expandElementalToIsotopics: loop over the natural isotopics")
    sets = [c for c in ast.walk(loop) if isinstance(c, ast.Call) and call_attr(c) == "setNumberDensity" and len(c.args) == 2]
    if not sets:
        raise AnchorMissing("expandElementalToIsotopics: setNumberDensity(isotope, ...)")
    for c in sets:
        v = c.args[1]
        recv = norm(c.func.value)
        acc = isinstance(v, ast.BinOp) and isinstance(v.op, ast.Add) and any(isinstance(y, ast.Call) and call_attr(y) in ("getNumberDensity",) and norm(y.func.value) == recv and norm(y.args[0]) == norm(c.args[0]) for y in ast.walk(v))
        r.require(acc, "expandElementalToIsotopics:isotope-share-added", f, node=c,
                  msg=f"`{norm(c)[:90]}` sets the isotope to the element's share alone: an isotope the component already held explicitly loses its own atoms (iron density 0.0803 -> 0.0703 for FE plus FE56 = 0.01)")


def r15_memo_and_mass_vector(idx, r):
    """(a) A method that answers from the composite cache stores under a name exactly what it returns on the miss path: if the stored value
    and the returned one differ (e.g. the symmetry reduction applied after the store), the second caller gets another number than the first.
    (b) `ArmiObject.addMasses` skips an entry only when it is zero: a sign test drops the negative entries of a mass vector (a removal).
    (c) `Component.adjustMassEnrichment` renormalises over every nuclide of the enriched element (element.nuclides), not only the natural
    ones: with U236 or U233 present the requested enrichment would not read back."""
    n = 0
    for m in idx.modules.values():
        if not m.name.startswith("armi.reactor") or ".tests" in m.name:
            continue
        for f in m.all_funcs():
            sets = [c for c in iter_calls(f.node) if dotted(c.func) == "self._setCache" and len(c.args) == 2]
            gets = [c for c in iter_calls(f.node) if dotted(c.func) == "self._getCached"]
            if not sets or not gets or f.name in ("_setCache", "_getCached"):
                continue
            # only methods that answer a hit with the cached object itself: `x = self._getCached(k); if x: return x`
            hitnames = {s_.node.id for s_ in iter_stores(f.node) if s_.kind == "assign" and isinstance(s_.node, ast.Name) and isinstance(s_.value, ast.Call) and dotted(s_.value.func) == "self._getCached"}
            if not any(isinstance(x, ast.Return) and x.value is not None and (norm(x.value) in hitnames or (isinstance(x.value, ast.Call) and dotted(x.value.func) == "self._getCached")) for x in walk_local(f.node)):
                continue
            for c in sets:
                n += 1
                stored = norm(c.args[1])
                # the first return that follows the store in the same block (or the function's last return)
                rets = [x for x in walk_local(f.node) if isinstance(x, ast.Return) and x.value is not None and x.lineno > c.lineno]
                if not rets:
                    r.undecided(f"{f.qualname}:cache-stores-what-it-returns", f, "no return after the cache store; not decided", node=c)
                    continue
                again = isinstance(rets[0].value, ast.Call) and dotted(rets[0].value.func) == "self._getCached" and rets[0].value.args and norm(rets[0].value.args[0]) == norm(c.args[0])
                r.require(norm(rets[0].value) == stored or again, f"{f.qualname}:cache-stores-what-it-returns", f, node=rets[0],
                          msg=f"the miss path stores `{stored}` but returns `{norm(rets[0].value)[:60]}`: the next caller is answered from the cache with a different value than this one")
    if n < 1:
        raise AnchorMissing("a method that fills the composite cache")
    f = idx.method(AO, "addMasses")
    calls = [c for c in iter_calls(f.node) if dotted(c.func) == "self.addMass"]
    if len(calls) != 1:
        raise AnchorMissing("addMasses: the addMass call")
    bad = [norm(t) for t, _p in path_conditions(f.node, calls[0]) if any(isinstance(o, (ast.Lt, ast.Gt, ast.LtE, ast.GtE)) for x in ast.walk(t) if isinstance(x, ast.Compare) for o in x.ops)]
    r.require(not bad, "addMasses:entries-skipped-only-when-zero", f, node=calls[0],
              msg=f"an entry of the mass vector is applied only under {bad}: negative entries (mass to take out) are silently dropped, so add(v) followed by add(-v) does not give the mass back")
    g = idx.method(COMP, "adjustMassEnrichment")
    base = [s_ for s_ in iter_stores(g.node) if s_.kind == "assign" and isinstance(s_.node, ast.Name) and s_.node.id == "baselineNucNames" and s_.value is not None]
    if len(base) != 1:
        raise AnchorMissing("adjustMassEnrichment: baselineNucNames")
    txt = norm(base[0].value)
    r.require(".element.nuclides" in txt and "getNaturalIsotopics" not in txt, "adjustMassEnrichment:baseline-is-every-nuclide-of-the-element", g, node=base[0].stmt,
              msg=f"the baseline `{txt[:70]}` is not every nuclide of the enriched element: isotopes outside it (U236, U233) keep their mass while the total is redistributed, so the requested enrichment does not read back")


def r17_present_nuclides_siblings_lines(idx, r):
    """(a) adjustMassFrac sums mass fractions over the nuclides to hold constant and over the nuclides to adjust: each sum runs over a name set
    that was already intersected with the nuclides the object holds.  An element's name list contains the elemental nuclide AND its isotopes;
    getMassFrac of the elemental name answers with the isotopes' total, so summing before the intersection counts an expanded element twice.
    (b) reader and writer of the enrichment agree on the baseline: getMassEnrichment and adjustMassEnrichment both take every nuclide of the
    enriched element (element.nuclides).  (c) which blocks are cut by a symmetry line decides block volume and mass: only the 0- and
    120-degree lines bound the third core (rule shared with C13/C08)."""
    from .c13 import bounding_lines_rule
    f = idx.method(AO, "adjustMassFrac")
    n = 0
    for c in iter_calls(f.node):
        if dotted(c.func) != "sum" or not c.args or not isinstance(c.args[0], (ast.GeneratorExp, ast.ListComp)) or "getMassFrac" not in norm(c.args[0].elt):
            continue
        it = c.args[0].generators[0].iter
        if not isinstance(it, ast.Name):
            continue
        n += 1
        S = it.id

        def ev(nd, S=S):
            if isinstance(nd, ast.Assign) and any(norm(t) == S for t in nd.targets):
                return ["narrowed"] if ".intersection(" in norm(nd.value) or norm(nd.value) in ("[]", "set()") else ["widened"]
            if isinstance(nd, ast.Call) and norm(nd.func) == f"{S}.intersection_update":
                return ["narrowed"]
            return []
        fl = Flow(f.node, ev).run()
        st = fl.state_before(c) or {}
        # the last binding that reaches the sum is a narrowed one: at least one narrowing, and no plain re-binding after it
        stmt_assign = [x for x in walk_local(f.node) if isinstance(x, ast.Assign) and any(norm(t) == S for t in x.targets) and x.lineno < c.lineno]
        last_ok = bool(stmt_assign) and (".intersection(" in norm(stmt_assign[-1].value) or norm(stmt_assign[-1].value) in ("[]", "set()")) or st.get("narrowed", (0, 0))[0] > st.get("widened", (0, 0))[1]
        r.require(st.get("narrowed", (0, 0))[0] >= 1 and last_ok, f"adjustMassFrac:{S}:summed-over-present-nuclides", f, node=c,
                  msg=f"`{norm(c)[:80]}` sums over `{S}` before it is cut down to the nuclides the object holds: an element carried as isotopes is counted once under its elemental name and once per isotope")
    if n < 2:
        raise AnchorMissing("adjustMassFrac: the two mass-fraction sums")
    for meth in ("getMassEnrichment", "adjustMassEnrichment"):
        g = idx.method(COMP, meth)
        base = [s_ for s_ in iter_stores(g.node) if s_.kind == "assign" and isinstance(s_.node, ast.Name) and s_.node.id == "baselineNucNames" and s_.value is not None]
        if len(base) != 1:
            raise AnchorMissing(f"{meth}: baselineNucNames")
        txt = norm(base[0].value)
        r.require(".element.nuclides" in txt and "getNaturalIsotopics" not in txt, f"{meth}:baseline-is-every-nuclide-of-the-element", g, node=base[0].stmt,
                  msg=f"the baseline of {meth} is `{txt[:70]}`: reader and writer of the enrichment must both count every nuclide of the element (U236, U233 ...), or an enrichment that was set does not read back")
    bounding_lines_rule(idx, r)


def r16_pairing(idx, r):
    from ..pairing import pairing_rule
    pairing_rule(idx, r, ["armi.reactor.composites", "armi.reactor.blocks", "armi.reactor.components", "armi.utils.densityTools"], 100)


def r18_nothing_cached_above_the_leaves_of_change(idx, r):
    """Composition setters work on components (and blocks); nothing tells an assembly, a core - or even the block - that a child's nuclide
    vector changed, and clearCache only travels downwards.  A method defined on ArmiObject or Composite - inherited by every level - that
    keeps its answer in the composite cache (`_setCache`) therefore serves a stale composition after the next setNumberDensity below it."""
    n = 0
    for cn in (AO, "armi.reactor.composites.Composite"):
        c = idx.cls(cn)
        for name, f in sorted(c.methods.items()):
            n += 1
            fills = [x for x in iter_calls(f.node) if dotted(x.func) == "self._setCache"] + [s_.stmt for s_ in iter_stores(f.node) if s_.kind == "subscript" and s_.chain == "self.cached"]
            if name in ("_setCache", "_getCached", "clearCache", "backUp", "restoreBackup", "__setstate__", "__init__"):
                continue
            r.require(not fills, f"{c.name}.{name}:nothing-cached-at-every-level", f, node=fills[0] if fills else None,
                      msg=f"{c.name}.{name} keeps its answer in the composite cache; it is inherited by blocks, assemblies and cores, none of which is told when a component below changes its nuclides: "
                          "the next query returns the composition from before the change (e.g. a nuclide added to a component stays invisible at block level)")
    if n < 100:
        raise AnchorMissing("methods of ArmiObject / Composite")


# accessors of ArmiObject that answer with an extensive quantity of the object ALREADY reduced by the object's own symmetry factor
# (Block.getVolume / getArea divide by it; masses are sums of component masses, each over the parent block's factor)
_OWN_REDUCED = ("getVolume", "getArea", "getMass", "getHMMass", "getFissileMass", "getFPMass", "getFuelMass", "getHMMoles", "getNumberOfAtoms")


def _ifexp_alternatives(e, limit=16):
    """The expression with every conditional expression resolved to one of its branches (all combinations, bounded)."""
    import copy

    first = next((x for x in ast.walk(e) if isinstance(x, ast.IfExp)), None)
    if first is None:
        return [e]
    out = []
    for pick in ("body", "orelse"):
        class _Pick(ast.NodeTransformer):
            done = False

            def visit_IfExp(self, n):
                if self.done:
                    return n
                self.done = True
                return getattr(n, pick)
        alt = _Pick().visit(copy.deepcopy(e))
        out.extend(_ifexp_alternatives(alt, limit))
        if len(out) > limit:
            raise AnalysisError(f"`{norm(e)[:60]}`: more than {limit} combinations of conditional expressions")
    return out


def _monomials(e):
    """Exact Laurent normal form (exprnf.Poly) of an arithmetic expression; whatever is not + - * / **int is an opaque atom keyed by its
    canonical text.  Returns (poly, {atom text: node})."""
    from ..exprnf import ExprEval, Poly

    nodes = {}

    class _Ev(ExprEval):
        def ev(self, n):
            if isinstance(n, ast.BinOp) and (isinstance(n.op, (ast.Add, ast.Sub, ast.Mult, ast.Div)) or (isinstance(n.op, ast.Pow) and isinstance(n.right, ast.Constant) and isinstance(n.right.value, int))):
                return ExprEval.ev(self, n)
            if isinstance(n, ast.UnaryOp) and isinstance(n.op, (ast.USub, ast.UAdd)):
                return ExprEval.ev(self, n)
            if isinstance(n, ast.Constant) and isinstance(n.value, (int, float)) and not isinstance(n.value, bool):
                return ExprEval.ev(self, n)
            if isinstance(n, ast.Call) and dotted(n.func) in ("float", "int") and len(n.args) == 1 and not n.keywords:
                return self.ev(n.args[0])
            k = str(norm(n))
            nodes[k] = n
            return Poly.atom(k)

    try:
        return _Ev().ev(e), nodes
    except ZeroDivisionError:
        return Poly(), nodes


def r19_own_extensive_not_reduced_again(idx, r):
    """What an object reports as ITS volume, area, mass or atom count is already the part inside the modelled domain: Block.getVolume and
    Block.getArea divide the children's sum by the block's own symmetry factor, Assembly.getVolume/getArea are built from those, and every
    mass is a sum of component masses each divided by the parent block's factor.  A product in which X.getVolume() (getArea, getMass ...)
    is divided by X.getSymmetryFactor() OF THE SAME X therefore applies the factor twice: for the central block of a third-core model
    (factor 3) or an edge block (factor 2) the result is 1/3 (1/2) of density x volume.  (Dividing by the PARENT's factor - the component
    sites of R02.2 - and multiplying by the own factor - the full-object totals of calcTotalParam - are different receivers / exponents
    and are not concerned.)  Family: every method of every class of the composite hierarchy (ArmiObject and all its subclasses); one
    instance per call of such an accessor; each arithmetic expression (after copy propagation of single-assignment locals, `x op= e`
    folded over every binding of x, conditional expressions taken branch by branch) is brought to its exact Laurent normal form and no
    monomial may hold X.<accessor>() with a positive and X.getSymmetryFactor() with a negative exponent.  Methods of classes whose own
    factor is the constant 1.0 of ArmiObject for the class and all its subclasses (components, cores) are exempt for receiver `self`:
    there the division changes nothing."""
    ao = idx.cls(AO)
    for q in _OWN_REDUCED + ("getSymmetryFactor",):
        if q not in ao.methods:
            raise AnchorMissing(f"ArmiObject.{q}")
    base_sf = ao.methods["getSymmetryFactor"]
    rets = [n for n in walk_local(base_sf.node) if isinstance(n, ast.Return)]
    if len(rets) != 1 or norm(rets[0].value) != "1.0":
        raise AnalysisError("ArmiObject.getSymmetryFactor is no longer the constant 1.0: the exemption of uncut classes has lost its ground")
    classes = idx.subclasses(ao, strict=False)
    cut = {c for c in classes if c.resolve("getSymmetryFactor") is not base_sf}
    if not any(c.name == "Block" for c in cut) or not any(c.name == "Assembly" for c in cut):
        raise AnchorMissing("Block / Assembly overriding getSymmetryFactor")
    may_be_cut = {c for c in classes if any(c in d.mro() for d in cut)}  # the class itself or one of its subclasses has a factor of its own

    def quantity(n):
        if isinstance(n, ast.Call) and isinstance(n.func, ast.Attribute) and n.func.attr in _OWN_REDUCED:
            return str(norm(n.func.value)), n.func.attr
        return None

    for c in classes:
        for name, f in sorted(c.methods.items()):
            uses = [n for n in walk_local(f.node, include_nested=True) if quantity(n)]
            if not uses:
                continue
            env = single_assign_env(f.node)
            bound = {}
            for s_ in iter_stores(f.node, include_nested=False):
                if s_.kind == "assign" and isinstance(s_.node, ast.Name) and s_.value is not None:
                    bound.setdefault(s_.node.id, []).append(s_.value)
            inner = set()
            exprs = []
            for n in walk_local(f.node, include_nested=True):
                if isinstance(n, ast.BinOp) and id(n) not in inner:
                    exprs.append(n)
                if isinstance(n, ast.BinOp) or (isinstance(n, ast.UnaryOp) and id(n) in inner):
                    for ch in (getattr(n, "left", None), getattr(n, "right", None), getattr(n, "operand", None)):
                        if isinstance(ch, (ast.BinOp, ast.UnaryOp)):
                            inner.add(id(ch))
                if isinstance(n, ast.AugAssign) and isinstance(n.op, (ast.Mult, ast.Div)):
                    if isinstance(n.target, ast.Name) and n.target.id in bound:
                        exprs.extend(ast.BinOp(left=v, op=n.op, right=n.value) for v in bound[n.target.id])
                    else:
                        exprs.append(ast.BinOp(left=n.target, op=n.op, right=n.value))
            twice = {}
            for e in exprs:
                pe = propagate(e, env)
                if "getSymmetryFactor" not in str(norm(pe)):
                    continue
                for alt in _ifexp_alternatives(pe):
                    p, nodes = _monomials(alt)
                    for mono in p.t:
                        exps = dict(mono)
                        for a, k in exps.items():
                            qn = quantity(nodes.get(a))
                            if qn is None or k <= 0:
                                continue
                            if any(k2 < 0 and isinstance(nodes.get(a2), ast.Call) and call_attr(nodes[a2]) == "getSymmetryFactor" and not nodes[a2].args
                                   and str(norm(nodes[a2].func.value)) == qn[0] for a2, k2 in exps.items()):
                                twice.setdefault(qn, e)
            seen = {}
            for u in uses:
                recv, q = str(norm(propagate(u.func.value, env))), u.func.attr
                if recv == "self" and c not in may_be_cut:
                    continue
                i = seen[(recv, q)] = seen.get((recv, q), 0) + 1
                key = f"{f.qualname}:{recv}.{q}" + (f"#{i}" if i > 1 else "") + ":reduced-by-own-symmetry-factor-once"
                bad = twice.get((recv, q))
                r.require(bad is None, key, f, node=bad if bad is not None and hasattr(bad, "lineno") else u,
                          msg=f"`{norm(bad)[:90] if bad is not None else ''}` divides {recv}.{q}() by {recv}.getSymmetryFactor(): what an object reports as its own {q[3:].lower()} is already reduced by its own symmetry factor "
                              f"(Block.getVolume/getArea divide by it, masses are sums over components each divided by the parent's factor), so the factor is applied twice - for the central block or "
                              f"assembly of a third-core model (factor 3) the result is 1/3, on an edge (factor 2) 1/2 of density x volume, and no longer the sum of the children's; factor-1 objects hide it")


def run(idx, chk):
    chk.explanation = (
        "C02: 24 conversion/accounting functions are typed in the free abelian group of physical units (cm, g, mol, barn, atom) plus a role generator "
        "for volume fractions; returns and arguments of the number-density setters must have the unit the accounting law states (mass = density x "
        "volume, de-homogenised density = N / volume fraction). Symmetry-factor placement at the sibling sites, setters delegating to one "
        "implementation, setMassFracs bookkeeping, cache invalidation. Read-back equalities and inverse conversions as numbers are NOT decided."
    )
    chk.undecided_clauses = ["read-back-what-you-set as numbers", "fractions sum to one numerically", "which children receive a nuclide"]
    chk.run_rule("R02.1", "every accounting formula has the unit its law states (returns and setter arguments); sums over children are plain sums", lambda r: r1_dimensions(idx, r), floor=26,
                 necessary="a formula with the wrong unit cannot satisfy mass = density x volume for all inputs")
    chk.run_rule("R02.2", "the symmetry factor divides component volume by the parent's factor in both sibling sites; block totals by the block's own factor once", lambda r: r2_symmetry(idx, r), floor=7,
                 necessary="atoms counted as density x volume agree at component, block, assembly and core level")
    chk.run_rule("R02.3", "setters delegate to one implementation; scaling touches every density; setMassFracs counts every assigned fraction and shares the remainder", lambda r: r3_setters(idx, r), floor=12,
                 necessary="setting one nuclide must not change the others; fractions must sum to one")
    chk.run_rule("R02.4", "geometry/temperature changes drop the component's, the parent's and linked caches", lambda r: r4_caches(idx, r), floor=5, necessary="volume is the sum of the children's current volumes")
    chk.run_rule("R02.6", "the frozen list of geometry/placement/symmetry mutators drop their own cache on every path; no other function invalidates conditionally", lambda r: r6_unconditional_invalidation(idx, r), floor=12,
                 necessary="volume and area are served from caches: atoms = density x volume holds at every level only if no stale cache survives a change")
    chk.run_rule("R02.5", "whatever is bound to a component's p.numberDensities is a fresh mapping, never the caller's object", lambda r: r5_owned_density_table(idx, r), floor=3,
                 necessary="'setting one nuclide must not change the others' - nor another component's")
    chk.run_rule("R02.7", "block-level densities are de-homogenised over exactly the children that receive them", lambda r: r7_dehomogenisation_range(idx, r), floor=2,
                 necessary="density read back at block level = density set: sum over receivers of (N / sum vf) x vf = N")
    chk.run_rule("R02.8", "geometry-derived values are cached only at block level or below (where clearCache reaches)", lambda r: r8_cache_levels(idx, r), floor=1,
                 necessary="volume fractions / volumes served at assembly and core level are those of the children's current state")
    chk.run_rule("R02.9", "mass accessors read the number densities and never the handbook-density fall-back", lambda r: r9_mass_from_number_densities(idx, r), floor=8,
                 necessary="mass = sum over nuclides of N x A x V / N_A at every level")
    chk.run_rule("R02.10", "Block.adjustDensity skips only densities that are zero; the skip never depends on the factor", lambda r: r10_scaling_guard(idx, r), floor=2,
                 necessary="scaling by a factor scales every listed nuclide, including factor 0")
    chk.run_rule("R02.11", "Cartesian symmetry-line tests look at (i, j) only; an element specifier stands for all nuclide bases of the element", lambda r: r11_in_plane_and_all_isotopes(idx, r), floor=3,
                 necessary="volumes are divided by the symmetry factor of the IN-PLANE position; mass of an element is the sum over all its nuclides")
    chk.run_rule("R02.12", "Assembly.getArea is the symmetry-reduced area of its first block; merged densities are sums of both contributions", lambda r: r12_assembly_area_and_merge(idx, r), floor=3,
                 necessary="volume at assembly level = sum of block volumes; merging conserves the atoms of every nuclide")
    chk.run_rule("R02.13", "Block overrides each child-list primitive (add, insert, remove) and drops its caches there", lambda r: r13_block_primitives_invalidate(idx, r), floor=5,
                 necessary="block volume = sum of the volumes of the components it holds now")
    chk.run_rule("R02.14", "expanding an element adds its share to the isotope densities already present", lambda r: r14_expansion_adds(idx, r), floor=1,
                 necessary="the atoms of an element are conserved when it is expanded into isotopes")
    chk.run_rule("R02.15", "a cached value is the value returned; a mass vector entry is skipped only when zero; enrichment renormalises over every nuclide of the element", lambda r: r15_memo_and_mass_vector(idx, r), floor=3,
                 necessary="mass = density x volume at every level; adding then removing a mass vector restores the masses; an enrichment that was set reads back")
    chk.run_rule("R02.16", "arguments stand at the parameter they are named after; sibling calls forward the same pass-through parameters", lambda r: r16_pairing(idx, r), floor=1,
                 necessary="the accessors compute with the options the caller gave")
    chk.run_rule("R02.17", "mass-fraction sums run over nuclides present; enrichment reader and writer share the baseline; only the 0/120-degree lines cut a block", lambda r: r17_present_nuclides_siblings_lines(idx, r), floor=5,
                 necessary="a held-constant element keeps its mass fraction; an enrichment that was set reads back; core mass is the sum of block masses with and without edge assemblies")
    chk.run_rule("R02.18", "no method of ArmiObject/Composite (inherited by every level) fills the composite cache", lambda r: r18_nothing_cached_above_the_leaves_of_change(idx, r), floor=100,
                 necessary="block-level densities are the volume-weighted means of the children's present densities")
    chk.run_rule("R02.19", "what an object reports as its own volume, area, mass or atom count is never divided again by that same object's symmetry factor", lambda r: r19_own_extensive_not_reduced_again(idx, r), floor=63,
                 necessary="volume is reduced by the symmetry factor ONCE where a block is cut by symmetry lines, and mass equals density times (that) volume at block and assembly level: a second division makes getMasses/atoms of a cut block 1/2 or 1/3 of the sum of its children's")
