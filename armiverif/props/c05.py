"""C05 - parameter value shapes survive DB encoding: pack/unpack agreement of the special-data
strategies, the None-sentinel table, exhaustive type dispatch, flag byte order / order map,
serializer protocol.  Structural necessary conditions only (DESIGN.md section 3, C05)."""
from __future__ import annotations

import ast

from ..astutil import (call_attr, const_str, get_arg, iter_calls, iter_stores, propagate, single_assign_env, walk_local)
from ..flow import Flow, always_exits
from ..index import AnalysisError, AnchorMissing, dotted, norm

DB = "armi.bookkeeping.db.database"
LAYOUT = "armi.bookkeeping.db.layout"
JAG = "armi.bookkeeping.db.jaggedArray"


def _attr_key_store(n):
    """attrs['k'] = ...  -> 'k'"""
    if isinstance(n, ast.Assign):
        for t in n.targets:
            if isinstance(t, ast.Subscript) and isinstance(t.value, ast.Name) and t.value.id in ("attrs", "specialAttrs"):
                k = const_str(t.slice)
                if k:
                    yield k


def _attr_reads(fnode, names=("attrs",)):
    """keys read as attrs['k'] (hard) or attrs.get('k', d) (soft)."""
    hard, soft = {}, {}
    for n in walk_local(fnode):
        if isinstance(n, ast.Subscript) and isinstance(n.ctx, ast.Load) and isinstance(n.value, ast.Name) and n.value.id in names:
            k = const_str(n.slice)
            if k:
                hard.setdefault(k, n)
        if isinstance(n, ast.Call) and call_attr(n) == "get" and isinstance(n.func, ast.Attribute) and isinstance(n.func.value, ast.Name) \
                and n.func.value.id in names and n.args:
            k = const_str(n.args[0])
            if k:
                soft.setdefault(k, n)
        if isinstance(n, ast.Compare) and len(n.ops) == 1 and isinstance(n.ops[0], ast.In) and isinstance(n.comparators[0], ast.Name) \
                and n.comparators[0].id in names:
            k = const_str(n.left)
            if k:
                soft.setdefault(k, n)
    return hard, soft


def _eval_guard(test, val):
    """Evaluate a guard over attrs.get('k', False) atoms under a valuation {k: bool}."""
    if isinstance(test, ast.BoolOp):
        vs = [_eval_guard(v, val) for v in test.values]
        if any(v is None for v in vs):
            return None
        return all(vs) if isinstance(test.op, ast.And) else any(vs)
    if isinstance(test, ast.UnaryOp) and isinstance(test.op, ast.Not):
        v = _eval_guard(test.operand, val)
        return None if v is None else not v
    if isinstance(test, ast.Call) and call_attr(test) == "get" and test.args and const_str(test.args[0]) is not None:
        return bool(val.get(const_str(test.args[0]), False))
    if isinstance(test, ast.Subscript) and const_str(test.slice) is not None:
        return bool(val.get(const_str(test.slice), False))
    return None


def r1_strategies(idx, r):
    pack = idx.func(DB + ".packSpecialData")
    unpack = idx.func(DB + ".unpackSpecialData")
    # keys set on each return of pack
    fl = Flow(pack.node, lambda n: list(_attr_key_store(n)) if isinstance(n, ast.Assign) else []).run()
    init_keys = set()
    for n in walk_local(pack.node):  # attrs = {'specialFormatting': True}
        if isinstance(n, (ast.Assign, ast.AnnAssign)) and isinstance(n.value, ast.Dict):
            tg = n.targets[0] if isinstance(n, ast.Assign) else n.target
            if isinstance(tg, ast.Name) and tg.id == "attrs":
                init_keys |= {const_str(k) for k in n.value.keys if const_str(k)}
    exits = []
    for e in fl.exits:
        if e.kind != "return" or e.node.value is None:
            continue
        if not (isinstance(e.node.value, ast.Tuple) and len(e.node.value.elts) == 2 and isinstance(e.node.value.elts[1], ast.Name)
                and e.node.value.elts[1].id == "attrs"):
            continue
        must = {k for k, (lo, hi) in e.state.items() if lo >= 1} | init_keys
        may = {k for k, (lo, hi) in e.state.items() if hi >= 1} | init_keys
        exits.append((e, must, may))
    if len(exits) < 4:
        raise AnalysisError(f"packSpecialData: expected >=4 `return (data, attrs)` exits, found {len(exits)}")
    written = set().union(*[m for _, _, m in exits])
    hard, soft = _attr_reads(unpack.node)
    read = set(hard) | set(soft)
    hist = idx.func(DB + ".Database.getHistories")
    hh, hs = _attr_reads(hist.node, names=("attrs",))
    read_all = read | set(hh) | set(hs)
    for k in sorted(written):
        r.require(k in read_all, f"key-written-is-read:{k}", pack, msg=f"packSpecialData sets attrs['{k}'] but unpackSpecialData/getHistories never consult it")
    for k in sorted(read):
        r.require(k in written, f"key-read-is-written:{k}", unpack, node=hard.get(k) or soft.get(k),
                  msg=f"unpackSpecialData consults attrs['{k}'] which packSpecialData never sets")
    # unpack decision chain: list of (guard, body)
    chain = [n for n in unpack.node.body if isinstance(n, ast.If)]
    strat_of_branch = {}
    for n in chain:
        hb, _ = _attr_reads(ast.Module(body=n.body, type_ignores=[]))
        calls = {call_attr(c) for c in iter_calls(ast.Module(body=n.body, type_ignores=[]))}
        name = "dict" if "keys" in hb else ("jagged" if ("offsets" in hb or "fromH5" in calls) else ("nones" if "replaceNonsenseWithNones" in calls else
                ("plain" if any(isinstance(x, ast.Return) for x in n.body) and not hb else "?")))
        strat_of_branch[id(n)] = (name, set(hb))

    def unpack_branch(val):
        for n in chain:
            g = _eval_guard(n.test, val)
            if g is None:
                raise AnalysisError(f"unpackSpecialData guard `{norm(n.test)}` outside the fragment")
            if g:
                return strat_of_branch[id(n)]
        return ("raise", set())

    for e, must, may in exits:
        strat = "dict" if "dict" in must else ("jagged" if "jagged" in must else "plain")
        key = f"pack-exit:{strat}:{norm(e.node)}@{sorted(must)}"
        vals = []
        base = {k: True for k in must}
        if strat in ("dict", "jagged"):
            vals.append(dict(base))
            if strat == "jagged":
                vals.append({**base, "nones": True})
        else:
            vals.append({**base, "nones": True})
        okall = True
        for v in vals:
            name, needs = unpack_branch(v)
            want = "nones" if strat == "plain" else strat
            if name != want:
                r.violate(key, pack, f"data packed with attrs {sorted(k for k in v if v[k])} is decoded by the `{name}` branch of unpackSpecialData, not the `{want}` one", node=e.node)
                okall = False
                break
            miss = needs - must
            if miss:
                r.violate(key, pack, f"unpack's `{name}` branch reads attrs{sorted(miss)} which this pack path does not always set", node=e.node)
                okall = False
                break
        if okall:
            r.ok(key, pack, node=e.node)
    # JaggedArray attrs carry the object's own fields
    for n in walk_local(pack.node):
        for k in _attr_key_store(n):
            if k in ("offsets", "shapes", "noneLocations"):
                want = {"offsets": "offsets", "shapes": "shapes", "noneLocations": "nones"}[k]
                r.require(isinstance(n.value, ast.Attribute) and n.value.attr == want, f"jagged-attr:{k}", pack, node=n,
                          msg=f"attrs['{k}'] must carry JaggedArray.{want}")
    # fromH5 argument order == what unpack passes
    fromh5 = idx.method(JAG + ".JaggedArray", "fromH5")
    params = fromh5.params()[1:]
    for c in iter_calls(unpack.node):
        if call_attr(c) == "fromH5":
            env = single_assign_env(unpack.node)
            exp = {"offsets": "attrs['offsets']", "shapes": "attrs['shapes']", "nones": "attrs['noneLocations']"}
            for i, p in enumerate(params):
                a = get_arg(c, i, p)
                if p in exp and a is not None:
                    r.require(norm(propagate(a, env)) == exp[p], f"fromH5-arg:{p}", unpack, node=c, msg=f"fromH5 parameter `{p}` receives `{norm(propagate(a, env))}`, expected {exp[p]}")
    # fromH5 stores each parameter into the same-named field
    for s in iter_stores(fromh5.node):
        if s.kind == "assign" and s.chain and s.chain.startswith("obj.") and s.value is not None:
            want = {"flattenedArray": "data"}.get(s.attr, s.attr)
            src = {x.id for x in ast.walk(s.value) if isinstance(x, ast.Name)} & set(params)
            if src:
                r.require(src == {want}, f"fromH5-field:{s.attr}", fromh5, node=s.stmt, msg=f"JaggedArray.{s.attr} is rebuilt from `{sorted(src)}`, expected `{want}`")


# ------------------------------------------------------------------------------------------------
KIND = {"int": "signed", "float": "floating", "str": "str"}


def _kind(tname: str):
    t = tname.split(".")[-1]
    if t in KIND:
        return KIND[t]
    if t.startswith("uint"):
        return "unsigned"
    if t.startswith("int"):
        return "signed"
    if t.startswith("float"):
        return "floating"
    if t in ("str_",):
        return "str"
    return None


SUPER = {  # numpy abstract class -> kinds it covers
    "floating": {"floating"}, "integer": {"signed", "unsigned"}, "unsignedinteger": {"unsigned"}, "signedinteger": {"signed"},
    "str_": {"str"}, "number": {"signed", "unsigned", "floating"}, "inexact": {"floating"},
}


def _sentinel_norm(expr, var):
    """Canonical text of a sentinel expression with the type placeholder T."""
    class Sub(ast.NodeTransformer):
        def visit_Name(self, n):
            return ast.Name("T", ast.Load()) if n.id == var else n

        def visit_Attribute(self, n):
            if norm(n) == "data.dtype":
                return ast.Name("T", ast.Load())
            return self.generic_visit(n)
    e = Sub().visit(ast.parse(norm(expr), mode="eval").body)
    return norm(e)


def r2_sentinels(idx, r):
    m = idx.module(LAYOUT)
    table = {}  # type name -> (kind, canonical sentinel)
    stmts = m.const_all.get("NONE_MAP")
    if not stmts:
        raise AnchorMissing("layout.NONE_MAP")
    for st in stmts:
        val = st.value if isinstance(st, ast.Assign) else (st.value.args[0] if isinstance(st, ast.Expr) and st.value.args else None)
        if isinstance(val, ast.Dict):
            for k, v in zip(val.keys, val.values):
                table[norm(k)] = (_kind(norm(k)), "nan" if "nan" in norm(v) else (repr(v.value) if isinstance(v, ast.Constant) else norm(v)), st)
        elif isinstance(val, ast.DictComp):
            g = val.generators[0]
            var = g.target.id
            types = [norm(e) for e in g.iter.elts]
            sv = "nan" if "nan" in norm(val.value) else _sentinel_norm(val.value, var)
            for t in types:
                table[t] = (_kind(t), sv, st)
        else:
            raise AnalysisError("NONE_MAP construction outside the fragment")
    reader = idx.func(LAYOUT + ".replaceNonsenseWithNones")
    chain = []
    n = next((x for x in reader.node.body if isinstance(x, ast.If)), None)
    while n is not None:
        chain.append(n)
        n = n.orelse[0] if len(n.orelse) == 1 and isinstance(n.orelse[0], ast.If) else None
    branches = []
    for b in chain:
        t = b.test
        if not (isinstance(t, ast.Call) and dotted(t.func) == "np.issubdtype" and len(t.args) == 2):
            raise AnalysisError(f"reader dispatch test `{norm(t)}` outside the fragment")
        klass = norm(t.args[1]).split(".")[-1]
        if klass not in SUPER:
            raise AnalysisError(f"numpy class {klass} unknown to the sentinel rule")
        a = next((s for s in b.body if isinstance(s, ast.Assign)), None)
        if a is None:
            raise AnalysisError("reader branch without assignment")
        v = a.value
        if isinstance(v, ast.Call) and dotted(v.func) == "np.isnan":
            sv = "nan"
        elif isinstance(v, ast.Compare) and isinstance(v.ops[0], ast.Eq):
            c = v.comparators[0]
            sv = repr(c.value) if isinstance(c, ast.Constant) else _sentinel_norm(c, "\0")
        else:
            raise AnalysisError(f"reader sentinel test `{norm(v)}` outside the fragment")
        branches.append((klass, sv, b))
    if len(table) < 10:
        raise AnalysisError("NONE_MAP has fewer entries than confirmed")
    for t, (kind, sv, st) in sorted(table.items()):
        if kind is None:
            r.undecided(f"sentinel:{t}", (m.relpath, st.lineno), "type kind not classified")
            continue
        hit = next(((k, s, b) for k, s, b in branches if kind in SUPER[k]), None)
        if hit is None:
            r.violate(f"sentinel:{t}", (m.relpath, st.lineno), f"NONE_MAP encodes None for {t} but replaceNonsenseWithNones has no branch for {kind} data")
            continue
        r.require(hit[1] == sv, f"sentinel:{t}", reader, node=hit[2].test,
                  msg=f"None is written as `{sv}` for {t} ({kind}) but data of that kind is scanned for `{hit[1]}` (first matching branch: np.{hit[0]})")

    # writer side: the sentinel is looked up under the element's EXACT type (type(x)); a lookup through base classes
    # (bool -> int via the MRO) stores a value under another numeric kind instead of rejecting it
    writer = idx.func(LAYOUT + ".replaceNonesWithNonsense")
    if writer is None:
        raise AnchorMissing("layout.replaceNonesWithNonsense")
    lookups = [n for n in walk_local(writer.node) if isinstance(n, ast.Subscript) and isinstance(n.value, ast.Name) and n.value.id == "NONE_MAP" and isinstance(n.ctx, ast.Load)]
    if not lookups:
        raise AnchorMissing("replaceNonesWithNonsense: NONE_MAP[...] lookup")
    for li, lk in enumerate(lookups):
        if not isinstance(lk.slice, ast.Name):
            r.undecided(f"writer-lookup:{norm(lk)[:40]}", writer, "lookup key is not a local name", node=lk)
            continue
        defs = [st.value for st in walk_local(writer.node) if isinstance(st, ast.Assign) and any(isinstance(t, ast.Name) and t.id == lk.slice.id for t in st.targets)]
        exact = [d for d in defs if (isinstance(d, ast.Call) and dotted(d.func) == "type") or isinstance(d, ast.Constant) or (isinstance(d, ast.Name) and d.id in ("float", "int", "str"))]
        r.require(len(exact) == len(defs), f"writer-lookup:{norm(lk)[:40]}#{li}", writer, node=lk,
                  msg=f"`{lk.slice.id}` is not always the element's exact type (it is also bound to `{norm([d for d in defs if d not in exact][0])[:60]}`): values of a subclass "
                      "(bool under int) are then stored under the parent's kind and read back as another kind instead of being rejected" if len(exact) != len(defs) else "")


# ------------------------------------------------------------------------------------------------
def _if_chains(fnode):
    seen = set()
    for n in walk_local(fnode):
        if isinstance(n, ast.If) and id(n) not in seen:
            chain = [n]
            cur = n
            while len(cur.orelse) == 1 and isinstance(cur.orelse[0], ast.If):
                cur = cur.orelse[0]
                seen.add(id(cur))
                chain.append(cur)
            yield chain, cur.orelse


def _is_type_dispatch(t):
    s = norm(t)
    return any(k in s for k in ("isinstance(", "type(", ".__class__ is", "issubdtype(", " is None", "== LOC_", "startswith(LOC_"))


def r3_exhaustive(idx, r):
    targets = [
        (JAG + ".JaggedArray.__init__", "chain"),
        (LAYOUT + ".replaceNonsenseWithNones", "chain"),
        (LAYOUT + "._packLocationsV3", "chain"),
        (LAYOUT + "._unpackLocationsV2", "chain"),
        (DB + ".unpackSpecialData", "tail"),
        (DB + ".packSpecialData", "tail"),
    ]
    for fq, mode in targets:
        f = idx.func(fq)
        if mode == "tail":
            last = f.node.body[-1]
            r.require(isinstance(last, ast.Raise), f"{f.qualname}:tail", f, node=last, msg="the strategy cascade must end in `raise` (unrepresentable data is rejected, not passed through)")
            continue
        best = None
        for chain, tail in _if_chains(f.node):
            if len(chain) >= 3 and sum(_is_type_dispatch(c.test) for c in chain) >= 2:
                if best is None or len(chain) > len(best[0]):
                    best = (chain, tail)
        if best is None:
            raise AnalysisError(f"{fq}: type dispatch chain not found")
        chain, tail = best
        ok = bool(tail) and always_exits(tail) and any(isinstance(x, ast.Raise) for s in tail for x in ast.walk(s))
        r.require(ok, f"{f.qualname}:dispatch-else", f, node=chain[0].test,
                  msg=f"the {len(chain)}-arm type dispatch has no rejecting `else: raise`: an element of another type is silently skipped")


# ------------------------------------------------------------------------------------------------
def r4_flags(idx, r):
    flag = idx.cls("armi.utils.flags.Flag")
    tb, fb = flag.methods.get("to_bytes"), flag.methods.get("from_bytes")
    if tb is None or fb is None:
        raise AnchorMissing("Flag.to_bytes/from_bytes")

    def default_of(f, name):
        a = f.node.args
        names = [x.arg for x in a.args]
        if name in names:
            i = names.index(name) - (len(names) - len(a.defaults))
            return const_str(a.defaults[i]) if i >= 0 else None
        return None

    d1, d2 = default_of(tb, "byteorder"), default_of(fb, "byteorder")
    r.require(d1 is not None and d1 == d2, "byteorder:defaults", tb, msg=f"to_bytes default byteorder {d1!r} != from_bytes default {d2!r}")
    ser = idx.cls("armi.reactor.composites.FlagSerializer")
    up, pk = ser.methods.get("_unpackImpl"), ser.methods.get("_packImpl")
    if up is None or pk is None:
        raise AnchorMissing("FlagSerializer._packImpl/_unpackImpl")
    for f in (up, pk):
        for c in iter_calls(f.node):
            for k in c.keywords:
                if k.arg == "byteorder":
                    r.require(const_str(k.value) == d1, f"byteorder:{f.name}:{call_attr(c)}", f, node=c, msg=f"byte order {norm(k.value)} differs from the writer's {d1!r}")
            if call_attr(c) in ("to_bytes", "from_bytes") and isinstance(c.func, ast.Attribute) and not isinstance(c.func.value, ast.Name) or (
                    call_attr(c) in ("to_bytes",) and dotted(c.func) not in ("int.to_bytes",)):
                if call_attr(c) == "to_bytes":
                    bo = get_arg(c, 0, "byteorder")
                    r.require(bo is None or const_str(bo) == d1, f"byteorder:{f.name}:to_bytes-arg", f, node=c, msg="pack uses a non-default byte order")
    # pack stores sortedFields under flag_order; unpack reads the same key and compares with sortedFields
    ret = [n for n in walk_local(pk.node) if isinstance(n, ast.Return)]
    okp = False
    for n in ret:
        for d in ast.walk(n):
            if isinstance(d, ast.Dict):
                for k, v in zip(d.keys, d.values):
                    if const_str(k) == "flag_order":
                        okp = isinstance(v, ast.Call) and call_attr(v) == "sortedFields"
    r.require(okp, "flag_order:written", pk, msg="pack must store flagCls.sortedFields() under 'flag_order' (bit position order)")
    env = single_assign_env(up.node)
    passed = [s for s in iter_stores(up.node) if isinstance(s.node, ast.Name) and s.value is not None and norm(s.value) == "attrs['flag_order']"]
    r.require(bool(passed), "flag_order:read", up, msg="unpack must read attrs['flag_order']")
    pname = passed[0].attr if passed else "flagOrderPassed"
    now_assigns = [s for s in iter_stores(up.node) if isinstance(s.node, ast.Name) and isinstance(s.value, ast.Call) and call_attr(s.value) == "sortedFields"]
    r.require(bool(now_assigns), "flag_order:now-is-sorted", up, msg="current order must come from sortedFields() (by bit value), not fields()")
    nname = now_assigns[0].attr if now_assigns else "flagOrderNow"
    # extend precedes the last recomputation of the current order, which is unconditional
    ext = [c for c in iter_calls(up.node) if call_attr(c) == "extend"]
    if ext and now_assigns:
        last = now_assigns[-1].stmt
        r.require(last in up.node.body and last.lineno > max(c.lineno for c in ext), "extend-before-resort", up, node=last,
                  msg="the current flag order must be recomputed (unconditionally) after unknown flags were added")
    # fast path guard is order-sensitive
    fast = None
    for n in walk_local(up.node):
        if isinstance(n, ast.If) and any(call_attr(c) == "from_bytes" for s in n.body for c in iter_calls(ast.Module(body=[s], type_ignores=[]))):
            fast = n
    if fast is None:
        raise AnalysisError("_unpackImpl: verbatim (from_bytes) fast path not found")
    t = propagate(fast.test, {k: v for k, v in env.items() if k not in (pname, nname)})
    txt = norm(t)
    ordered = pname in txt and nname in txt and "set(" not in txt and ("zip(" in txt or "==" in txt) and "sorted(" not in txt
    r.require(ordered, "fast-path-guard", up, node=fast.test,
              msg=f"bits are read verbatim under `{txt}`; that is only sound when stored and current flag ORDER agree element by element")
    # remap dictionary: old position -> position of the same name now
    okmap = False
    for n in walk_local(up.node):
        if isinstance(n, ast.DictComp) and len(n.generators) == 1:
            g = n.generators[0]
            if isinstance(g.iter, ast.Call) and call_attr(g.iter) == "enumerate" and g.iter.args and norm(g.iter.args[0]) == pname \
                    and isinstance(g.target, ast.Tuple) and len(g.target.elts) == 2:
                ivar, nvar = norm(g.target.elts[0]), norm(g.target.elts[1])
                okmap = norm(n.key) == ivar and norm(n.value) == f"{nname}.index({nvar})"
                r.require(okmap, "remap-dict", up, node=n, msg=f"bit map must be {{old index: {nname}.index(old name)}}, found `{norm(n)}`")
    if not okmap and not any(i.key == "remap-dict" for i in r.instances):
        r.violate("remap-dict", up, "old-position -> new-position map not found")
    rb = ser.methods.get("_remapBits")
    if rb is not None:
        txt = norm(rb.node)
        r.require("1 << mapping[bit]" in txt and "1 << bit & inp" in txt.replace("(", "").replace(")", ""), "remapBits", rb,
                  msg="_remapBits must set bit mapping[b] for every set bit b of the input")


# ------------------------------------------------------------------------------------------------
def r5_serializer(idx, r):
    wp = idx.method(DB + ".Database", "_writeParams")
    rp = idx.method(DB + ".Database", "_readParams")
    m = idx.module(DB)
    nameC, verC = "_SERIALIZER_NAME", "_SERIALIZER_VERSION"
    for cst in (nameC, verC):
        if cst not in m.consts:
            raise AnchorMissing(f"database.{cst}")
    r.require(idx.fold(m, m.consts[nameC]) != idx.fold(m, m.consts[verC]), "attr-keys-distinct", (m.relpath, m.consts[nameC].lineno), msg="serializer name and version share one attrs key")
    # every block that calls serializer.pack also records name and version
    for c in iter_calls(wp.node):
        if call_attr(c) == "pack" and "serializer" in norm(c.func):
            par = m.parents()
            blk = c
            while not isinstance(par[blk], (ast.If, ast.For, ast.FunctionDef)):
                blk = par[blk]
            holder = par[blk]
            body = holder.body if blk in holder.body else holder.orelse
            keys = {norm(t.slice) for s in body if isinstance(s, ast.Assign) for t in s.targets if isinstance(t, ast.Subscript) and norm(t.value) == "attrs"}
            r.require({nameC, verC} <= keys, "write:name+version", wp, node=c, msg=f"serializer.pack result stored without recording {sorted({nameC, verC} - keys)}")
            vals = {norm(t.slice): norm(s.value) for s in body if isinstance(s, ast.Assign) for t in s.targets if isinstance(t, ast.Subscript) and norm(t.value) == "attrs"}
            r.require(vals.get(verC, "").endswith("serializer.version") and vals.get(nameC, "").endswith("serializer.__name__"), "write:values", wp, node=c,
                      msg=f"recorded values {vals}")
    # unpack dominated by the two checks
    def ev(n):
        if isinstance(n, ast.Assert):
            t = norm(n.test)
            out = []
            if "==" in t and nameC in t and "__name__" in t:
                out.append("name-checked")
            if verC in t:
                out.append("ver-present")
            return out
        return []
    fl = Flow(rp.node, ev).run()
    for c in iter_calls(rp.node):
        if call_attr(c) == "unpack" and "serializer" in norm(c.func):
            st = fl.state_before(c) or {}
            r.require(st.get("name-checked", (0, 0))[0] >= 1, "read:name-checked", rp, node=c, msg="serializer.unpack is reached without checking the stored serializer name")
            ver = get_arg(c, 1, "version")
            r.require(ver is not None and verC in norm(ver), "read:version-passed", rp, node=c, msg="the stored serializer version must be handed to unpack")
    # special formatting + linked dims consulted on read; every key written is read
    hard, soft = _attr_reads(rp.node)
    r.require("specialFormatting" in soft or "specialFormatting" in hard, "read:specialFormatting", rp, msg="_readParams does not consult attrs['specialFormatting']")
    r.require("linkedDims" in soft or "linkedDims" in hard, "read:linkedDims", rp, msg="_readParams does not consult attrs['linkedDims']")
    wkeys = {k for n in walk_local(wp.node) for k in _attr_key_store(n)}
    r.require("linkedDims" in wkeys, "write:linkedDims", wp, msg="_writeParams no longer records linkedDims")
    # subclasses of Serializer define the protocol
    base = idx.cls("armi.reactor.parameters.parameterDefinitions.Serializer")
    for c in idx.subclasses(base):
        ok = {"pack", "unpack"} <= set(c.methods) and "version" in c.attrs
        r.require(ok, f"serializer-class:{c.name}", (c.module.relpath, c.node.lineno, c.name), msg="a Serializer must define pack, unpack and a version")
    # unpack entry delegates to the impl with the real Flags class on both sides
    fs = idx.cls("armi.reactor.composites.FlagSerializer")
    for a, b in (("pack", "_packImpl"), ("unpack", "_unpackImpl")):
        f = fs.methods.get(a)
        okc = f is not None and any(call_attr(c) == b and norm(c.args[-1]) == "Flags" for c in iter_calls(f.node))
        r.require(okc, f"flagserializer:{a}", f or fs.methods.get(b), msg=f"{a} must delegate to {b}(…, Flags)")


def r6_jagged_offsets(idx, r):
    """In JaggedArray.__init__ every entry advances `offset` by exactly the number of values it
    appends to the flat buffer (so the next entry's offset points at its own data)."""
    f = idx.method(JAG + ".JaggedArray", "__init__")

    def count_of(call):
        a = call.args[0]
        if call_attr(call) == "append":
            return "1"
        if isinstance(a, ast.Call) and call_attr(a) == "flatten" and isinstance(a.func, ast.Attribute) and not a.args:
            return f"{norm(a.func.value)}.size"
        if isinstance(a, ast.Name):
            return f"len({a.id})"
        return None

    def blocks(node):
        for n in ast.walk(node):
            for fld in ("body", "orelse", "finalbody"):
                b = getattr(n, fld, None)
                if isinstance(b, list) and b and isinstance(b[0], ast.stmt):
                    yield b
            if isinstance(n, ast.ExceptHandler):
                yield n.body

    n = 0
    for b in blocks(f.node):
        incs = [st for st in b if isinstance(st, ast.AugAssign) and norm(st.target) == "offset" and isinstance(st.op, ast.Add)]
        adds = [st.value for st in b if isinstance(st, ast.Expr) and isinstance(st.value, ast.Call) and call_attr(st.value) in ("extend", "append")
                and norm(st.value.func.value) == "flattenedArray"]
        if not incs and not adds:
            continue
        n += 1
        key = f"offset-step:{norm(adds[0]) if adds else norm(incs[0])}"
        if len(incs) != 1 or len(adds) != 1:
            r.violate(key, f, f"a block adds values to the flat buffer {len(adds)} time(s) but advances offset {len(incs)} time(s)", node=(incs or adds)[0])
            continue
        want = count_of(adds[0])
        if want is None:
            r.undecided(key, f, "size of the appended data not expressible", node=adds[0])
            continue
        r.require(norm(incs[0].value) == want, key, f, node=incs[0],
                  msg=f"offset advances by `{norm(incs[0].value)}` but `{norm(adds[0])}` adds `{want}` values: later entries read from the wrong place")
    # each entry that records an offset also records a shape (parallel lists)
    def ev(nd):
        if isinstance(nd, ast.Call) and call_attr(nd) == "append" and isinstance(nd.func, ast.Attribute):
            return [norm(nd.func.value)]
        return []
    loop = next((x for x in f.node.body if isinstance(x, ast.For)), None)
    if loop is None:
        raise AnalysisError("JaggedArray.__init__ loop not found")
    fl = Flow(f.node, ev, body=loop.body, handler_from_entry=True).run()
    for e in fl.exits:
        if e.kind == "raise":
            continue
        o, sh, no = (e.state.get(k, (0, 0)) for k in ("offsets", "shapes", "nones"))
        good = o == sh and o[1] <= 1 and (o == (1, 1)) != (no == (1, 1)) if (o[0] == o[1] and no[0] == no[1]) else False
        # joined states: require offsets/shapes counts to be equal as intervals and offsets+nones == 1 on every path
    # per-arm check (path-insensitive join would blur the arms): analyse each arm of the dispatch separately
    arms = []
    cur = next((x for x in loop.body if isinstance(x, ast.If)), None)
    while cur is not None:
        arms.append(cur.body)
        cur = cur.orelse[0] if len(cur.orelse) == 1 and isinstance(cur.orelse[0], ast.If) else None

    def leaf_paths(body):
        """split on nested ifs so that each path is analysed alone"""
        for i, st in enumerate(body):
            if isinstance(st, ast.If):
                for sub in (st.body, st.orelse):
                    yield from leaf_paths(body[:i] + sub + body[i + 1:])
                return
        yield body

    for ai, arm in enumerate(arms):
        for path in leaf_paths(arm):
            fl = Flow(f.node, ev, body=path, handler_from_entry=True).run()
            for e in fl.exits:
                if e.kind == "raise":
                    continue
                o, sh, no = (e.state.get(k, (0, 0)) for k in ("offsets", "shapes", "nones"))
                good = o == sh and o[0] == o[1] and no[0] == no[1] and o[0] + no[0] == 1
                r.require(good, f"entry-bookkeeping:arm{ai}:{norm(path[0])[:40]}", f, node=path[0],
                          msg=f"one input entry must record exactly one of (offset+shape) or (none): offsets{o} shapes{sh} nones{no}")


def r7_coercion(idx, r):
    """A value-changing cast on the write path (`x.astype(T)` with T computed from the data, not a
    string-encoding literal) must be followed, on every path to a normal exit, by a test that
    compares the cast array with its source and raises (np.array_equal / ==) - otherwise values
    that T cannot hold are stored as something else. String encodings (`astype("S")`) fail loudly
    by themselves and are exempt."""
    targets = [(LAYOUT, "replaceNonesWithNonsense"), (DB, "packSpecialData"), (DB, "Database._writeParams"), (JAG, "JaggedArray.__init__")]
    for mod, q in targets:
        f = idx.func(f"{mod}.{q}")
        if f is None:
            raise AnchorMissing(f"{mod}.{q}")
        casts = []
        for c in iter_calls(f.node):
            if call_attr(c) == "astype" and c.args:
                casts.append(c)
        if not casts:
            r.ok(f"{q}:no-cast", f, msg="no astype on this write path")
            continue
        for c in casts:
            t = c.args[0]
            if const_str(t) is not None and const_str(t).upper().startswith(("S", "U")):
                r.ok(f"{q}:string-encoding:{norm(c)[:50]}", f, node=c)
                continue
            # find the statement `dst = src.astype(T)`
            stmt = next((s for s in walk_local(f.node) if isinstance(s, ast.Assign) and s.value is c), None)
            src = c.func.value
            if stmt is None or len(stmt.targets) != 1 or not isinstance(stmt.targets[0], ast.Name) or not isinstance(src, ast.Name):
                r.undecided(f"{q}:cast-shape:{norm(c)[:50]}", f, "cast is not of the form `dst = src.astype(T)`", node=c)
                continue
            dst = stmt.targets[0].id
            same_name = dst == src.id

            def is_check(n, dst=dst, srcn=src.id):
                if not isinstance(n, ast.If):
                    return False
                names = set()
                for sub in ast.walk(n.test):
                    if isinstance(sub, ast.Call) and dotted(sub.func) in ("np.array_equal", "numpy.array_equal", "np.allclose", "np.array_equiv") and len(sub.args) >= 2:
                        names |= {dotted(a) for a in sub.args[:2]}
                    if isinstance(sub, ast.Compare) and len(sub.ops) == 1 and isinstance(sub.ops[0], (ast.Eq, ast.NotEq)):
                        names |= {dotted(sub.left), dotted(sub.comparators[0])}
                return dst in names and srcn in names and dst != srcn and always_exits(n.body)

            def ev(n, stmt=stmt):
                if n is stmt:
                    return ["cast"]
                if is_check(n):
                    return ["check"]
                return []

            fl = Flow(f.node, ev).run()
            bad = None
            if same_name:
                bad = "the cast overwrites its source, so the result can no longer be compared with the values it came from"
            else:
                for e in fl.normal_exits():
                    if e.state.get("cast", (0, 0))[1] >= 1 and e.state.get("check", (0, 0))[0] < 1:
                        bad = f"a path reaches the exit at line {e.line} with the cast result unchecked against its source"
                        break
            r.require(bad is None, f"{q}:cast-checked:{norm(t)[:30]}", f, node=c,
                      msg=(bad or "") + f": `{norm(stmt)[:80]}` converts to a type chosen from part of the data")


def r8_schema_from_all(idx, r):
    """The column list of a dict-valued parameter is stored once (attrs['keys']) and every object's dict is laid out
    against it: it must be computed from EVERY object's dict. A definition that looks at one representative element
    (`data[0]`) silently drops the entries of objects whose keys differ."""
    f = idx.func(f"{DB}.packSpecialData")
    if f is None:
        raise AnchorMissing("packSpecialData")
    # the collection is the first parameter or a local copy/alias of it (`data = arrayData` ...)
    data_names = {f.params()[0]}
    for st in walk_local(f.node):
        if isinstance(st, ast.Assign) and len(st.targets) == 1 and isinstance(st.targets[0], ast.Name) and any(isinstance(n, ast.Name) and n.id in data_names for n in ast.walk(st.value)):
            if isinstance(st.value, ast.Name) or (isinstance(st.value, ast.Call) and len(st.value.args) >= 1 and isinstance(st.value.args[0], ast.Name) and st.value.args[0].id in data_names):
                data_names.add(st.targets[0].id)
    stored = [st for st in iter_stores(f.node) if st.kind == "subscript" and norm(st.node.value if hasattr(st.node, "value") else st.node).startswith("attrs") and "keys" in norm(st.stmt.targets[0])]
    if not stored:
        raise AnchorMissing("packSpecialData: attrs['keys'] store")
    names = {n.id for st in stored for n in ast.walk(st.value) if isinstance(n, ast.Name)} - {"np", "numpy"}
    defs = [st for st in walk_local(f.node) if isinstance(st, ast.Assign) and len(st.targets) == 1 and isinstance(st.targets[0], ast.Name) and st.targets[0].id in names]
    if not defs:
        raise AnalysisError("packSpecialData: no definition of the key list found")
    for d in defs:
        over_all = any(isinstance(g, ast.comprehension) and isinstance(g.iter, ast.Name) and g.iter.id in data_names for g in ast.walk(d.value))
        one = [n for n in ast.walk(d.value) if isinstance(n, ast.Subscript) and isinstance(n.value, ast.Name) and n.value.id in data_names and isinstance(n.slice, (ast.Constant, ast.UnaryOp))]
        r.require(over_all and not one, f"keys:{norm(d)[:60]}", f, node=d,
                  msg=f"`{norm(d)[:70]}` takes the key list from {'one element (' + norm(one[0]) + ')' if one else 'something other than all elements'}: "
                      "entries under keys that this element lacks are dropped on write and read back missing")


def r9_shape_entries(idx, r):
    """Every entry of JaggedArray.shapes is read back as a shape (a tuple, iterated by unpack): each append must record
    a tuple - `array.shape`, `(n,)` - never a bare integer (`shapes.append(len(x),)` appends an int: the trailing comma
    belongs to the call, not to a tuple), or the data is accepted on write and fails on read."""
    f = idx.method(JAG + ".JaggedArray", "__init__")
    if f is None:
        raise AnchorMissing("JaggedArray.__init__")
    apps = [c for c in iter_calls(f.node) if call_attr(c) == "append" and dotted(c.func.value) == "shapes"]
    if len(apps) < 2:
        raise AnalysisError(f"JaggedArray.__init__: {len(apps)} shapes.append sites found")
    for i, c in enumerate(apps):
        a = c.args[0] if c.args else None
        is_tuple = isinstance(a, ast.Tuple) or (isinstance(a, ast.Attribute) and a.attr == "shape") or (isinstance(a, ast.Call) and dotted(a.func) == "tuple")
        is_int = isinstance(a, ast.Call) and dotted(a.func) == "len" or (isinstance(a, ast.Constant) and isinstance(a.value, int))
        if is_tuple:
            r.ok(f"shapes.append#{i}:{norm(a)[:30]}", f, node=c)
        elif is_int:
            r.violate(f"shapes.append#{i}:{norm(a)[:30]}", f, f"`{norm(c)}` records the integer `{norm(a)}` where the other entries record shape tuples: such data is written without complaint and "
                      "unpack() fails on it at read time ('int' object is not iterable)", node=c)
        else:
            r.undecided(f"shapes.append#{i}:{norm(a)[:30] if a is not None else ''}", f, "kind of the recorded shape not recognised", node=c)


def r10_bit_loop_and_decode_siblings(idx, r):
    """(a) Flag sets are arbitrary-width bit fields (armi alone defines more than 64 flags): the loop that remaps the bits of a
    stored value must run until the value is exhausted, never up to a fixed number of bits.
    (b) Strings are stored as bytes. Database has sibling readers of parameter datasets (_readParams, getHistories,
    getHistoriesByLocation ...): every one of them that pulls a dataset and hands values on must turn bytes back into
    str, like its siblings do."""
    fs = idx.cls("armi.reactor.composites.FlagSerializer")
    rb = fs.methods.get("_remapBits") if fs is not None else None
    if rb is None:
        raise AnchorMissing("FlagSerializer._remapBits")
    loops = [n for n in walk_local(rb.node) if isinstance(n, (ast.For, ast.While))]
    if not loops:
        raise AnalysisError("_remapBits: bit loop not found")
    for lp in loops:
        fixed = isinstance(lp, ast.For) and isinstance(lp.iter, ast.Call) and dotted(lp.iter.func) == "range" and all(isinstance(a, ast.Constant) for a in lp.iter.args)
        r.require(not fixed, "remapBits:unbounded-bit-loop", rb, node=lp,
                  msg=f"`{norm(lp.iter) if isinstance(lp, ast.For) else ''}` examines a fixed number of bits: flags at higher bit positions (DEPLETABLE is bit 64, plugin flags come after) "
                      "are silently dropped whenever the order map has to be applied")
    db = idx.cls(DB + ".Database")
    readers = []
    for name, f in db.methods.items():
        pulls = [n for n in walk_local(f.node) if isinstance(n, ast.Assign) and isinstance(n.value, ast.Subscript) and isinstance(n.value.value, ast.Name) and n.value.value.id.lower().startswith("dataset")]
        if pulls:
            readers.append((f, pulls))
    if len(readers) < 3:
        raise AnalysisError(f"only {len(readers)} Database methods that read parameter datasets found")
    for f, pulls in readers:
        dec = any(isinstance(c, ast.Call) and dotted(c.func) in ("np.char.decode", "numpy.char.decode") for c in ast.walk(f.node))
        r.require(dec, f"{f.name}:decodes-bytes", f, node=pulls[0],
                  msg=f"{f.name} reads parameter datasets but, unlike its sibling readers, never decodes bytes to str: string parameters (xsType, envGroup) come back as b'A'")
    # (c) the same for a parameter's own Serializer (flags are stored as packed bytes plus an order map): a reader that hands stored
    # values on must run pDef.serializer.unpack, directly or through a helper of the class that does
    def unpacks(fn, depth=0):
        for c in ast.walk(fn.node):
            if isinstance(c, ast.Call) and call_attr(c) == "unpack" and "serializer" in norm(c.func):
                return True
            if isinstance(c, ast.Call) and isinstance(c.func, ast.Attribute) and norm(c.func.value) in ("self", "Database") and depth < 2:
                g = db.methods.get(c.func.attr)
                if g is not None and g is not fn and unpacks(g, depth + 1):
                    return True
        return False
    for f, pulls in readers:
        r.require(unpacks(f), f"{f.name}:applies-the-parameter-serializer", f, node=pulls[0],
                  msg=f"{f.name} reads parameter datasets but, unlike Database._readParams, never runs the parameter's Serializer: a flags history comes back as the stored byte rows "
                      "(and a reordered flag definition is not applied), while the current step taken from memory is a Flags object")


def r11_flag_collision_guard(idx, r):
    """Two flags with the same bit value are indistinguishable in every stored flag set. The guard in Flag._registerField
    must therefore test the new VALUE against the values already taken. A membership test of the value against the
    name -> value mapping looks at its KEYS (names) and can never fire."""
    fl = idx.cls("armi.utils.flags.Flag")
    f = fl.methods.get("_registerField") if fl is not None else None
    if f is None:
        raise AnchorMissing("Flag._registerField")
    st = [s_ for s_ in iter_stores(f.node) if s_.kind == "subscript" and isinstance(s_.node, ast.Subscript)]
    maps = {norm(s_.node.value): (norm(s_.node.slice), norm(s_.value)) for s_ in st if s_.value is not None}
    if not maps:
        raise AnchorMissing("_registerField: store into the name -> value mapping")
    tests = [n for n in ast.walk(f.node) if isinstance(n, ast.Compare) and len(n.ops) == 1 and isinstance(n.ops[0], (ast.In, ast.NotIn))]
    guards_value = False
    for t in tests:
        cont = norm(t.comparators[0])
        x = norm(t.left)
        if cont in maps:
            key, val = maps[cont]
            r.require(x != val or x == key, f"guard:{norm(t)[:50]}:tests-keys-with-a-key", f, node=t,
                      msg=f"`{norm(t)}` looks `{x}` (the flag's VALUE) up among the keys of `{cont}`, which are flag NAMES: the test can never be true, so a second flag "
                          "with an already taken bit value is accepted and the two flags are one and the same in every stored flag set")
        elif any(val == x for key, val in maps.values()):
            guards_value = True
    r.require(guards_value, "guard:value-collision-tested", f, msg="registering a field must test its value against the values already taken")


POSITION_TABLES = {"nones", "offsets", "shapes", "shapeIndices", "indexInData"}


def r12_position_tables(idx, r):
    """JaggedArray's side tables hold POSITIONS (of the unset entries, of the offsets ...).  Position 0 is as good as any other, so such a
    table is never evaluated for truth or asked `.any()` / `.all()`: `[0].any()` is False and the unset entry of the first object is lost.
    The number of unpacked entries counts every unset position."""
    m = idx.modules.get(JAG)
    if m is None:
        raise AnchorMissing(JAG)
    n = 0
    for f in m.all_funcs():
        env = single_assign_env(f.node)
        for c in iter_calls(f.node):
            if call_attr(c) in ("any", "all") and isinstance(c.func, ast.Attribute) and not c.args:
                base = propagate(c.func.value, env)
                hit = [x.attr for x in ast.walk(base) if isinstance(x, ast.Attribute) and x.attr in POSITION_TABLES] + [x.id for x in ast.walk(base) if isinstance(x, ast.Name) and x.id in POSITION_TABLES]
                cmpd = any(isinstance(x, ast.Compare) for x in ast.walk(base))
                if hit and not cmpd:
                    n += 1
                    r.violate(f"{f.qualname}:{hit[0]}:{call_attr(c)}", f, f"`{norm(c)}` asks a table of positions for truth: a table holding only position 0 answers False, so an unset/empty entry "
                              "of the first object is dropped and every later value moves up one slot", node=c)
        r.ok(f"{f.qualname}:scanned", f)
    u = idx.method(JAG + ".JaggedArray", "unpack")
    tot = [s_ for s_ in iter_stores(u.node) if s_.attr == "numElements" and s_.value is not None]
    loop = next((x for x in walk_local(u.node) if isinstance(x, ast.For) and "numElements" in norm(x.iter)), None)
    if len(tot) != 1 or loop is None:
        raise AnchorMissing("JaggedArray.unpack: numElements and the loop over it")
    v = propagate(tot[0].value, single_assign_env(u.node))
    lens = [x for x in ast.walk(v) if isinstance(x, ast.Call) and dotted(x.func) == "len" and len(x.args) == 1]
    r.require(isinstance(v, ast.BinOp) and isinstance(v.op, ast.Add) and len(lens) == 2 and any("self.nones" in norm(x.args[0]) for x in lens) and not any(isinstance(x, (ast.IfExp, ast.BoolOp)) for x in ast.walk(v)),
              "unpack:count-includes-every-unset-position", u, node=tot[0].stmt,
              msg=f"the number of unpacked entries is `{norm(v)[:90]}`; it must be the number of stored arrays plus the number of unset positions, unconditionally")
    tests = [x for x in walk_local(loop) if isinstance(x, ast.If)]
    t0 = propagate(tests[0].test, single_assign_env(u.node)) if tests else None
    okt = isinstance(t0, ast.Compare) and len(t0.ops) == 1 and isinstance(t0.ops[0], ast.In) and norm(t0.left) == norm(loop.target) and "self.nones" in norm(t0.comparators[0]) \
        and not any(isinstance(x, (ast.IfExp, ast.BoolOp)) for x in ast.walk(t0.comparators[0]))
    r.require(okt, "unpack:unset-test-on-the-stored-table", u, node=tests[0] if tests else loop,
              msg="whether entry i is unset is decided by membership in the stored table of unset positions")


def r13_history_layout(idx, r):
    from .c06 import r10_history_siblings
    r10_history_siblings(idx, r)


def r14_auto_value_checked_before_use(idx, r):
    """Flag._resolveAutos hands out the next free bit: the skip over values already taken must come BEFORE the current candidate is used in
    each iteration - checked afterwards, an auto flag lands on a bit that an explicitly numbered flag registered since the last resolution."""
    f = idx.method("armi.utils.flags.Flag", "_resolveAutos")
    loop = next((x for x in walk_local(f.node) if isinstance(x, ast.For)), None)
    if loop is None:
        raise AnchorMissing("Flag._resolveAutos: loop over the fields")
    skip = [i for i, st_ in enumerate(loop.body) if isinstance(st_, ast.While) and isinstance(st_.test, ast.Compare) and isinstance(st_.test.ops[0], ast.In) and "_autoAt" in norm(st_.test.left) and "_valuesTaken" in norm(st_.test)]
    use = [i for i, st_ in enumerate(loop.body) if not isinstance(st_, ast.While) and any(isinstance(x, ast.Attribute) and x.attr == "_autoAt" and isinstance(x.ctx, ast.Load) for x in ast.walk(st_))
           and not (isinstance(st_, ast.AugAssign) and "_autoAt" in norm(st_.target))]
    if not skip or not use:
        raise AnchorMissing("_resolveAutos: skip loop over taken values and use of the candidate")
    r.require(min(skip) < min(use), "auto-flag:taken-values-skipped-before-the-candidate-is-used", f, node=loop.body[min(use)],
              msg="the candidate bit is handed out before the values already taken are skipped: an automatically numbered flag can receive the bit of an explicitly numbered one, and the two "
                  "flags are indistinguishable in every stored flag set")


def r15_fillers_orders_and_strict_text(idx, r):
    """(a) dict-valued parameters are stored as one column per key, NaN where an object lacks the key; on reading exactly the NaN entries
    are dropped - the filter is evaluated for an ordinary value, +inf, -inf and NaN.  (b) Flag.sortedFields IS the bit order the flag
    serializer writes and remaps by: it sorts the name -> value table by value (registration order differs as soon as one flag has an
    explicit value).  (c) text is stored as bytes by a STRICT conversion: an error handler that substitutes characters stores another string
    than the one written instead of refusing it."""
    from ..minieval import MiniEval
    f = idx.func(DB + ".unpackSpecialData")
    comp = [x for x in ast.walk(f.node) if isinstance(x, ast.DictComp) and x.generators and x.generators[0].ifs and "zip(keys" in norm(x.generators[0].iter)]
    if len(comp) != 1:
        raise AnchorMissing("unpackSpecialData: {key: value for key, value in zip(keys, d) if <filter>}")
    g = comp[0].generators[0]
    val = norm(g.target.elts[1])
    inf = float("inf")

    def hook(call, args):
        d = dotted(call.func) or ""
        if args is not None and len(args) == 1 and isinstance(args[0], float):
            if d in ("np.isnan", "numpy.isnan", "math.isnan"):
                return args[0] != args[0]
            if d in ("np.isfinite", "numpy.isfinite", "math.isfinite"):
                return args[0] == args[0] and args[0] not in (inf, -inf)
            if d in ("np.isinf", "numpy.isinf", "math.isinf"):
                return args[0] in (inf, -inf)
        return None
    got = []
    for v in (1.5, inf, -inf, float("nan")):
        ev = MiniEval(call_hook=hook)
        got.append(all(ev._truth(ev._ev(c, {val: v})) for c in g.ifs))
    r.require(got == [True, True, True, False], "dict-columns:only-the-NaN-filler-is-dropped", f, node=comp[0],
              msg=f"entries kept for (1.5, +inf, -inf, NaN): {got}; only the NaN filler of a missing key may be dropped - an infinite value the user stored must come back")
    sf = idx.method("armi.utils.flags.Flag", "sortedFields")
    ret = next((x for x in walk_local(sf.node) if isinstance(x, ast.Return) and x.value is not None), None)
    srt = [c for c in ast.walk(ret.value) if isinstance(c, ast.Call) and dotted(c.func) == "sorted"] if ret is not None else []
    okk = bool(srt) and any(k.arg == "key" and ("[1]" in norm(k.value) or "_nameToValue" in norm(k.value) or "itemgetter(1)" in norm(k.value)) for c in srt for k in c.keywords)
    r.require(okk, "sortedFields:sorted-by-value", sf, node=ret,
              msg=f"`{norm(ret.value)[:70] if ret is not None else ''}` is not the name table sorted by value: the serializer writes this list as 'index = bit position', so with one explicitly numbered flag "
                  "declared before lower ones the stored order map is wrong and flag sets change meaning on reading")
    w = idx.method(DB + ".Database", "_writeParams")
    lossy = [c for c in iter_calls(w.node) if any(isinstance(a, ast.Constant) and a.value in ("replace", "ignore", "xmlcharrefreplace", "backslashreplace", "namereplace", "surrogateescape") for a in list(c.args) + [k.value for k in c.keywords])]
    r.require(not lossy, "_writeParams:strict-text-encoding", w, node=lossy[0] if lossy else None,
              msg=f"`{norm(lossy[0])[:70] if lossy else ''}` substitutes characters it cannot encode: the string read back differs from the one written, where the property demands a refusal at write time")


def r16_order_and_registration(idx, r):
    """(a) everything the database flattens is restored with C-order shapes: a flatten/ravel/reshape in armi/bookkeeping/db that names another
    order (F, A, K) emits the values of a transposed array in memory order, and they come back permuted.  (b) Layout._createLayout writes one
    row per object in pre-order and `indexInData` is the object's position in its class list: the object joins that list BEFORE its
    descendants are laid out, and the index stored is its own position (len - 1 after the append, len before it).  (c) Flag._registerField
    marks the value it registers as taken on every path - the next auto() must not hand it out again."""
    n = 0
    for m in idx.modules.values():
        if not m.name.startswith("armi.bookkeeping.db") or ".tests" in m.name:
            continue
        for f in m.all_funcs():
            for c in iter_calls(f.node):
                if call_attr(c) in ("ravel", "flatten", "reshape", "asarray", "array", "ascontiguousarray", "asfortranarray"):
                    n += 1
                    o = get_arg(c, None, "order")
                    okc = (o is None or (isinstance(o, ast.Constant) and o.value == "C")) and call_attr(c) != "asfortranarray"
                    r.require(okc, f"{f.qualname}:{call_attr(c)}:logical-order", f, node=c,
                              msg=f"`{norm(c)[:70]}` does not flatten/shape in C (logical) order: the reader rebuilds the value with C-order shapes, so a transposed or Fortran-ordered array reads back permuted")
    if n < 5:
        raise AnchorMissing("flatten/ravel/reshape calls in armi/bookkeeping/db")
    f = idx.method("armi.bookkeeping.db.layout.Layout", "_createLayout")
    comp = f.params()[1]

    def ev(nd):
        if isinstance(nd, ast.Call):
            t = norm(nd.func)
            if t.endswith(".append") and nd.args and norm(nd.args[0]) == comp and "indexInData" not in t and "_spatialLocators" not in t:
                return ["joined"]
        return []
    fl = Flow(f.node, ev).run()
    rec = [c for c in iter_calls(f.node) if dotted(c.func) == "self._createLayout"]
    ind = [c for c in iter_calls(f.node) if dotted(c.func) == "self.indexInData.append"]
    if len(rec) != 1 or len(ind) != 1:
        raise AnchorMissing("_createLayout: recursion and indexInData.append")
    st = fl.state_before(rec[0]) or {}
    r.require(st.get("joined", (0, 0))[0] >= 1, "_createLayout:object-joins-its-class-list-before-its-descendants", f, node=rec[0],
              msg="the descendants are laid out before the object has joined the list of its class: with an object of the same class below it (a Composite in a Composite) the class list is in "
                  "post-order while the layout rows are in pre-order, and parameters are read back onto the wrong objects")
    joined_before = (fl.state_before(ind[0]) or {}).get("joined", (0, 0))
    want = "len(compList) - 1" if joined_before[0] >= 1 else ("len(compList)" if joined_before[1] == 0 else None)
    r.require(want is not None and norm(ind[0].args[0]) == want, "_createLayout:indexInData-is-the-object's-own-position", f, node=ind[0],
              msg=f"`{norm(ind[0])}` is not the position of the object in its class list (expected {want})")
    g = idx.method("armi.utils.flags.Flag", "_registerField")
    value = g.params()[2]

    def ev2(nd):
        if isinstance(nd, ast.Call) and norm(nd.func).endswith("._valuesTaken.add") and nd.args and norm(nd.args[0]) == value:
            return ["taken"]
        if isinstance(nd, ast.Assign) and any(norm(t).endswith("._nameToValue[name]") or (isinstance(t, ast.Subscript) and norm(t.value).endswith("._nameToValue")) for t in nd.targets):
            return ["stored"]
        return []
    fl2 = Flow(g.node, ev2).run()
    rebuilt = [s_ for s_ in iter_stores(g.node) if s_.attr == "_valuesTaken" and s_.kind == "assign"]
    okt = not fl2.must_at_normal_exits("taken")
    if rebuilt and not okt:
        # rebuilding the set from the table counts only when the table already holds the new value
        okt = all((fl2.state_before(s_.stmt) or {}).get("stored", (0, 0))[0] >= 1 and "_nameToValue" in norm(s_.value) for s_ in rebuilt)
    r.require(okt, "Flag._registerField:registered-value-marked-as-taken", g,
              msg="a path registers the field without marking its value as taken: the next auto() hands the same bit out again and two flags share it")


def r18_every_field_every_value(idx, r):
    """(a) every parameter of a function of the database package is read by it (interface hooks with a fixed signature excepted): an
    alternate constructor such as JaggedArray.fromH5(data, offsets, shapes, nones, dtype, paramName) that stops using one of them leaves the
    object with the placeholder of the empty constructor - the buffer is then viewed with the wrong dtype.  (b) the reader assigns what was
    stored, None included: rule R04.5 (link string when one was stored, else the value) is decided here too."""
    from .c04 import r5_linked_dims
    n = 0
    for f in idx.all_funcs():
        if not f.module.name.startswith("armi.bookkeeping.db") or ".tests" in f.module.name:
            continue
        a = f.node.args
        ps = [x.arg for x in a.posonlyargs + a.args + a.kwonlyargs if x.arg not in ("self", "cls")]
        body = [x for x in f.node.body if not (isinstance(x, ast.Expr) and isinstance(x.value, ast.Constant))]
        if not ps or (len(body) <= 1 and (not body or isinstance(body[0], (ast.Raise, ast.Pass, ast.Return)))):
            continue
        if f.name.startswith("interact"):
            continue  # hook signature fixed by armi.interfaces.Interface
        read = {x.id for x in walk_local(f.node) if isinstance(x, ast.Name) and isinstance(x.ctx, ast.Load)}
        n += 1
        for p_ in ps:
            if p_.startswith("_"):
                continue
            r.require(p_ in read, f"{f.qualname}:uses:{p_}", f, msg=f"{f.qualname} no longer reads its parameter `{p_}`: what the caller hands over (for a constructor: a field of the stored value) is dropped")
    if n < 40:
        raise AnchorMissing("functions of the database package")
    r5_linked_dims(idx, r)


def r17_pairing(idx, r):
    from ..pairing import pairing_rule
    pairing_rule(idx, r, ["armi.bookkeeping.db", "armi.utils.flags", "armi.reactor.flags", "armi.reactor.parameters"], 60)


def r19_auto_bits_and_selection(idx, r):
    """(a) toWriteToDB (shared rule of C04).  (b) automatic flag bits never collide with explicit ones: wherever an auto value is looked for,
    the search LOOPS (`while value in taken: value *= 2`) - a single `if` skips one taken bit and lands on the next taken one; and
    Flag.extend registers all explicit values before it resolves any auto (one _resolveAutos call, after the registering loop)."""
    from .c04 import to_write_rule
    to_write_rule(idx, r)
    n = 0
    for f in idx.module("armi.utils.flags").all_funcs():
        for x in walk_local(f.node):
            if isinstance(x, (ast.If, ast.While)) and isinstance(x.test, ast.Compare) and isinstance(x.test.ops[0], ast.In) and any(isinstance(y, ast.AugAssign) and isinstance(y.op, ast.Mult) and norm(y.target) == norm(x.test.left) for y in x.body):
                n += 1
                r.require(isinstance(x, ast.While), f"{f.qualname}:auto-bit-search-loops", f, node=x,
                          msg=f"`{norm(x.test)}` is tested once: with explicit values on two consecutive bits the automatic value moves from one taken bit onto the next taken one, and two flags share a bit")
    if n < 2:
        raise AnchorMissing("auto-bit searches in armi/utils/flags.py")
    e = idx.method("armi.utils.flags.Flag", "extend")
    res = [c for c in iter_calls(e.node) if call_attr(c) == "_resolveAutos"]
    loops = [x for x in e.node.body if isinstance(x, ast.For)]
    if len(res) != 1:
        raise AnchorMissing("Flag.extend: _resolveAutos")
    in_loop = any(any(y is res[0] for y in ast.walk(lp)) for lp in walk_local(e.node) if isinstance(lp, ast.For))
    first_explicit = next((lp for lp in loops if "int" in norm(lp.iter) and any(call_attr(c) == "_registerField" for c in iter_calls(lp))), None)
    r.require(not in_loop and first_explicit is not None and first_explicit.lineno < res[0].lineno, "Flag.extend:explicit-values-registered-before-autos-resolved", e, node=res[0],
              msg="autos are resolved before (or while) the explicit values of the same call are registered: an auto listed first takes the bit an explicit entry then claims")


# ------------------------------------------------------------------------------------------------
def _unwrap_seq(x):
    """list(e) / tuple(e) -> e"""
    while isinstance(x, ast.Call) and dotted(x.func) in ("list", "tuple") and len(x.args) == 1 and not x.keywords:
        x = x.args[0]
    return x


def _is_stored_order(x):
    x = _unwrap_seq(x)
    if isinstance(x, ast.Subscript) and const_str(x.slice) == "flag_order":
        return True
    return isinstance(x, ast.Call) and call_attr(x) == "get" and len(x.args) == 1 and const_str(x.args[0]) == "flag_order"


def _is_current_order(x, fnode, recv):
    """`<recv>.sortedFields()` or a local that is bound to nothing else anywhere in the function."""
    x = _unwrap_seq(x)

    def is_sorted_call(e):
        return isinstance(e, ast.Call) and call_attr(e) == "sortedFields" and isinstance(e.func, ast.Attribute) and not e.args and not e.keywords \
            and (recv is None or norm(e.func.value) == recv)
    if is_sorted_call(x):
        return True
    if isinstance(x, ast.Name):
        defs = [s_ for s_ in iter_stores(fnode) if isinstance(s_.node, ast.Name) and s_.node.id == x.id]
        return bool(defs) and all(s_.kind == "assign" and s_.value is not None and is_sorted_call(s_.value) for s_ in defs)
    return False


def _states_order_equality(t, pol, fnode, recv):
    """Does the path condition (t, pol) say `stored flag order == current flag order`, element by element?"""
    def pair(a, b):
        return (_is_stored_order(a) and _is_current_order(b, fnode, recv)) or (_is_stored_order(b) and _is_current_order(a, fnode, recv))
    if isinstance(t, ast.Compare) and len(t.ops) == 1 and isinstance(t.ops[0], ast.Eq if pol else ast.NotEq):
        return pair(t.left, t.comparators[0])
    if isinstance(t, ast.Call) and dotted(t.func) == ("all" if pol else "any") and len(t.args) == 1 and isinstance(t.args[0], (ast.GeneratorExp, ast.ListComp)):
        g = t.args[0]
        if len(g.generators) != 1 or g.generators[0].ifs:
            return False
        gen, e = g.generators[0], g.elt
        if not (isinstance(gen.iter, ast.Call) and dotted(gen.iter.func) == "zip" and len(gen.iter.args) == 2 and pair(*gen.iter.args)):
            return False
        if not (isinstance(gen.target, ast.Tuple) and len(gen.target.elts) == 2 and all(isinstance(x, ast.Name) for x in gen.target.elts)):
            return False
        return isinstance(e, ast.Compare) and len(e.ops) == 1 and isinstance(e.ops[0], ast.Eq if pol else ast.NotEq) \
            and {norm(e.left), norm(e.comparators[0])} == {x.id for x in gen.target.elts}
    return False


def _atoms(t, pol):
    """(A and B, True) -> (A, True), (B, True);  (A or B, False) -> (A, False), (B, False);  not X flips."""
    if isinstance(t, ast.UnaryOp) and isinstance(t.op, ast.Not):
        yield from _atoms(t.operand, not pol)
    elif isinstance(t, ast.BoolOp) and isinstance(t.op, ast.And if pol else ast.Or):
        for v in t.values:
            yield from _atoms(v, pol)
    else:
        yield t, pol


def r20_verbatim_flag_bytes(idx, r):
    """Stored flag rows are bit fields in the bit order of the WRITING run (attrs['flag_order'] lists the names by bit position).  Wherever armi turns
    stored bytes back into a flag set there are two ways: through the old-position -> new-position bit map (`_remapBits`), or verbatim
    (`<FlagClass>.from_bytes(row)`, or `int.from_bytes(row)` that is not handed to the bit map).  The verbatim way is the identity on bits, so
    it is only right when stored order == current `sortedFields()` element by element: every verbatim decode, in every function (not only in
    _unpackImpl), executes under that path condition.  Equal COUNT, equal SET or equal version are not that condition."""
    from ..flow import path_conditions
    n = 0
    for f in idx.all_funcs():
        if ".tests" in f.module.name or f.name in ("from_bytes", "to_bytes"):
            continue  # the byte codec of utils.Flag itself (R05.4 decides its byte order)
        calls = [c for c in iter_calls(f.node) if call_attr(c) == "from_bytes" and isinstance(c.func, ast.Attribute)]
        if not calls:
            continue
        par = f.module.parents()
        env = single_assign_env(f.node)
        for i, c in enumerate(calls):
            n += 1
            is_int = dotted(c.func.value) == "int"
            key = f"{f.qualname}:{norm(c.func.value)}.from_bytes#{i}"
            if is_int:
                up = par.get(c)
                mapped = isinstance(up, ast.Call) and call_attr(up) == "_remapBits" and up.args and up.args[0] is c
                if not mapped and isinstance(up, ast.Assign) and len(up.targets) == 1 and isinstance(up.targets[0], ast.Name) and up.targets[0].id in env:
                    mapped = any(call_attr(k) == "_remapBits" and k.args and isinstance(k.args[0], ast.Name) and k.args[0].id == up.targets[0].id for k in iter_calls(f.node))
                if mapped:
                    r.ok(key + ":through-the-bit-map", f, node=c)
                    continue
            recv = None if is_int else norm(c.func.value)
            conds = [(propagate(t, env), p) for t0, p0 in path_conditions(f.node, c) for t, p in _atoms(t0, p0)]
            good = any(_states_order_equality(t, p, f.node, recv) for t, p in conds)
            under = "; ".join(("" if p else "not ") + f"`{norm(t)[:70]}`" for t, p in conds) or "no condition at all"
            r.require(good, key + ":verbatim-only-under-order-equality", f, node=c,
                      msg=f"{f.qualname} reads stored flag bytes verbatim (`{norm(c)[:60]}`, no bit map) under [{under}] - none of which says that the stored "
                          f"attrs['flag_order'] equals the current {recv or '<flag class>'}.sortedFields() element by element: a database written by a run whose flags were "
                          "registered in another order (same names, same count - two plugins loaded the other way round) reads back with the flags on the permuted bits exchanged")
    if n < 2:
        raise AnchorMissing("from_bytes decodes of stored flag rows (FlagSerializer._unpackImpl)")


# ------------------------------------------------------------------------------------------------
class _NdArr:
    """stand-in for a 1-d numpy array of n values in the exact evaluation of a shape-key function"""

    def __init__(self, n):
        self.n = n

    def __len__(self):
        return self.n

    def __repr__(self):
        return f"ndarray(shape=({self.n},))"


_KIND_OF = {"kind:ndarray": lambda v: isinstance(v, _NdArr), "kind:list": lambda v: isinstance(v, list), "kind:tuple": lambda v: isinstance(v, tuple),
            "kind:int": lambda v: isinstance(v, int), "kind:float": lambda v: isinstance(v, float), "kind:str": lambda v: isinstance(v, str),
            "kind:bool": lambda v: isinstance(v, bool)}
_KIND_NAMES = {"np.ndarray": "kind:ndarray", "numpy.ndarray": "kind:ndarray", "list": "kind:list", "tuple": "kind:tuple", "int": "kind:int", "float": "kind:float",
               "str": "kind:str", "bool": "kind:bool"}


def r21_shape_keys(idx, r):
    """Whether a parameter's per-object values are ragged is decided by comparing one shape key per value (`len(set(keys)) != 1`).  A function of
    the database package that returns `<value>.shape` for arrays and something else for the other kinds of value IS that key: it is evaluated
    exactly (MiniEval) for a 1-d ndarray, a list and a tuple of n = 0..3 values and for int / float / None.  Necessary for a right ragged/regular
    decision: the three EMPTY containers get one key (else an all-empty parameter is dropped), values of different length never share a key
    whatever their container, and a value that is no sequence gets a key no sequence has (a one-element list is not a scalar)."""
    from ..minieval import MiniEval, Raised
    from ..astutil import returned_values
    nfam = 0
    for f in idx.all_funcs():
        if not f.module.name.startswith("armi.bookkeeping.db") or ".tests" in f.module.name:
            continue
        a = f.node.args
        ps = [x.arg for x in a.posonlyargs + a.args + a.kwonlyargs if x.arg not in ("self", "cls")]
        hit = [v.value.id for v, _ in returned_values(f.node) if isinstance(v, ast.Attribute) and v.attr == "shape" and isinstance(v.value, ast.Name) and v.value.id in ps]
        if not hit:
            continue
        nfam += 1
        p = hit[0]

        def hook(call, args):
            if dotted(call.func) == "isinstance" and args is not None and len(args) == 2:
                ks = args[1] if isinstance(args[1], tuple) else (args[1],)
                if not all(isinstance(k, str) and k in _KIND_OF for k in ks):
                    raise AnalysisError(f"{f.qualname}: isinstance against `{norm(call.args[1])}` outside the fragment")
                return any(_KIND_OF[k](args[0]) for k in ks)
            return None

        def key_of(v):
            ev = MiniEval(consts=_KIND_NAMES, skip_calls=("runLog",), call_hook=hook)
            env = {p: v}
            if isinstance(v, _NdArr):
                env[f"{p}.shape"] = (v.n,)
            try:
                out, _ = ev.run(f.node, env)
            except Raised as ex:
                return f"<raises {ex}>"
            return out

        N = range(4)
        C = ("ndarray", "list", "tuple")
        seq = {n: {"ndarray": key_of(_NdArr(n)), "list": key_of([0.5] * n), "tuple": key_of((0.5,) * n)} for n in N}
        k0 = seq[0]
        r.require(k0["ndarray"] == k0["list"] == k0["tuple"], f"{f.qualname}:empty-values-get-one-key", f,
                  msg=f"{f.qualname} gives an empty ndarray / list / tuple the keys {k0['ndarray']!r} / {k0['list']!r} / {k0['tuple']!r}: `[np.array([]), []]` (every object's value empty) is taken "
                      "for ragged, each empty entry becomes an unset one and the parameter is not written at all instead of reading back as empty sequences")
        for n in N:
            clash = [f"{c} of {n} and {d} of {m}" for c in C for d in C for m in N if m != n and seq[n][c] == seq[m][d]]
            r.require(not clash, f"{f.qualname}:another-length-another-key:n={n}", f,
                      msg=f"{f.qualname} gives a {clash[0] if clash else ''} value(s) the same key {seq[n]['list']!r}: values of different length are then not seen as ragged, np.array() is applied to "
                          "them and the write fails (or stores objects) although the collection is representable as a ragged array")
        for label, v in (("int", 3), ("float", 2.5), ("None", None)):
            ks = key_of(v)
            clash = [f"{c} of {n}" for n in N for c in ("ndarray", "list", "tuple") if seq[n][c] == ks]
            r.require(not clash, f"{f.qualname}:non-sequence-key-differs:{label}", f,
                      msg=f"{f.qualname} gives the {label} value {v!r} the key {ks!r}, the key of a {clash[0] if clash else ''} value(s) sequence: `[[5.0], 3.0, None]` is then not seen as ragged, "
                          "np.array() is applied to it and the write fails (or stores objects) although the collection is representable")
    if nfam < 1:
        raise AnchorMissing("a shape-key function (returns <value>.shape) in armi/bookkeeping/db")


def run(idx, chk):
    chk.explanation = (
        "C05: pack/unpack are sibling implementations; their attrs key sets, strategy decision trees, None-sentinel tables, "
        "type-dispatch exhaustiveness, flag byte order / order map and the serializer name+version protocol are compared "
        "statically. Value-level round trip for every shape/dtype/None pattern is NOT decided."
    )
    chk.undecided_clauses = ["value-level round trip of each shape/dtype", "jagged offset arithmetic", "numpy coercion behaviour"]
    chk.run_rule("R05.1", "special-data strategies: keys written = keys read; each pack exit is decoded by the matching unpack branch with all keys it needs",
                 lambda r: r1_strategies(idx, r), floor=15, necessary="data decoded by another strategy than it was encoded with reads back different")
    chk.run_rule("R05.2", "the None sentinel written for every dtype in NONE_MAP is the one the reader scans for, for that dtype kind",
                 lambda r: r2_sentinels(idx, r), floor=10, necessary="a sentinel mismatch turns None into a number and real values into None")
    chk.run_rule("R05.3", "every element-type dispatch in the encoders/decoders ends in a rejecting else / raise",
                 lambda r: r3_exhaustive(idx, r), floor=6, necessary="'rejected at write time, never stored as something that reads back different'")
    chk.run_rule("R05.4", "flags: one byte order; stored order = sortedFields; verbatim path only under order equality; remap old position -> same name's position",
                 lambda r: r4_flags(idx, r), floor=7, necessary="flag sets keep their meaning when flags are extended or reordered")
    chk.run_rule("R05.6", "JaggedArray: offset advances by the number of values appended; each entry records (offset and shape) xor none",
                 lambda r: r6_jagged_offsets(idx, r), floor=6, necessary="ragged entries are located by offset and shape; a wrong step shifts every later entry")
    chk.run_rule("R05.5", "serializer protocol: name+version recorded with pack, checked before unpack; linkedDims/specialFormatting consulted",
                 lambda r: r5_serializer(idx, r), floor=9, necessary="custom-serialised parameters decode only with the serializer that wrote them")
    chk.run_rule("R05.7", "a value-changing cast on the write path is compared with its source before the data is returned for storage",
                 lambda r: r7_coercion(idx, r), floor=4, necessary="'never stored as something that reads back different': a cast to a type chosen from one element truncates the others")
    chk.run_rule("R05.8", "the stored key list of dict-valued parameters is computed from every object's dict", lambda r: r8_schema_from_all(idx, r), floor=1,
                 necessary="'dictionaries of numbers ... returned with the same values': a key list taken from one object drops the others' entries")
    chk.run_rule("R05.9", "every shape recorded by JaggedArray is a tuple (what unpack iterates), never a bare integer", lambda r: r9_shape_entries(idx, r), floor=2,
                 necessary="'a collection that cannot be represented is rejected at write time; it is never stored as something that reads back different' (or not at all)")
    chk.run_rule("R05.10", "the bit-remapping loop is unbounded; every sibling reader of parameter datasets decodes bytes to str", lambda r: r10_bit_loop_and_decode_siblings(idx, r), floor=4,
                 necessary="flag sets keep their meaning (all bits); strings are returned as the same values by every read path")
    chk.run_rule("R05.11", "a new flag's value is tested against the values already taken (not against the names)", lambda r: r11_flag_collision_guard(idx, r), floor=1,
                 necessary="'flag sets keep their meaning': two flags on one bit cannot be told apart")
    chk.run_rule("R05.12", "tables of positions (nones/offsets/shapes) are never asked for truth; unpack counts every unset position", lambda r: r12_position_tables(idx, r), floor=3,
                 necessary="any pattern of unset entries is returned at the same positions")
    chk.run_rule("R05.13", "history reads decode each step with that step's own layout and restore None for stored unset markers (shared with R06.10)", lambda r: r13_history_layout(idx, r), floor=7,
                 necessary="values are returned for the object they were written for, with the same unset positions")
    chk.run_rule("R05.14", "an automatically numbered flag gets a bit only after the taken values were skipped", lambda r: r14_auto_value_checked_before_use(idx, r), floor=1,
                 necessary="flag sets keep their meaning: no two flags share a bit")
    chk.run_rule("R05.15", "only NaN fillers are dropped from dict columns; sortedFields is sorted by value; text is encoded strictly", lambda r: r15_fillers_orders_and_strict_text(idx, r), floor=3,
                 necessary="values come back unchanged or are refused at write time; flag sets keep their meaning")
    chk.run_rule("R05.16", "values are flattened in logical order; an object joins its class list before its descendants; a registered flag value is marked as taken", lambda r: r16_order_and_registration(idx, r), floor=8,
                 necessary="every value and every flag name reads back on the object it was written for")
    chk.run_rule("R05.17", "arguments stand at the parameter they are named after; sibling calls forward the same pass-through parameters", lambda r: r17_pairing(idx, r), floor=1,
                 necessary="packing and unpacking receive the attributes and shapes that belong to the value")
    chk.run_rule("R05.18", "every parameter of a database function is used; the reader assigns the stored value, None included (R04.5)", lambda r: r18_every_field_every_value(idx, r), floor=60,
                 necessary="every value reads back with the kind and shape it was written with, None where None was written")
    chk.run_rule("R05.19", "toWriteToDB selects by overlap (evaluated); auto flag bits are searched in a loop and after the explicit values are registered", lambda r: r19_auto_bits_and_selection(idx, r), floor=4,
                 necessary="every assigned value is in the file; flag names keep their meaning across the round trip")
    chk.run_rule("R05.20", "stored flag bytes are decoded verbatim (from_bytes without the bit map) only where stored order == current sortedFields(), in every function", lambda r: r20_verbatim_flag_bytes(idx, r), floor=2,
                 necessary="'flag sets keep their meaning even when the set of defined flags is extended or REORDERED between writing and reading': a verbatim read under equal count/set/version exchanges the permuted flags")
    chk.run_rule("R05.21", "the shape key compared by the raggedness test (evaluated): empty ndarray/list/tuple share one key, another length is another key, a non-sequence has a key no sequence has", lambda r: r21_shape_keys(idx, r), floor=8,
                 necessary="'any collection the database accepts - fixed-shape arrays, ragged arrays, any pattern of unset entries - is returned with the same values and shapes': a wrong ragged/regular decision drops all-empty parameters or fails on [[5.0], 3.0, None]")
