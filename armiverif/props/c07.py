"""C07 - grid indices, ring/position, labels and coordinates: exact lattice-vector identities in
Q(sqrt3), affine coordinate maps, nesting of locations, ring-count polynomial identities, mutual
inverse of the six hex edges (as affine maps), ring = hex distance + 1 (vertex evaluation), sign
domain tiling of the six regions, label codec.  Exact algebra of straight-line code only."""
from __future__ import annotations

import ast

from ..astutil import call_attr, iter_calls, iter_stores, propagate, single_assign_env, walk_local
from ..exprnf import SQRT3, ExprEval, Poly, Q3, Rat, RatEval, matvec, poly, rot
from ..flow import path_conditions, always_exits
from ..index import AnalysisError, AnchorMissing, dotted, norm
from ..lattice import HEX, SIGN_CLASSES, eval_guard_sign, if_chain, neighbour_offsets, unit_steps, linear_sign

SG = "armi.reactor.grids.structuredGrid.StructuredGrid"
LOC = "armi.reactor.grids.locations"
P = Poly.atom("pitch")


def r1_lattice_vectors(idx, r):
    U = unit_steps(idx)
    offs = neighbour_offsets(idx)
    r.require(len(offs) == 6 and len({(repr(a), repr(b)) for a, b in offs}) == 6, "six-distinct-neighbours", idx.method(HEX, "getNeighboringCellIndices"), msg="six distinct neighbour offsets")
    from ..lattice import neighbour_axial_entries
    for n_, t in enumerate(neighbour_axial_entries(idx)):
        r.require(norm(t) == "k", f"neighbour{n_}:same-axial-plane", idx.method(HEX, "getNeighboringCellIndices"), node=t,
                  msg=f"neighbour {n_} has axial index `{norm(t)}` instead of the cell's own k: for k != 0 it leaves the plane and the neighbour relation is no longer symmetric")
    for cu, M in U.items():
        tag = "cornersUp" if cu else "flatsUp"
        f = idx.method(HEX, "_getRawUnitSteps")
        vecs = [matvec(M, [a, b]) for a, b in offs]
        for k in range(6):
            n2 = vecs[k][0] * vecs[k][0] + vecs[k][1] * vecs[k][1]
            r.require(n2 == P * P, f"{tag}:neighbour{k}:one-pitch-away", f, msg=f"neighbour {k} lies at squared distance {n2}, not pitch^2")
            rt = matvec(rot(1), vecs[k])
            nx = vecs[(k + 1) % 6]
            r.require(rt[0] == nx[0] and rt[1] == nx[1], f"{tag}:neighbour{k}->{(k + 1) % 6}:ccw-60", idx.method(HEX, "getNeighboringCellIndices"),
                      msg=f"neighbour {(k + 1) % 6} is not neighbour {k} rotated by +60 degrees: the listed order is not counter-clockwise")
        for a in (0, 1):
            for b in (0, 1):
                lo, hi = M[a][b].degree_in("pitch")
                r.require(M[a][b].iszero() or (lo == 1 and hi == 1), f"{tag}:step[{a}][{b}]:degree-1-in-pitch", f, msg="every unit step must be proportional to the pitch (changing the pitch rescales coordinates and nothing else)")
        # HexGrid.pitch == sqrt(U00^2 + U10^2) normalises to pitch
        pp = idx.cls(HEX).node
        prop = next((x for x in pp.body if isinstance(x, ast.FunctionDef) and x.name == "pitch"), None)
        ret = next((n for n in walk_local(prop) if isinstance(n, ast.Return)), None)
        inner = ret.value.args[0] if isinstance(ret.value, ast.Call) and dotted(ret.value.func) in ("sqrt", "math.sqrt", "np.sqrt") else None
        if inner is None:
            raise AnalysisError("HexGrid.pitch: sqrt(...) expected")
        E = ExprEval(env={"self._unitSteps[0][0]": M[0][0], "self._unitSteps[1][0]": M[1][0], "self._unitSteps[0][1]": M[0][1], "self._unitSteps[1][1]": M[1][1]}, opaque=False)

        class _S(ExprEval):
            def ev(self, n):
                if isinstance(n, ast.Subscript):
                    k = norm(n)
                    if k in self.env:
                        return poly(self.env[k])
                return super().ev(n)
        E = _S(env=E.env, opaque=False)
        r.require(E.ev(inner) == P * P, f"{tag}:pitch-property", idx.cls(HEX).methods.get("changePitch"), node=ret, msg=f"HexGrid.pitch squared normalises to {E.ev(inner)}, not pitch^2")
    # cornersUp discriminates the orientations
    cup = next((x for x in idx.cls(HEX).node.body if isinstance(x, ast.FunctionDef) and x.name == "cornersUp"), None)
    ret = next((n for n in walk_local(cup) if isinstance(n, ast.Return)), None)
    r.require(norm(ret.value) == "self._unitSteps[0][1] != 0.0" and not U[True][0][1].iszero() and U[False][0][1].iszero(), "cornersUp-discriminates", idx.method(HEX, "_getRawUnitSteps"), node=ret,
              msg="cornersUp must test an entry that is zero for flats-up and non-zero for corners-up")
    cp = idx.method(HEX, "changePitch")
    sts = [s for s in iter_stores(cp.node) if s.chain and s.chain.startswith("self.")]
    env = single_assign_env(cp.node)
    r.require(len(sts) == 1 and sts[0].chain == "self._unitSteps" and norm(propagate(sts[0].value, env)) == "np.array(HexGrid._getRawUnitSteps(newPitchCm, self.cornersUp))[self._stepDims]", "HexGrid.changePitch", cp,
              msg="changing the pitch rebuilds the unit steps from the same function, keeps the orientation, and touches nothing else")
    cc = idx.method("armi.reactor.grids.cartesian.CartesianGrid", "changePitch")
    env = single_assign_env(cc.node)
    off = next((s for s in iter_stores(cc.node) if s.chain == "self._offset"), None)
    want = "np.array((self._offset[0] * xw / self._unitSteps[0][0], self._offset[1] * yw / self._unitSteps[1][1], 0.0))"
    r.require(off is not None and norm(propagate(off.value, env)) == want, "CartesianGrid.changePitch:offset-rescaled", cc, msg="the centre offset scales by new/old width in each direction (the old widths read before the steps are replaced)")
    olds = [s for s in iter_stores(cc.node) if s.attr in ("xwOld", "ywOld")]
    us = next((s for s in iter_stores(cc.node) if s.chain == "self._unitSteps"), None)
    r.require(us is not None and all(s.stmt.lineno < us.stmt.lineno for s in olds) and len(olds) == 2, "CartesianGrid.changePitch:old-read-first", cc, msg="old widths must be read before the unit steps are overwritten")
    fr = idx.method("armi.reactor.grids.cartesian.CartesianGrid", "fromRectangle")
    env = single_assign_env(fr.node)
    r.require(norm(env.get("offset", ast.Constant(0))) == "np.array((width / 2.0, height / 2.0, 0.0)) if isOffset else None" and norm(env.get("unitSteps", ast.Constant(0))) == "((width, 0.0, 0.0), (0.0, height, 0.0), (0, 0, 0))",
              "CartesianGrid.fromRectangle", fr, msg="rectangular grid: steps (width, height), half-cell offset when not through centre")


def r2_affine(idx, r):
    sg = idx.cls(SG)
    want = {
        "_centroidBySteps": "return np.dot(self._unitSteps, indices)",
        "_meshBaseBySteps": "return (self._centroidBySteps(indices - 1) + self._centroidBySteps(indices)) / 2.0",
        "_centroidByBounds": "return (bounds[index + 1] + bounds[index]) / 2.0",
        "_meshBaseByBounds": "return bounds[index]",
    }
    for m, txt in want.items():
        f = sg.methods.get(m)
        if f is None:
            raise AnchorMissing(f"StructuredGrid.{m}")
        ret = next((n for n in walk_local(f.node) if isinstance(n, ast.Return)), None)
        if m in ("_meshBaseBySteps", "_centroidByBounds"):
            E = RatEval()
            got = E.ev(ret.value)
            a, b = (Poly.atom("self._centroidBySteps(indices - 1)"), Poly.atom("self._centroidBySteps(indices)")) if m == "_meshBaseBySteps" else (Poly.atom("bounds[index + 1]"), Poly.atom("bounds[index]"))
            r.require(got == Rat(a + b, Poly.const(2)), f"StructuredGrid.{m}", f, node=ret, msg=f"must be the mean of the two neighbouring values: {norm(ret.value)}")
        else:
            r.require(norm(ret) == txt, f"StructuredGrid.{m}", f, node=ret, msg=f"expected `{txt}`, found `{norm(ret)}`")
    for m, ops, shift in (("getCoordinates", ("self._centroidBySteps", "self._centroidByBounds"), None), ("getCellBase", ("self._meshBaseBySteps", "self._meshBaseByBounds"), None),
                          ("getCellTop", ("self._meshBaseBySteps", "self._meshBaseByBounds"), "+ 1")):
        f = sg.methods[m]
        ret = next((n for n in walk_local(f.node) if isinstance(n, ast.Return)), None)
        c = ret.value
        ok = isinstance(c, ast.Call) and dotted(c.func) == "self._evaluateMesh" and (norm(c.args[1]), norm(c.args[2])) == ops and norm(c.args[0]) == "indices"
        inds = [s for s in iter_stores(f.node) if s.attr == "indices" and s.value is not None]
        ind = norm(inds[0].value) if len(inds) == 1 else "?"
        ok = ok and (ind == "np.array(indices) + 1" if shift else ind == "np.array(indices)")
        r.require(ok, f"StructuredGrid.{m}", f, node=ret, msg=f"{m} must evaluate the mesh with {ops} at indices{' + 1' if shift else ''}: indices := {ind}")
    em = sg.methods["_evaluateMesh"]
    ret = next((n for n in walk_local(em.node) if isinstance(n, ast.Return)), None)
    r.require(norm(ret.value) == "result + self._offset", "StructuredGrid._evaluateMesh:offset-once", em, node=ret, msg="the offset is added exactly once, at the end")
    sts = {norm(s.node): norm(s.value) for s in iter_stores(em.node) if s.kind == "subscript" and s.chain == "result"}
    r.require(sts == {"result[self._stepDims]": "stepCoords", "result[self._boundDims]": "boundCoords"}, "StructuredGrid._evaluateMesh:assembly", em, msg=f"step-defined and bounds-defined coordinates fill their own dimensions: {sts}")
    init = sg.methods["__init__"]
    ax = next((s for s in iter_stores(init.node) if s.chain == "self._isAxialOnly"), None)
    r.require(ax is not None and norm(ax.value) == "iLen == jLen == 1 and kLen > 1", "StructuredGrid._isAxialOnly", init, node=ax.stmt if ax else None,
              msg="a grid is axial-only when it has one cell in i and j and more than one bound in k (a single axial cell has kLen == 2)")
    ib = sg.methods["getIndexBounds"]
    r.require("indexBounds.append((0, len(bounds)))" in norm(ib.node) and "indexBounds.append(minMax)" in norm(ib.node), "StructuredGrid.getIndexBounds", ib, msg="bounds-defined dimensions span (0, len(bounds)), step-defined ones their limits")


def r3_nesting(idx, r):
    il = idx.cls(LOC + ".IndexLocation")
    gg = il.methods["getGlobalCoordinates"]
    calls = [c for c in iter_calls(gg.node) if call_attr(c) in ("getLocalCoordinates", "getGlobalCoordinates")]
    fw = [c for c in calls if not (any(k.arg == "nativeCoords" and norm(k.value) == "nativeCoords" for k in c.keywords) or (c.args and norm(c.args[0]) == "nativeCoords"))]
    r.require(not fw, "getGlobalCoordinates:nativeCoords-forwarded", gg, node=fw[0] if fw else None,
              msg=f"`{norm(fw[0]) if fw else ''}` does not forward nativeCoords: local and parent contributions would be in different coordinate systems")
    par = [c for c in calls if call_attr(c) == "getGlobalCoordinates" and "parentLocation" in norm(c.func)]
    loc = [c for c in calls if call_attr(c) == "getLocalCoordinates" and norm(c.func.value) == "self"]
    r.require(len(par) >= 1 and len(loc) >= 1, "getGlobalCoordinates:local+parent", gg, msg="global coordinates = own local coordinates + the parent location's global coordinates")
    adds = [n for n in walk_local(gg.node) if isinstance(n, (ast.BinOp, ast.AugAssign)) and isinstance(n.op, ast.Add)]
    r.require(len(adds) >= 1 and not [n for n in walk_local(gg.node) if isinstance(n, (ast.BinOp, ast.AugAssign)) and isinstance(n.op, (ast.Sub, ast.Mult, ast.Div))], "getGlobalCoordinates:sum", gg, msg="the contributions are added")
    for m, g in (("getGlobalCellBase", "getCellBase"), ("getGlobalCellTop", "getCellTop")):
        f = il.methods[m]
        rets = sorted(norm(n.value) for n in walk_local(f.node) if isinstance(n, ast.Return))
        want = sorted([f"parentLocation.{m}() + self.grid.{g}(self.indices)", f"self.grid.{g}(self.indices)"])
        r.require(rets == want, f"IndexLocation.{m}", f, msg=f"{m} = parent's {m} + own {g}: {rets}")
    for m in ("getGlobalCellBase", "getGlobalCellTop"):
        f = il.methods[m]
        rec = next((n for n in walk_local(f.node) if isinstance(n, ast.Return) and "parentLocation." in norm(n.value)), None)
        conds = [(norm(t), p) for t, p in path_conditions(f.node, rec)] if rec is not None else None
        r.require(conds == [("parentLocation", True)], f"IndexLocation.{m}:guard", f, msg=f"the parent's contribution is added exactly when there is a parent location: {conds}")
    ci = il.methods["getCompleteIndices"]
    add = next((n for n in walk_local(ci.node) if isinstance(n, ast.AugAssign)), None)
    conds = [(norm(t), p) for t, p in path_conditions(ci.node, add)] if add is not None else None
    r.require(add is not None and norm(add) == "indices += parentLocation.indices" and conds == [("parentLocation is not None", True), ("parentLocation.grid is not None and addingIsValid(self.grid, parentLocation.grid)", True)], "getCompleteIndices", ci,
              node=add, msg=f"parent indices are added only for axial-in-radial nesting: {conds}")
    av = idx.func(LOC + ".addingIsValid")
    r.require(norm(av.node.body[-1]) == "return myGrid.isAxialOnly and (not parentGrid.isAxialOnly)", "addingIsValid", av, msg="indices compose only for an axial-only grid nested in a non-axial one")
    pl = next((x for x in il.node.body if isinstance(x, ast.FunctionDef) and x.name == "parentLocation"), None)
    r.require(pl is not None and "return grid.armiObject.spatialLocator" in norm(pl) and "grid.armiObject.parent is not None" in norm(pl), "parentLocation", il.methods["getCompleteIndices"], msg="the parent location is the locator of the grid's owner (when that owner has a parent)")
    cl = idx.cls(LOC + ".CoordinateLocation")
    r.require(norm(cl.methods["getCompleteIndices"].node.body[-1]) == "return (0, 0, 0)", "CoordinateLocation.getCompleteIndices", cl.methods["getCompleteIndices"], msg="free coordinates terminate index composition with (0,0,0)")
    for m in ("getLocalCoordinates", "getGlobalCellBase", "getGlobalCellTop"):
        r.require(norm(cl.methods[m].node.body[-1]) == "return self.indices", f"CoordinateLocation.{m}", cl.methods[m], msg="free coordinates are their own coordinates")
    lc = il.methods["getLocalCoordinates"]
    ret = [n for n in walk_local(lc.node) if isinstance(n, ast.Return)]
    r.require(len(ret) == 1 and norm(ret[0].value) == "self.grid.getCoordinates(self.indices, nativeCoords=nativeCoords)", "getLocalCoordinates", lc, msg="local coordinates come from the locator's own grid and indices")


def _leaf_env(stmts, E):
    env = {}
    for s in stmts:
        if isinstance(s, ast.Assign) and isinstance(s.targets[0], ast.Name):
            env[s.targets[0].id] = E.ev(s.value)
    return env


def _edges_forward(idx):
    """edge -> (i, j) polynomials in R (= ring-1) and o (offset), from _indicesAndEdgeFromRingAndPos."""
    f = idx.method(HEX, "_indicesAndEdgeFromRingAndPos")
    body = [s for s in f.node.body if not (isinstance(s, ast.Expr) and isinstance(s.value, ast.Constant))]
    pre = [norm(s) for s in body[:2]]
    if sorted(pre) != sorted(["ring = ring - 1", "pos = position - 1"]):
        raise AnalysisError(f"_indicesAndEdgeFromRingAndPos: zero-based shift not found ({pre})")
    dm = next((s for s in body if isinstance(s, ast.Assign) and isinstance(s.value, ast.Call) and dotted(s.value.func) == "divmod"), None)
    if dm is None or norm(dm) != "edge, offset = divmod(pos, ring)":
        raise AnalysisError("_indicesAndEdgeFromRingAndPos: `edge, offset = divmod(pos, ring)` expected")
    E = ExprEval(env={"ring": Poly.atom("R"), "offset": Poly.atom("o")}, opaque=False)
    chain = if_chain(body[body.index(dm):])
    out = {}
    for conds, blk in chain:
        t, pol = conds[-1]
        if pol and isinstance(t, ast.Compare) and norm(t.left) == "edge" and isinstance(t.ops[0], ast.Eq):
            e = t.comparators[0].value
            env = _leaf_env(blk, E)
            out[e] = (env["i"], env["j"])
        elif not pol:
            if not any(isinstance(x, ast.Raise) for x in blk):
                raise AnalysisError("edge chain must end in raise")
    return f, body, out


def _edges_backward(idx):
    """list of (guards, edge, ring(i,j), offset(i,j)) from indicesToRingPos."""
    f = idx.method(HEX, "indicesToRingPos")
    E = ExprEval(env={"i": Poly.atom("i"), "j": Poly.atom("j")}, opaque=False)
    out = []
    for conds, blk in if_chain(f.node):
        env = _leaf_env(blk, E)
        e = env["edge"].const_value()
        out.append((conds, int(e.a), env["ring"], env["offset"]))
    return f, out


def r4_ring_pos(idx, r):
    hx = idx.module("armi.utils.hexagon")
    tp, npr = hx.functions["totalPositionsUpToRing"], hx.functions["numPositionsInRing"]
    E = ExprEval(env={"ring": Poly.atom("r")}, opaque=False)
    T = E.ev(next(n for n in walk_local(tp.node) if isinstance(n, ast.Return)).value)
    Tm1 = T.subs({"r": Poly.atom("r") - 1})
    ret = next(n for n in walk_local(npr.node) if isinstance(n, ast.Return)).value
    if not (isinstance(ret, ast.IfExp) and norm(ret.test) == "ring != 1"):
        raise AnalysisError("numPositionsInRing: `X if ring != 1 else 1` expected")
    Nr = E.ev(ret.body)
    r.require(T - Tm1 == Nr, "total(r)-total(r-1)=positions(r)", tp, msg=f"totalPositionsUpToRing(r) - totalPositionsUpToRing(r-1) = {T - Tm1} but numPositionsInRing(r) = {Nr}")
    r.require(Nr == (Poly.atom("r") - 1) * 6, "positions(r)=6(r-1)", npr, msg=f"ring r>1 holds 6(r-1) cells; found {Nr}")
    r.require(E.ev(ret.orelse) == Poly.const(1) and T.subs({"r": Poly.const(1)}) == Poly.const(1), "ring-1-holds-1", npr, msg="ring 1 holds exactly the centre cell")
    for m, target in (("getPositionsInRing", "hexagon.numPositionsInRing(ring)"), ("getMinimumRings", "hexagon.numRingsToHoldNumCells(n)")):
        f = idx.method(HEX, m)
        r.require(norm(f.node.body[-1]) == f"return {target}", f"HexGrid.{m}:delegates", f, msg=f"must delegate to {target}")
    ff, body, fwd = _edges_forward(idx)
    fb, bwd = _edges_backward(idx)
    r.require(sorted(fwd) == [0, 1, 2, 3, 4, 5] and sorted(e for _, e, _, _ in bwd) == [0, 1, 2, 3, 4, 5], "six-edges-both-ways", ff, msg="both maps must handle exactly the edges 0..5")
    R, o = Poly.atom("R"), Poly.atom("o")
    for conds, e, ring_ij, off_ij in bwd:
        if e not in fwd:
            continue
        fi, fj = fwd[e]
        ring_c = ring_ij.subs({"i": fi, "j": fj})
        off_c = off_ij.subs({"i": fi, "j": fj})
        r.require(ring_c == R + 1, f"edge{e}:ring-roundtrip", fb, msg=f"indicesToRingPos(indices(ring, pos)) gives ring {ring_c} on edge {e}, expected R+1 (R = ring-1)")
        r.require(off_c == o, f"edge{e}:offset-roundtrip", fb, msg=f"offset along edge {e} comes back as {off_c}, expected o")
        # ring = hex distance + 1: max(|i|,|j|,|i+j|) == R for 0<=o<=R  (vertex evaluation of the affine forms)
        forms = [fi, fj, fi + fj]
        ok_le, ok_eq = True, False
        for fm in forms:
            a = fm.coeff("R", 1).const_value()
            b = fm.coeff("o", 1).const_value()
            rest = fm - R * poly(a or 0) - o * poly(b or 0)
            if a is None or b is None or not rest.iszero():
                raise AnalysisError(f"edge {e}: index form {fm} is not linear in (R, o)")
            v0, v1 = a, a + b  # values / R at o = 0 and o = R
            if abs(float(v0)) > 1 or abs(float(v1)) > 1:
                ok_le = False
            if b.iszero() and (a == Q3(1) or a == Q3(-1)):
                ok_eq = True
        r.require(ok_le and ok_eq, f"edge{e}:ring-is-hex-distance+1", ff, msg=f"on edge {e} the cell (i,j)=({fi}, {fj}) must satisfy max(|i|,|j|,|i+j|) = R for all 0<=o<=R")
    # position numbering: positionBase = 1 + edge*(ring-1), and the decoder's divmod inverts it
    pb = next((s for s in iter_stores(fb.node) if s.attr == "positionBase"), None)
    Eb = ExprEval(env={"edge": Poly.atom("e"), "ring": Poly.atom("ring")}, opaque=False)
    r.require(pb is not None and Eb.ev(pb.value) == Poly.const(1) + Poly.atom("e") * (Poly.atom("ring") - 1), "position-base", fb, node=pb.stmt if pb else None, msg="positions on edge e start at 1 + e(ring-1): contiguous numbering 1..6(ring-1)")
    ret = [n for n in walk_local(fb.node) if isinstance(n, ast.Return)]
    r.require(len(ret) == 1 and norm(ret[0].value) == "(ring, positionBase + offset)", "position=base+offset", fb, msg="position = base of the edge + offset along it")
    c0 = next((s for s in body if isinstance(s, ast.If) and norm(s.test) == "ring == 0"), None)
    r.require(c0 is not None and any(isinstance(n, ast.Return) and norm(n.value) == "(0, 0, 0)" for n in c0.body) and any(isinstance(x, ast.Raise) for x in ast.walk(c0)), "centre-ring", ff, msg="ring 1 is the single centre cell; any other position must raise")
    gi = idx.method(HEX, "getIndicesFromRingAndPos")
    r.require("HexGrid._indicesAndEdgeFromRingAndPos(ring, pos)" in norm(gi.node), "getIndicesFromRingAndPos:delegates", gi, msg="public decoder must use the same map")
    gr = idx.method(HEX, "getRingPos")
    r.require("self.indicesToRingPos(i, j)" in norm(gr.node) and "i, j = indices[:2]" in norm(gr.node), "getRingPos:delegates", gr, msg="ring/pos of indices uses (i, j) in that order")


def r7_tiling(idx, r):
    fb, bwd = _edges_backward(idx)
    ff, body, fwd = _edges_forward(idx)
    # which edge does each sign class belong to, according to the decoder (the inverse function)?
    want = {}
    for e, (fi, fj) in fwd.items():
        sgn = []
        for fm in (fi, fj, fi + fj):
            a = fm.coeff("R", 1).const_value()
            b = fm.coeff("o", 1).const_value()
            s0, s1 = a.sign(), (a + b).sign()
            ray = s0  # o = 0
            if s0 == s1 or s1 == 0:
                inner = s0
            elif s0 == 0:
                inner = s1
            else:
                raise AnalysisError(f"edge {e}: index form changes sign inside the edge")
            sgn.append((ray, inner))
        want[tuple(x[0] for x in sgn)] = e
        want[tuple(x[1] for x in sgn)] = e
    if len(want) != 12:
        raise AnalysisError(f"the six edges of the decoder cover {len(want)} sign classes, expected 12")
    for cls in SIGN_CLASSES:
        sel = None
        for conds, e, ring_ij, off_ij in bwd:
            if all(eval_guard_sign(t, cls) == pol for t, pol in conds):
                sel = (e, ring_ij, off_ij)
                break
        key = f"class{cls}"
        if sel is None:
            r.violate(key, fb, f"no branch of indicesToRingPos accepts cells with signs (i, j, i+j) = {cls}")
            continue
        if cls == (0, 0, 0):
            z = {"i": Poly.const(0), "j": Poly.const(0)}
            r.require(sel[1].subs(z) == Poly.const(1) and sel[2].subs(z) == Poly.const(0), key, fb, msg="the centre cell must map to ring 1, position 1")
            continue
        r.require(sel[0] == want[cls], key, fb,
                  msg=f"cells with signs (i, j, i+j) = {cls} are numbered on edge {sel[0]} by indicesToRingPos but lie on edge {want[cls]} of the decoder: ring/position and indices are not mutually inverse there")


def r6_labels(idx, r):
    g = idx.method("armi.reactor.grids.grid.Grid", "getLabel")
    f = idx.func("armi.reactor.grids.locatorLabelToIndices")
    specs_nodes = {id(n.format_spec) for n in walk_local(g.node) if isinstance(n, ast.FormattedValue) and n.format_spec is not None}
    js = [n for n in walk_local(g.node) if isinstance(n, ast.JoinedStr) and id(n) not in specs_nodes]
    seps = set()
    specs = []
    for j in js:
        for v in j.values:
            if isinstance(v, ast.Constant):
                seps.add(v.value)
            elif isinstance(v, ast.FormattedValue):
                specs.append(norm(v.format_spec) if v.format_spec is not None else "")
    split = next((c for c in iter_calls(f.node) if call_attr(c) == "split"), None)
    sep = split.args[0].value if split is not None and split.args and isinstance(split.args[0], ast.Constant) else None
    r.require(seps == {sep} and sep is not None, "separator-agrees", f, msg=f"labels are joined with {sorted(seps)} and split on {sep!r}")
    order = [norm(v.value) for j in js for v in j.values if isinstance(v, ast.FormattedValue)]
    r.require(order == ["i", "j", "indices[2]"], "field-order", g, msg=f"fields are rendered in (i, j, k) order: {order}")
    r.require("int(idx) for idx in label.split" in norm(f.node), "fields-parsed-as-int", f, msg="every field is parsed back as an integer, in order")
    # the separator must not be producible by a rendered field
    collide = sep == "-" and all("d" in s for s in specs)  # a negative integer renders a leading '-'
    users = []
    for c in idx.subclasses(idx.cls("armi.reactor.grids.grid.Grid")):
        gl = c.resolve("getLabel")
        raw = gl is g  # labels carry raw indices
        if "getLabel" in c.methods and c is not idx.cls("armi.reactor.grids.grid.Grid"):
            raw = "getRingPos" not in norm(c.methods["getLabel"].node)
        lim = None
        if raw and any(k in c.name for k in ("Cartesian",)):
            users.append(c.name)
    r.require(not (collide and users), "separator-cannot-occur-in-a-field", g,
              msg=f"the separator {sep!r} is also the sign of a negative index; grids whose labels carry raw (possibly negative) indices {users} produce labels that do not parse back")


def r8_affine_ring_pos_pairs(idx, r):
    """Grids whose (ring, position) numbering is an affine renaming of the indices (theta-R-Z): getRingPos and
    getIndicesFromRingAndPos are composed symbolically and must give the identity."""
    sg = idx.cls(SG)
    n = 0
    for c in idx.subclasses(sg):
        if ".tests" in c.module.name:
            continue
        g, h = c.methods.get("getRingPos"), c.methods.get("getIndicesFromRingAndPos")
        if g is None or h is None:
            continue
        rg = [x for x in walk_local(g.node) if isinstance(x, ast.Return)]
        rh = [x for x in walk_local(h.node) if isinstance(x, ast.Return)]
        simple = (len(rg) == 1 and len(rh) == 1 and isinstance(rg[0].value, ast.Tuple) and isinstance(rh[0].value, ast.Tuple) and len(rg[0].value.elts) == 2 and len(rh[0].value.elts) == 2
                  and len(g.node.body) <= 2 and len(h.node.body) <= 2 and not any(isinstance(x, ast.Call) for x in ast.walk(rg[0].value)) and not any(isinstance(x, ast.Call) for x in ast.walk(rh[0].value)))
        if not simple:
            continue  # hex: R07.4 / R07.7; Cartesian: not affine (undecided clause)
        n += 1
        ip = g.params()[1]
        E = ExprEval()
        ring, pos = (E.ev(e) for e in rg[0].value.elts)
        hp = [p for p in h.params() if p != "self"]
        E2 = ExprEval(env={hp[0]: ring, hp[1]: pos})
        back = [E2.ev(e) for e in rh[0].value.elts]
        want = [Poly.atom(f"{ip}[0]"), Poly.atom(f"{ip}[1]")]
        r.require(back == want, f"{c.name}:indices->ring/pos->indices", h, node=rh[0],
                  msg=f"getIndicesFromRingAndPos(*getRingPos((i, j))) evaluates to ({back[0]}, {back[1]}), not (i, j): the two numberings are not inverse "
                      "(every cell with ring != position is sent to another cell)")
    if n < 1:
        raise AnalysisError("no grid with an affine (ring, position) numbering found (ThetaRZGrid expected)")


def r9_minimum_rings(idx, r):
    """'the least number of rings holding n cells is exact' for Cartesian grids: getMinimumRings and getPositionsInRing are
    evaluated exhaustively (E6) for n = 1..300, with and without a centre cell: the answer R must satisfy
    cells(1..R) >= n > cells(1..R-1)."""
    from ..minieval import MiniEval, Raised

    c = idx.cls("armi.reactor.grids.cartesian.CartesianGrid")
    g, p = (c.methods.get(x) for x in ("getMinimumRings", "getPositionsInRing")) if c is not None else (None, None)
    if g is None or p is None:
        raise AnchorMissing("CartesianGrid.getMinimumRings / getPositionsInRing")
    for through in (True, False):
        def hook(call, args, through=through):
            d = dotted(call.func)
            if d == "self._isThroughCenter":
                return through
            if d == "self.getPositionsInRing" and args is not None:
                v, _ = MiniEval(call_hook=hook).run(p.node, {p.params()[1]: args[0]})
                return v
            return None
        cap = lambda ring: MiniEval(call_hook=hook).run(p.node, {p.params()[1]: ring})[0]
        bad = None
        for n in range(1, 301):
            try:
                R, _ = MiniEval(call_hook=hook).run(g.node, {g.params()[1]: n})
            except Raised as e:
                bad = (n, f"raises {e}")
                break
            tot, prev = sum(cap(k) for k in range(1, R + 1)), sum(cap(k) for k in range(1, R))
            if not (tot >= n > prev):
                bad = (n, f"answers {R} rings, but rings 1..{R - 1} already hold {prev} cells and 1..{R} hold {tot}")
                break
        r.require(bad is None, f"cartesian:{'through-centre' if through else 'offset'}:exact-for-1..300", g,
                  msg=(f"getMinimumRings({bad[0]}) {bad[1]}" if bad else ""))
        # independent of the code: rings 1..R of a square lattice tile a (2R-1) x (2R-1) square (centre cell) or a 2R x 2R square (offset)
        off = next(((R, sum(cap(k) for k in range(1, R + 1)), (2 * R - 1) ** 2 if through else (2 * R) ** 2) for R in range(1, 21)
                    if sum(cap(k) for k in range(1, R + 1)) != ((2 * R - 1) ** 2 if through else (2 * R) ** 2)), None)
        r.require(off is None, f"cartesian:{'through-centre' if through else 'offset'}:rings-tile-a-square", p,
                  msg=(f"getPositionsInRing gives {off[1]} cells for rings 1..{off[0]}; a square of that many rings has {off[2]}" if off else ""))


def r10_reduce_keeps_offset(idx, r):
    """'a grid rebuilt from its stored constructor arguments gives the same coordinates': reduce() may drop the offset
    only when EVERY component is zero. The deciding expression is evaluated for all 8 zero/non-zero patterns."""
    import itertools

    f = idx.method(SG, "reduce")
    if f is None:
        raise AnchorMissing("StructuredGrid.reduce")
    st = next((x for x in walk_local(f.node) if isinstance(x, ast.Assign) and norm(x.targets[0]) == "offset" and isinstance(x.value, ast.IfExp)), None)
    if st is None:
        raise AnalysisError("reduce: `offset = None if ... else tuple(self._offset)` not found")
    ife = st.value
    none_in_body = isinstance(ife.body, ast.Constant) and ife.body.value is None

    def ev(e, bits):
        if isinstance(e, ast.UnaryOp) and isinstance(e.op, ast.Not):
            return not ev(e.operand, bits)
        if isinstance(e, ast.Call):
            d = dotted(e.func) or ""
            tgt = None
            if isinstance(e.func, ast.Attribute) and e.func.attr in ("any", "all") and "offset" in norm(e.func.value).lower():
                tgt, how = bits, e.func.attr
            elif d in ("any", "all", "np.any", "np.all") and e.args and "offset" in norm(e.args[0]).lower():
                tgt, how = bits, d.split(".")[-1]
            if tgt is not None:
                return any(tgt) if how == "any" else all(tgt)
        if isinstance(e, ast.Compare) and len(e.ops) == 1 and isinstance(e.ops[0], (ast.Is, ast.IsNot)) and isinstance(e.comparators[0], ast.Constant) and e.comparators[0].value is None:
            return isinstance(e.ops[0], ast.IsNot)  # the offset array always exists
        if isinstance(e, ast.BoolOp):
            vals = [ev(v, bits) for v in e.values]
            return all(vals) if isinstance(e.op, ast.And) else any(vals)
        raise AnalysisError(f"reduce: `{norm(e)[:60]}` outside the evaluated fragment")
    wrong = []
    for bits in itertools.product((False, True), repeat=3):
        t = ev(ife.test, bits)
        dropped = t if none_in_body else not t
        if dropped != (not any(bits)):
            wrong.append(bits)
    r.require(not wrong, "offset-dropped-only-when-all-zero", f, node=st,
              msg=f"`{norm(st)[:80]}` drops the offset for the non-zero pattern(s) {wrong[:3]} (x, y, z non-zero?): a grid shifted along one or two axes only - every Cartesian "
                  "grid without a centre cell: (w/2, h/2, 0) - is rebuilt at the origin")


def r11_bounds_lookup(idx, r):
    """ThetaRZGrid.indicesOfBounds answers 'which mesh line is this value' for values that come from input files and arithmetic, i.e. that
    equal the stored bound only up to rounding (its own documentation promises a tolerance): the lookup must be by NEAREST bound.  An exact
    ordering lookup (searchsorted / bisect / index / ==) returns the next cell for a value a hair above the stored one."""
    f = idx.method("armi.reactor.grids.thetarz.ThetaRZGrid", "indicesOfBounds")
    ret = next((n for n in walk_local(f.node) if isinstance(n, ast.Return) and isinstance(n.value, ast.Tuple) and len(n.value.elts) == 3), None)
    if ret is None:
        raise AnchorMissing("ThetaRZGrid.indicesOfBounds: return (i, j, k)")
    env = single_assign_env(f.node)
    ps = f.params()
    for pos, (axis, arg) in enumerate(((0, ps[3]), (1, ps[1]))):
        e = propagate(ret.value.elts[pos], env)
        calls = [c for c in ast.walk(e) if isinstance(c, ast.Call)]
        nearest = any(call_attr(c) == "argmin" or dotted(c.func) in ("np.argmin", "numpy.argmin") for c in calls) and any(dotted(c.func) in ("np.abs", "abs", "np.absolute", "np.fabs") for c in calls)
        exact = [c for c in calls if (dotted(c.func) or "").rsplit(".", 1)[-1] in ("searchsorted", "bisect", "bisect_left", "bisect_right", "index", "digitize")] + [c for c in ast.walk(e) if isinstance(c, ast.Compare) and any(isinstance(o, ast.Eq) for o in c.ops)]
        uses = f"self._bounds[{axis}]" in norm(e) and any(isinstance(x, ast.Name) and x.id == arg for x in ast.walk(e))
        if nearest and uses and not exact:
            r.ok(f"indicesOfBounds:axis{axis}:nearest-bound", f, node=ret)
            # the stored bounds are whatever sequence the constructor was given (reduce() hands back tuples): arithmetic needs an array
            raw = [x for x in ast.walk(e) if isinstance(x, ast.BinOp) and isinstance(x.op, ast.Sub) and any(norm(y) == f"self._bounds[{axis}]" for y in (x.left, x.right))]
            r.require(not raw, f"indicesOfBounds:axis{axis}:bounds-as-array", f, node=raw[0] if raw else ret,
                      msg=f"`{norm(raw[0]) if raw else ''}` subtracts from the stored bounds as they are: for a grid built with list bounds or rebuilt from reduce() (tuples) this raises "
                          "TypeError, while getCoordinates works - the two directions of the index <-> coordinate map are not both available")
        elif exact:
            r.violate(f"indicesOfBounds:axis{axis}:nearest-bound", f, f"index {pos} is `{norm(e)[:80]}`: an exact ordering lookup on real-valued bounds; a lower bound a rounding error above the stored mesh "
                      "value (10-decimal input, i*dTheta) is assigned to the next cell", node=ret)
        else:
            raise AnalysisError(f"indicesOfBounds: lookup `{norm(e)[:80]}` not understood")


def r12_label_decoding_evaluated(idx, r):
    """locatorLabelToIndices is EVALUATED (MiniEval) on every label `iii-jjj` and `iii-jjj-kkk` with i, j in {0, 1, 12} and k in {0, 1, 5}:
    it returns exactly (i, j, k) - k = 0 included, which is an index, not an absent field - and (i, j, None) for a two-field label."""
    from ..minieval import MiniEval, Raised
    f = idx.func("armi.reactor.grids.locatorLabelToIndices")
    prm = f.params()[0]
    bad, n = [], 0
    for i in (0, 1, 12):
        for j in (0, 1, 12):
            for k in (None, 0, 1, 5):
                lab = f"{i:03d}-{j:03d}" + ("" if k is None else f"-{k:03d}")
                n += 1
                try:
                    got, _ = MiniEval().run(f.node, {prm: lab})
                    got = tuple(got) if isinstance(got, (list, tuple)) else got
                except Raised as e:
                    got = f"raises {e}"
                if got != (i, j, k):
                    bad.append((lab, got))
    r.require(not bad, "locatorLabelToIndices:decodes-every-field-including-zero", f,
              msg=f"(label, decoded) = {bad[:3]} of {len(bad)} wrong out of {n}: the label does not decode to the indices it encodes")


INDEX_PARAMS = ("i", "j", "k", "ring", "pos", "indices", "ringPos")


def r14_index_arguments_used_and_ring_count(idx, r):
    """(a) a function of the grid package that takes an index argument (i, j, k, ring, pos, indices) uses it: getLocatorFromRingAndPos(ring, pos,
    k) that answers `self[i, j, 0]` is right for every caller that passes k = 0 and wrong for all others.  (b) numRingsToHoldNumCells is
    EVALUATED (MiniEval) for every n in 1..6000: it returns the smallest r with 3 r (r - 1) + 1 >= n (integer arithmetic on the checker's
    side) - rounding the closed form puts the first cell beyond a full ring back into it once r is large (n = 1952)."""
    from ..minieval import MiniEval
    n = 0
    for f in idx.all_funcs():
        if not f.module.name.startswith("armi.reactor.grids") or ".tests" in f.module.name:
            continue
        a = f.node.args
        ps = [x.arg for x in a.posonlyargs + a.args + a.kwonlyargs if x.arg in INDEX_PARAMS]
        body = [x for x in f.node.body if not (isinstance(x, ast.Expr) and isinstance(x.value, ast.Constant))]
        constant = len(body) == 1 and isinstance(body[0], ast.Return) and (body[0].value is None or isinstance(body[0].value, ast.Constant) or (isinstance(body[0].value, (ast.List, ast.Tuple, ast.Dict)) and not ast.dump(body[0].value).count("Name(")))
        if not ps or constant or (len(body) <= 1 and (not body or isinstance(body[0], (ast.Raise, ast.Pass)))) or any(isinstance(d, ast.Name) and d.id == "abstractmethod" for d in f.node.decorator_list):
            continue
        read = {x.id for x in walk_local(f.node) if isinstance(x, ast.Name) and isinstance(x.ctx, ast.Load)}
        for p_ in ps:
            n += 1
            r.require(p_ in read, f"{f.qualname}:uses:{p_}", f, msg=f"{f.qualname} takes the index argument `{p_}` and does not use it: the answer is the same for every {p_}")
    if n < 20:
        raise AnchorMissing("grid functions with index arguments")
    g = idx.func("armi.utils.hexagon.numRingsToHoldNumCells")
    prm = g.params()[0]
    bad = []
    rr, cap = 1, 1
    for cells in range(1, 6001):
        while cap < cells:
            rr += 1
            cap = 3 * rr * (rr - 1) + 1
        got, _ = MiniEval().run(g.node, {prm: cells})
        if got != rr:
            bad.append((cells, got, rr))
            if len(bad) > 3:
                break
    r.require(not bad, "numRingsToHoldNumCells:smallest-ring-count-that-holds-n", g, msg=f"(cells, rings returned, smallest sufficient) = {bad[:3]}: the minimum number of rings does not hold the cells (or is not minimal)")


def r13_pairing(idx, r):
    from ..pairing import pairing_rule
    pairing_rule(idx, r, ["armi.reactor.grids"], 40)


def r15_bounds_guards_and_polar_axes(idx, r):
    """(a) in a bounds-defined direction a negative index would wrap around to the far end of the bounds array: every `*ByBounds` helper of
    StructuredGrid refuses it - the base of a cell like its centre.  (b) ThetaRZGrid.getCoordinates converts (theta, r, z) to
    (r cos theta, r sin theta, z): x carries the cosine."""
    sg = idx.cls(SG)
    n = 0
    for name, f in sorted(sg.methods.items()):
        if not name.endswith("ByBounds"):
            continue
        n += 1
        ix = f.params()[0]
        guard = [x for x in f.node.body if isinstance(x, ast.If) and norm(x.test) in (f"{ix} < 0", f"0 > {ix}") and any(isinstance(y, ast.Raise) for y in x.body)]
        r.require(bool(guard), f"StructuredGrid.{name}:negative-index-refused", f, msg=f"{name} indexes the bounds with `{ix}` unguarded: a negative index silently answers from the other end of the mesh, while the sibling helpers refuse it")
    if n < 2:
        raise AnchorMissing("StructuredGrid *ByBounds helpers")
    g = idx.method("armi.reactor.grids.thetarz.ThetaRZGrid", "getCoordinates")
    tup = [x for x in ast.walk(g.node) if isinstance(x, ast.Tuple) and len(x.elts) == 3 and any("cos" in norm(e) for e in x.elts)]
    if len(tup) != 1:
        raise AnchorMissing("ThetaRZGrid.getCoordinates: (r cos, r sin, z)")
    r.require("cos" in norm(tup[0].elts[0]) and "sin" in norm(tup[0].elts[1]) and "sin" not in norm(tup[0].elts[0]), "ThetaRZGrid.getCoordinates:x-is-r-cos-theta", g, node=tup[0],
              msg=f"`{norm(tup[0])}`: the Cartesian coordinates of a theta-R-Z cell are mirrored about the 45-degree line")


GRID = "armi.reactor.grids.grid.Grid"
# the accessors of a locator's OWN (local) indices: LocationBase.i/j/k/indices and their slots
LOCAL_INDEX_ACCESSORS = ("indices", "i", "j", "k", "_i", "_j", "_k")


def _parent_frame_grid_methods(idx):
    """{method name: [(FuncInfo, position of the index argument among the call's positional arguments)]} for every method of the
    Grid hierarchy that hands one of its own parameters on to THE SAME method of the parent object's grid
    (`<...>.parent.spatialGrid.m(p)`): such an argument is read in the parent grid's frame."""
    out = {}
    for c in idx.subclasses(idx.cls(GRID), strict=False):
        if ".tests" in c.module.name:
            continue
        for name, f in c.methods.items():
            ps = [p for p in f.params() if p != "self"]
            if not ps:
                continue
            env = single_assign_env(f.node)
            for call in iter_calls(f.node, include_nested=False):
                if call_attr(call) != name or not isinstance(call.func, ast.Attribute):
                    continue
                recv = dotted(propagate(call.func.value, env)) or ""
                parts = recv.split(".")
                if not (parts[0] == "self" and parts[-1] == "spatialGrid" and "parent" in parts):
                    continue
                for pos, a in enumerate(call.args):
                    names = {x.id for x in ast.walk(propagate(a, env)) if isinstance(x, ast.Name)}
                    if names & set(ps):
                        out.setdefault(name, []).append((f, pos))
    return out


def _self_index_frame(e):
    """Which of the locator's own indices does expression `e` (already propagated) carry?  -> (set of {'complete', 'local', 'other'}, text)"""
    kinds = set()

    def visit(n):
        if isinstance(n, ast.Call) and isinstance(n.func, ast.Attribute) and isinstance(n.func.value, ast.Name) and n.func.value.id == "self":
            kinds.add("complete" if n.func.attr == "getCompleteIndices" else "other")
            for x in list(n.args) + [k.value for k in n.keywords]:
                visit(x)
            return
        if isinstance(n, ast.Attribute) and isinstance(n.value, ast.Name) and n.value.id == "self":
            kinds.add("local" if n.attr in LOCAL_INDEX_ACCESSORS else "other")
            return
        if isinstance(n, ast.Subscript) and isinstance(n.value, ast.Name) and n.value.id == "self":
            kinds.add("local")  # LocationBase.__getitem__: (i, j, k, grid)[index]
            visit(n.slice)
            return
        if isinstance(n, ast.Name) and n.id == "self":
            kinds.add("local")  # the locator itself, read through __getitem__ by the grid
            return
        for x in ast.iter_child_nodes(n):
            visit(x)
    visit(e)
    return kinds


def r16_locator_queries_in_parent_frame(idx, r):
    """'Locations in nested grids compose ... (for axial-in-radial nesting only) indices' + 'the maps between cell indices, (ring, position)
    numbering ... and locator objects are mutually inverse': a grid method that passes its index argument on to the same method of the PARENT's
    grid (StructuredGrid.getRingPos: an axial grid knows no rings) has that argument read in the parent grid's frame.  A locator that asks its own
    grid such a question about ITSELF must therefore ask with its complete, parent-composed indices (getCompleteIndices()); its local indices
    are (0, 0, k) in every assembly, i.e. the centre cell of the core.  Decided for every class of the locator hierarchy x every such method."""
    fwd = _parent_frame_grid_methods(idx)
    if not fwd:
        raise AnchorMissing("no grid method forwards an index argument to the parent's grid (StructuredGrid.getRingPos expected)")
    base = idx.cls(LOC + ".LocationBase")
    n = 0
    for c in idx.subclasses(base, strict=False):
        if ".tests" in c.module.name:
            continue
        names = sorted({m for k in c.mro() for m in k.methods})
        for mname in names:
            f = c.resolve(mname)
            env = single_assign_env(f.node)
            for call in iter_calls(f.node, include_nested=False):
                m = call_attr(call)
                if m not in fwd or not isinstance(call.func, ast.Attribute):
                    continue
                if norm(propagate(call.func.value, env)) not in ("self.grid", "self._grid"):
                    continue
                for g, pos in fwd[m]:
                    if pos >= len(call.args):
                        raise AnalysisError(f"{f.qualname}: `{norm(call)[:80]}` has no positional argument {pos} for {g.qualname}")
                    arg = propagate(call.args[pos], env)
                    kinds = _self_index_frame(arg)
                    if not kinds:
                        continue  # indices supplied by the caller, not the locator's own
                    key = f"{c.name}.{mname}->grid.{m}:complete-indices"
                    n += 1
                    if "other" in kinds or kinds == {"complete", "local"}:
                        raise AnalysisError(f"{c.name}.{mname}: index argument `{norm(arg)[:80]}` of self.grid.{m} is neither the locator's local nor its complete indices - not understood")
                    r.require(kinds == {"complete"}, key, f, node=call,
                              msg=f"{c.name}.{mname} asks its grid `{norm(call)[:90]}` with the locator's LOCAL indices, and {g.qualname} passes them on unchanged to the parent's grid, "
                                  f"which reads them in its own frame: the locator (0, 0, k) of a block in the assembly at hex cell (i, j) != (0, 0) is answered with the ring/position "
                                  f"of the centre cell, (1, 1) - only getCompleteIndices() adds the parent's (i, j) (axial-in-radial nesting)")
    if n < 1:
        raise AnchorMissing(f"no locator method asks its own grid for {sorted(fwd)} about itself (IndexLocation.getRingPos expected)")


def run(idx, chk):
    chk.explanation = (
        "C07: hex unit steps extracted as exact matrices over Q(sqrt3)[pitch]; neighbour vectors of length pitch in counter-clockwise 60-degree steps for "
        "both orientations; pitch property; degree-1 homogeneity in the pitch; affine coordinate formulas; nesting of locations; ring-count polynomial "
        "identities; the six edges of indicesToRingPos and its inverse composed as affine maps (identity), ring = hex distance + 1 by vertex evaluation; the "
        "guards of indicesToRingPos evaluated in the sign domain on all 13 faces of the arrangement {i=0, j=0, i+j=0} against the decoder's edges "
        "(exhaustive: the guards are homogeneous); label codec. Floating-point exactness of numRingsToHoldNumCells and Cartesian/theta-RZ ring numbering "
        "are NOT decided."
    )
    chk.undecided_clauses = ["numRingsToHoldNumCells (floating sqrt)", "Cartesian getRingPos arithmetic", "theta-RZ grids"]
    chk.run_rule("R07.1", "hex lattice: six neighbours one pitch away in counter-clockwise 60-degree order, both orientations; pitch property; steps proportional to pitch; changePitch", lambda r: r1_lattice_vectors(idx, r), floor=40,
                 necessary="'the six listed neighbours lie one pitch away in counter-clockwise order'; 'changing the pitch rescales coordinates and nothing else'")
    chk.run_rule("R07.2", "centre/base/top of a cell are the affine (step- or bounds-defined) functions of its indices plus offset", lambda r: r2_affine(idx, r), floor=10, necessary="coordinates are affine functions of indices")
    chk.run_rule("R07.3", "nested locations add the parent's coordinates (same coordinate system) and, for axial-in-radial nesting only, indices", lambda r: r3_nesting(idx, r), floor=12, necessary="locations in nested grids compose")
    chk.run_rule("R07.4", "ring counts are consistent polynomials; the six edges of ring/position <-> indices are mutually inverse affine maps; ring = hex distance + 1", lambda r: r4_ring_pos(idx, r), floor=25,
                 necessary="ring r>1 holds 6(r-1) cells numbered contiguously; maps are mutually inverse")
    chk.run_rule("R07.7", "the region guards of indicesToRingPos select, on each of the 13 sign classes of (i, j, i+j), the edge the decoder puts those cells on", lambda r: r7_tiling(idx, r), floor=13,
                 necessary="the maps are mutually inverse on every cell, including region boundaries")
    chk.run_rule("R07.6", "labels: same separator and field order on both sides, and the separator cannot occur inside a rendered field", lambda r: r6_labels(idx, r), floor=3, necessary="labels and indices are mutually inverse")
    chk.run_rule("R07.8", "theta-R-Z (affine) ring/position numbering: getIndicesFromRingAndPos o getRingPos is the identity", lambda r: r8_affine_ring_pos_pairs(idx, r), floor=1,
                 necessary="'in every grid the maps between cell indices and (ring, position) numbering are mutually inverse'")
    chk.run_rule("R07.9", "Cartesian getMinimumRings is exact for n = 1..300, with and without a centre cell (exhaustive evaluation)", lambda r: r9_minimum_rings(idx, r), floor=4,
                 necessary="'the least number of rings holding n cells is exact'")
    chk.run_rule("R07.10", "reduce() keeps the offset unless all three components are zero (8-pattern truth table)", lambda r: r10_reduce_keeps_offset(idx, r), floor=1,
                 necessary="'a grid rebuilt from its stored constructor arguments gives the same coordinates ... for every index'")
    chk.run_rule("R07.11", "theta-R-Z indicesOfBounds finds the NEAREST mesh line (tolerant of rounding), in the (theta, r) argument order", lambda r: r11_bounds_lookup(idx, r), floor=4,
                 necessary="indices <-> coordinates are mutually inverse for bounds-defined grids given values that equal the bounds up to rounding")
    chk.run_rule("R07.12", "a locator label decodes to the indices it encodes, axial index 0 included (evaluated on 36 labels)", lambda r: r12_label_decoding_evaluated(idx, r), floor=1,
                 necessary="index <-> label conversions are mutually inverse")
    chk.run_rule("R07.13", "arguments stand at the parameter they are named after; sibling calls forward the same pass-through parameters", lambda r: r13_pairing(idx, r), floor=1,
                 necessary="coordinates and indices are handed over in (i, j, k) / (x, y, z) order")
    chk.run_rule("R07.14", "index arguments of grid functions are used; minimum rings for n cells is exact for n = 1..6000 (evaluated)", lambda r: r14_index_arguments_used_and_ring_count(idx, r), floor=20,
                 necessary="ring/position <-> index conversions are mutually inverse for every axial index; a minimum ring count holds its cells")
    chk.run_rule("R07.15", "bounds helpers refuse negative indices alike; theta-R-Z to Cartesian is (r cos, r sin, z)", lambda r: r15_bounds_guards_and_polar_axes(idx, r), floor=3,
                 necessary="cell base, centre and top come from one consistent affine map of the index; conversions are mutually inverse")
    chk.run_rule("R07.16", "a locator that asks its own grid a question the grid passes on to the parent's grid (ring/position) asks with its complete, parent-composed indices",
                 lambda r: r16_locator_queries_in_parent_frame(idx, r), floor=3,
                 necessary="'locations in nested grids compose by adding ... (for axial-in-radial nesting only) indices'; cell indices <-> (ring, position) <-> locator objects are "
                           "mutually inverse for locators of nested grids: a block locator's ring/position is that of the radial cell it sits in")
