"""C10 - XS libraries merge losslessly; macroscopic data are density-weighted sums: conflict
detection before mutation, write-once properties, no silent overwrite, linearity (role typing)
of the macroscopic sums, derived quantities equal to their defining sums, one composition used
throughout.  Structural necessary conditions only (DESIGN.md section 3, C10)."""
from __future__ import annotations

import ast

from ..astutil import call_attr, get_arg, iter_calls, iter_stores, propagate, single_assign_env, walk_local
from ..flow import Flow, always_exits, path_conditions
from ..index import AnalysisError, AnchorMissing, dotted, norm
from ..units import LIT, ONE, TOP, ZERO, Law, U, analyze, known

LIBS = "armi.nuclearDataIO.xsLibraries"
XSC = "armi.nuclearDataIO.xsCollections"
META = "armi.nuclearDataIO.nuclearFileMetadata"
PROPS = "armi.utils.properties"

N = U("N")
SIG = U("sig")
MULT = U("mult")


def r1_check_before_mutate(idx, r):
    md = idx.method(META + "._Metadata", "merge")
    bad = [s for s in iter_stores(md.node) if s.chain and (s.chain == "self" or s.chain.startswith("self.") or s.chain == "other" or s.chain.startswith("other."))]
    r.require(not bad, "_Metadata.merge:pure", md, node=bad[0].stmt if bad else None, msg="merging metadata must build a fresh object and never write into either input")
    fresh = any(isinstance(s.value, ast.Call) and norm(s.value) == "self.__class__()" for s in iter_stores(md.node) if s.attr == "mergedData")
    rets = [norm(n.value) for n in walk_local(md.node) if isinstance(n, ast.Return)]
    r.require(fresh and set(rets) == {"mergedData"}, "_Metadata.merge:fresh-result", md, msg="the merged metadata is a new instance")
    # the raise sits on the path where the two values are NOT equal (whichever way the if/else is written)
    rz = [n for n in walk_local(md.node) if isinstance(n, ast.Raise)]
    pol = None
    for x in rz:
        for t, pos in path_conditions(md.node, x):
            tt = t.operand if isinstance(t, ast.UnaryOp) and isinstance(t.op, ast.Not) else t
            if "numpyHackForEqual(selfVal, otherVal)" in norm(tt):
                pol = pos if tt is t else not pos
    r.require(pol is False, "_Metadata.merge:conflict-raises", md, node=rz[0] if rz else None, msg="differing values of a shared key must raise")
    loop = next((n for n in md.node.body if isinstance(n, ast.For)), None)
    r.require(loop is not None and norm(loop.iter) == "set(list(self.keys()) + list(other.keys())) - skippedKeys", "_Metadata.merge:all-keys", md, node=loop, msg="every key of either side (minus the documented skipped ones) is compared")
    xm = idx.method(XSC + ".XSCollection", "merge")
    sts = [s for s in iter_stores(xm.node) if (s.chain or "").startswith("self")]
    okx = len(sts) == 1 and sts[0].kind == "mutcall" and norm(sts[0].stmt) == "self.__dict__.update(other.__dict__)"
    if okx:
        condn = [t for t, p in path_conditions(xm.node, sts[0].stmt) if p]
        okx = len(condn) == 1

        def emptiness_of_self(t):
            """all(v is None ... self.__dict__.items() ...) directly, or through a local one-return helper applied to self"""
            if isinstance(t, ast.Call) and dotted(t.func) == "all" and "self.__dict__.items()" in norm(t) and "is None" in norm(t):
                return True
            if isinstance(t, ast.Call) and isinstance(t.func, ast.Name) and len(t.args) == 1 and norm(t.args[0]) == "self":
                h = next((x for x in xm.node.body if isinstance(x, ast.FunctionDef) and x.name == t.func.id), None)
                if h is not None and h.args.args:
                    rets = [x for x in ast.walk(h) if isinstance(x, ast.Return) and x.value is not None]
                    return len(rets) == 1 and isinstance(rets[0].value, ast.Call) and dotted(rets[0].value.func) == "all" and f"{h.args.args[0].arg}.__dict__.items()" in norm(rets[0].value) and "is None" in norm(rets[0].value)
            return False
        okx = okx and emptiness_of_self(condn[0])
    r.require(okx, "XSCollection.merge:only-into-empty", xm, msg="cross sections may be copied into the target only when the target holds none; overlapping data must raise")
    r.require(any(isinstance(n, ast.Raise) for n in walk_local(xm.node)), "XSCollection.merge:overlap-raises", xm, msg="two sources of the same kind of data for one nuclide must raise")
    # library merge: direct attribute stores only after every step that can refuse
    lm = idx.method(LIBS + ".IsotxsLibrary", "merge")
    may_raise = [c for c in iter_calls(lm.node) if dotted(c.func) in ("self._mergeProperties", "self._mergeMetadata", "self._mergeNuclides")]
    if len(may_raise) < 3:
        raise AnalysisError("IsotxsLibrary.merge: merge steps not found")
    last = max(c.lineno for c in may_raise)
    direct = [s for s in iter_stores(lm.node) if s.kind == "assign" and (s.chain or "").startswith("self.")]
    for s in direct:
        r.require(s.stmt.lineno > last, f"IsotxsLibrary.merge:store-after-checks:{s.attr}", lm, node=s.stmt,
                  msg=f"`{norm(s.stmt)}` is assigned before the last step that can reject the merge: a rejected merge leaves the target's {s.attr} changed (e.g. listing a file that was refused)")
    wipe = next((s for s in iter_stores(lm.node) if norm(s.stmt) == "other.__dict__ = {}"), None)
    r.require(wipe is None or wipe.stmt.lineno > last, "IsotxsLibrary.merge:other-wiped-last", lm, node=wipe.stmt if wipe else None, msg="the source library may only be emptied after the merge succeeded")
    mm = idx.method(LIBS + ".IsotxsLibrary", "_mergeMetadata")
    r.require(not [s for s in iter_stores(mm.node) if (s.chain or "").startswith("self.")], "_mergeMetadata:pure", mm, msg="_mergeMetadata must only compute the merged metadata")


def r1b_atomic(idx, r):
    """Known-finding rule: mutating merge steps run before later steps that can still refuse."""
    lm = idx.method(LIBS + ".IsotxsLibrary", "merge")
    seq = [(c.lineno, dotted(c.func)) for c in iter_calls(lm.node) if dotted(c.func) in ("self._mergeProperties", "self._mergeMetadata", "self._mergeNuclides")]
    seq.sort()
    names = [n for _, n in seq]
    mutating = {"self._mergeProperties": "assigns the target's group structures and dose factors", "self._mergeNuclides": "merges/inserts nuclides one by one"}
    for i, nme in enumerate(names):
        if nme in mutating:
            later = [x for x in names[i + 1:]] + ([nme] if nme == "self._mergeNuclides" else [])
            r.require(not later, f"IsotxsLibrary.merge:{nme.split('.')[-1]}-not-atomic", lm,
                      msg=f"{nme} {mutating[nme]} while {'a later nuclide of the same loop' if nme == 'self._mergeNuclides' else ', '.join(later)} can still reject the merge: a rejected merge does not leave the target unchanged")
    xn = idx.method("armi.nuclearDataIO.xsNuclides.XSNuclide", "merge")
    first_store = min((s.stmt.lineno for s in iter_stores(xn.node) if (s.chain or "").startswith("self.")), default=None)
    last_raise = max((c.lineno for c in iter_calls(xn.node) if call_attr(c) in ("merge", "_mergeAttributes")), default=None)
    r.require(first_store is None or last_raise is None or first_store > last_raise, "XSNuclide.merge:not-atomic", xn, msg="nuclide metadata and data are assigned while later parts of the same nuclide can still conflict")


def r2_write_once(idx, r):
    cp = idx.func(PROPS + ".createImmutableProperty")
    setter = next((n for n in cp.node.body if isinstance(n, ast.FunctionDef) and n.name == "_setter"), None)
    if setter is None:
        raise AnchorMissing("createImmutableProperty._setter")
    rs = [n for n in walk_local(setter) if isinstance(n, ast.Raise)]
    okr = len(rs) == 1 and [(norm(t), p) for t, p in path_conditions(setter, rs[0])] == [("hasattr(self, privateName)", True), ("currentVal is None or value is None", False), ("numpyHackForEqual(currentVal, value)", False)]
    r.require(okr, "immutable-setter:conflict-raises", cp, node=rs[0] if rs else None, msg="setting a different value over an existing one must raise")
    keep = next((c for c in walk_local(setter) if isinstance(c, ast.Call) and dotted(c.func) == "setattr" and isinstance(c.args[2], ast.IfExp)), None)
    r.require(keep is not None and norm(keep.args[2]) == "value if currentVal is None else currentVal", "immutable-setter:keeps-existing", cp, node=keep, msg="an existing value is kept; only an unset one is filled")
    lib = idx.cls(LIBS + ".IsotxsLibrary")
    decl = {}
    for c in lib.mro():
        for k, v in c.attrs.items():
            if isinstance(v, ast.Call) and dotted(v.func) in ("properties.createImmutableProperty", "createImmutableProperty"):
                decl[k] = v
    need = {"neutronEnergyUpperBounds", "gammaEnergyUpperBounds", "neutronDoseConversionFactors", "gammaDoseConversionFactors"}
    r.require(need <= set(decl), "library-group-structures-are-write-once", (lib.module.relpath, lib.node.lineno, lib.name), msg=f"group structures and dose factors must be write-once properties; missing {sorted(need - set(decl))}")
    for k, v in decl.items():
        r.require(isinstance(v.args[0], ast.Constant) and v.args[0].value == k, f"immutable-name:{k}", (lib.module.relpath, v.lineno, lib.name), msg=f"property {k} is backed by storage named {norm(v.args[0])}")
    mp = lib.resolve("_mergeProperties")
    assigned = {s.attr for s in iter_stores(mp.node) if s.chain and s.chain.startswith("self.")} | {"neutronEnergyUpperBounds" for c in iter_calls(mp.node) if dotted(c.func) == "self._mergeNeutronEnergies"}
    r.require(need <= assigned, "_mergeProperties:through-properties", mp, msg=f"merge must assign group structures through the write-once properties (so that conflicts raise): assigns {sorted(assigned)}")
    srcs = {s.attr: norm(s.value) for s in iter_stores(mp.node) if s.chain and s.chain.startswith("self.")}
    r.require(all(v == f"other.{k}" for k, v in srcs.items()), "_mergeProperties:same-attribute", mp, msg=f"each property must be merged from the same-named property of the other library: {srcs}")
    tr = next((n for n in walk_local(mp.node) if isinstance(n, ast.Try)), None)
    r.require(tr is not None and any(dotted(c.func) == "properties.lockImmutableProperties" for s in tr.finalbody for c in iter_calls(ast.Module(body=[s], type_ignores=[]))), "_mergeProperties:relocks", mp, msg="the other library must be re-locked even when the merge raises")


def r3_no_overwrite(idx, r):
    si = idx.method(LIBS + "._XSLibrary", "__setitem__")

    def ev(n):
        if isinstance(n, ast.If) and norm(n.test) == "key in self._orderedNuclideLabels" and always_exits(n.body) and any(isinstance(x, ast.Raise) for x in n.body):
            return ["checked"]
        return []
    fl = Flow(si.node, ev).run()
    ap = next((c for c in iter_calls(si.node) if norm(c.func) == "self._orderedNuclideLabels.append"), None)
    r.require(ap is not None and (fl.state_before(ap) or {}).get("checked", (0, 0))[0] >= 1, "__setitem__:existing-label-refused", si, node=ap, msg="adding a nuclide label that already exists must raise before anything is appended")
    mn = idx.method(LIBS + ".IsotxsLibrary", "_mergeNuclides")
    loop = next((n for n in mn.node.body if isinstance(n, ast.For)), None)
    ok = loop is not None and norm(loop.iter) == "other.items()" and len(loop.body) == 1 and isinstance(loop.body[0], ast.If)
    if ok:
        b = loop.body[0]
        k, v = (norm(e) for e in loop.target.elts)
        ok = norm(b.test) == f"{k} in self" and norm(b.body[0]) == f"self[{k}].merge({v})" and norm(b.orelse[0]) == f"self[{k}] = {v}"
    r.require(ok, "_mergeNuclides:merge-or-insert", mn, node=loop, msg="each nuclide of the other library is merged into its namesake (which raises on overlap) or inserted; never replaced")
    ma = idx.func("armi.nuclearDataIO.xsNuclides._mergeAttributes")
    rs = [n for n in walk_local(ma.node) if isinstance(n, ast.Raise)]
    txt = norm(ma.node)
    r.require(len(rs) >= 1 and "is not None" in txt, "_mergeAttributes:both-set-raises", ma, msg="an attribute set on both nuclides must raise")
    rets = [norm(n.value) for n in walk_local(ma.node) if isinstance(n, ast.Return)]
    r.require(len(rets) >= 1, "_mergeAttributes:returns-value", ma, msg="the surviving value is returned")
    xn = idx.method("armi.nuclearDataIO.xsNuclides.XSNuclide", "merge")
    attrs = [(s.attr, norm(s.value)) for s in iter_stores(xn.node) if isinstance(s.value, ast.Call) and dotted(s.value.func) == "_mergeAttributes"]
    r.require(len(attrs) >= 5 and all(v == f"_mergeAttributes(self, other, '{k}')" for k, v in attrs), "XSNuclide.merge:attributes", xn, msg=f"each production/heating attribute is merged from its namesake: {attrs}")
    metas = [(s.attr, norm(s.value)) for s in iter_stores(xn.node) if s.attr.endswith("Metadata")]
    okm = len(metas) == 3 and all(v.startswith(f"self.{k}.merge(other.{k}, self, other, ") for k, v in metas)
    r.require(okm, "XSNuclide.merge:metadata", xn, msg=f"each metadata block is merged with its namesake: {metas}")
    cal = [norm(c) for c in iter_calls(xn.node) if call_attr(c) == "merge" and "Metadata" not in norm(c)]
    r.require(sorted(cal) == ["self.gammaXS.merge(other.gammaXS)", "self.micros.merge(other.micros)"], "XSNuclide.merge:collections", xn, msg=f"neutron and gamma collections are merged with their namesakes: {cal}")


def r6_symmetric_fixups(idx, r):
    """Per-nuclide fix-ups done while merging metadata treat both libraries alike (merge order independence)."""
    base = idx.cls(META + "._Metadata")
    n = 0
    for c in [base] + idx.subclasses(base):
        for meth in ("_getSkippedKeys", "_mergeLibrarySpecificData"):
            f = c.methods.get(meth)
            if f is None:
                continue
            for x in walk_local(f.node):
                its = [x.iter] if isinstance(x, ast.For) else ([g.iter for g in x.generators] if isinstance(x, (ast.ListComp, ast.GeneratorExp, ast.SetComp, ast.DictComp)) else [])
                for it in its:
                    t = norm(it)
                    if "selfContainer" in t or "otherContainer" in t:
                        n += 1
                        r.require("selfContainer" in t and "otherContainer" in t, f"{c.name}.{meth}:both-sides:{t[:50]}", f, node=it,
                                  msg=f"`{t}` visits the nuclides of one library only: the merged result then depends on which library was the target (merge order)")
            for tst in [x for x in walk_local(f.node) if isinstance(x, ast.If)]:
                t = norm(tst.test)
                if ("self[" in t) != ("other[" in t) and ("self[" in t or "other[" in t):
                    r.violate(f"{c.name}.{meth}:one-sided-test:{t[:50]}", f, f"`{t}` looks at one side only", node=tst.test)
    if n < 1:
        raise AnalysisError("no per-nuclide fix-up found in metadata merges")
    # "use the first one": a datum taken from whichever library brings it first must treat a library that brings None (a gamma
    # library has no neutron velocity) as not bringing it - a test for the mere existence of the private attribute is satisfied
    # by that None, after which the real value of a later library is ignored: the result depends on merge order
    xl = idx.module("armi.nuclearDataIO.xsLibraries")
    for f in xl.all_funcs():
        for g in [x for x in walk_local(f.node) if isinstance(x, ast.If)]:
            calls = [c for c in ast.walk(g.test) if isinstance(c, ast.Call) and dotted(c.func) == "hasattr" and len(c.args) == 2 and isinstance(c.args[1], ast.Constant)]
            if not calls:
                continue
            priv = calls[0].args[1].value
            takes = [x for x in ast.walk(ast.Module(body=g.body + g.orelse, type_ignores=[])) if isinstance(x, ast.Assign) and isinstance(x.targets[0], ast.Attribute)
                     and x.targets[0].attr == priv.lstrip("_") and isinstance(x.value, ast.Attribute) and dotted(x.value.value) not in (None, "self")]
            for tk in takes:
                r.violate(f"{f.qualname}:first-wins:{priv}", f, f"`{norm(g.test)}` decides whether `{norm(tk)}` runs by the EXISTENCE of `{priv}`; a library merged earlier that carries None for it "
                          "(gamma-only libraries) makes the attribute exist, so the value of every later library is dropped: the merged library differs with merge order", node=g.test)


def _macro_law(names=None):
    return Law(
        methods={"_getMicroGroupConstants": SIG, "_getXsMultiplier": MULT, "getNuclide": TOP, "getNuclides": TOP, "getNumberDensities": N, "getMicroSuffix": TOP},
        attrs={"microCollection.elasticScatter": SIG, "microCollection.inelasticScatter": SIG, "microCollection.n2nScatter": SIG, "nucMicroXS.fission": SIG,
               "nucMicroXS.neutronsPerFission": ONE, "nucMicroXS.chi": U("chi")},
        attr_suffix={".name": TOP, ".micros": TOP, ".numGroups": ONE, ".shape": ONE},
        names=names or {},
    )


def r4_linearity(idx, r):
    f = idx.func(XSC + ".computeMacroscopicGroupConstants")
    ev = analyze(f.node, _macro_law({"numberDensities": N}))
    if ev.conflicts:
        node, a, b, what = ev.conflicts[0]
        r.violate("computeMacroscopicGroupConstants", f, f"`{norm(node)[:80]}` adds {a} to {b}: terms of the macroscopic sum are not all (density x micro x multiplier)", node=node)
    else:
        u = ev.flat(ev.env.get("macroGroupConstants", TOP))
        r.require(known(u) and u == N * SIG * MULT, "computeMacroscopicGroupConstants", f, msg=f"each accumulated term must be linear in the density and in the microscopic datum (x multiplier): accumulator has {u}")
    acc = [n for n in walk_local(f.node) if isinstance(n, ast.AugAssign) and norm(n.target) == "macroGroupConstants"]
    r.require(len(acc) == 1 and isinstance(acc[0].op, ast.Add), "computeMacroscopicGroupConstants:additive", f, msg="the macroscopic constant is accumulated additively over nuclides")
    loop = next((n for n in f.node.body if isinstance(n, ast.For)), None)
    r.require(loop is not None and "numberDensities.items()" in norm(loop.iter), "computeMacroscopicGroupConstants:over-composition", f, node=loop, msg="the sum runs over exactly the given composition")
    skip = next((n for n in loop.body if isinstance(n, ast.If) and norm(n.test) == "not numberDensity"), None)
    r.require(skip is not None and isinstance(skip.body[0], ast.Continue), "computeMacroscopicGroupConstants:zero-density-skipped", f, msg="nuclides with zero density contribute nothing")
    # scatter matrices: linear in the SAME composition as the basic cross sections
    cs = idx.method(XSC + ".MacroscopicCrossSectionCreator", "_convertScatterMatrices")
    ev = analyze(cs.node, _macro_law({"self.densities": N}))
    nd = [s for s in iter_stores(cs.node) if s.attr == "nDens"]
    r.require(len(nd) == 1 and norm(nd[0].value) == "self.densities.get(nuclide.name, 0.0)", "_convertScatterMatrices:composition", cs, node=nd[0].stmt if nd else None,
              msg="scatter matrices must be weighted with the creator's own (filtered) composition self.densities, the one every other macroscopic datum uses")
    augs = [n for n in walk_local(cs.node) if isinstance(n, ast.AugAssign)]
    okl = len(augs) == 3 and not ev.conflicts
    for a in augs:
        nm = norm(a.target).split(".")[-1]
        okl = okl and isinstance(a.op, ast.Add) and norm(a.value) in (f"microCollection.{nm} * nDens", f"nDens * microCollection.{nm}")
    r.require(okl, "_convertScatterMatrices:linear", cs, msg="each scatter matrix accumulates micro(matrix) x density of the same kind")
    cb = idx.method(XSC + ".MacroscopicCrossSectionCreator", "_convertBasicXS")
    txt = norm(cb.node)
    r.require("self.densities" in txt and "computeMacroscopicGroupConstants" in txt, "_convertBasicXS:composition", cb, msg="basic cross sections are computed from self.densities")
    cm = idx.method(XSC + ".MacroscopicCrossSectionCreator", "createMacrosFromMicros")
    dn = [s for s in iter_stores(cm.node) if s.chain == "self.densities"]
    r.require(len(dn) == 1 and "block.getNuclideNumberDensities(nucNames)" in norm(dn[0].value) and "zip(nucNames" in norm(dn[0].value), "createMacrosFromMicros:composition", cm, msg="the composition is the block's densities of the requested nuclides")
    # chi average
    ch = idx.func(XSC + ".computeBlockAverageChi")
    ev = analyze(ch.node, _macro_law())
    okc = not ev.conflicts
    rets = [ev.flat(u) for st, u in ev.returns if ev.flat(u) != ZERO]
    okc = okc and rets and all(known(u) and u == U("chi") for u in rets)
    r.require(bool(okc), "computeBlockAverageChi", ch, msg=f"average chi must be normalised by the same density x nu-fission weights it is summed with: returns {rets}, conflicts {[(norm(c[0])[:40], c[1], c[2]) for c in ev.conflicts]}")


def r5_derived(idx, r):
    m = idx.module(XSC)
    absx = idx.fold(m, m.consts["ABSORPTION_XS"])
    ga = idx.method(XSC + ".XSCollection", "getAbsorptionXS")
    from ..astutil import returned_values
    lst = next((v for v, _ in returned_values(ga.node) if isinstance(v, ast.List)), None) or next((s.value for s in iter_stores(ga.node) if isinstance(s.value, ast.List)), None)
    got = [e.attr for e in lst.elts if isinstance(e, ast.Attribute) and norm(e.value) == "self"] if lst is not None else []
    r.require(sorted(got) == sorted(absx) and len(got) == len(set(got)), "absorption-members", ga, msg=f"getAbsorptionXS must list exactly the members of ABSORPTION_XS {sorted(absx)}: {sorted(got)}")
    ca = idx.method(XSC + ".MacroscopicCrossSectionCreator", "_computeAbsorptionXS")
    loop = next((n for n in ca.node.body if isinstance(n, ast.For)), None)
    ok = loop is not None and norm(loop.iter) == "self.macros.getAbsorptionXS()" and len(loop.body) == 1 and norm(loop.body[0]) == f"self.macros.absorption += {norm(loop.target)}"
    r.require(ok, "absorption-is-sum", ca, msg="absorption = sum of the absorption members")
    rm = idx.method(XSC + ".MacroscopicCrossSectionCreator", "_computeRemovalXS")
    env = single_assign_env(rm.node)
    sts = [norm(s) for s in rm.node.body if isinstance(s, (ast.Assign, ast.AugAssign)) and "removal" in norm(s)]
    want = ["self.macros.removal = self.macros.absorption - self.macros.n2n", "self.macros.removal += columnSum - diags"]
    okr = sts == want and norm(env.get("columnSum", ast.Constant(0))) == "self.macros.totalScatter.sum(axis=0).getA1()" and norm(env.get("diags", ast.Constant(0))) == "self.macros.totalScatter.diagonal()"
    r.require(okr, "removal-definition", rm, msg=f"removal = absorption - n2n + (column sums of total scatter - diagonal): {sts}")
    ts = idx.method(XSC + ".XSCollection", "getTotalScatterMatrix")
    d = next((s.value for s in iter_stores(ts.node) if isinstance(s.value, ast.Dict)), None)
    def unguarded(v):
        """`None if x is None else e` / `e if x is not None else None`  ->  e"""
        if isinstance(v, ast.IfExp) and " is " in norm(v.test) and "None" in norm(v.test):
            return v.orelse if norm(v.body) == "None" else (v.body if norm(v.orelse) == "None" else v)
        return v
    vals = sorted(norm(unguarded(v)) for v in d.values) if d is not None else []
    r.require(vals == ["self.elasticScatter", "self.inelasticScatter", "self.n2nScatter * 2.0"], "total-scatter-members", ts, msg=f"total scatter = elastic + inelastic + 2 x n2n: {vals}")
    rets = [norm(n.value) for n in walk_local(ts.node) if isinstance(n, ast.Return)]
    r.require(rets == ["sum(scatters)"], "total-scatter-is-sum", ts, msg="total scatter is the sum of the available members")
    bs = idx.fold(m, m.consts["BASIC_SCAT_MATRIX"])
    r.require(sorted(bs) == ["elasticScatter", "inelasticScatter", "n2nScatter"], "BASIC_SCAT_MATRIX", (m.relpath, m.consts["BASIC_SCAT_MATRIX"].lineno), msg=f"basic scatter matrices: {bs}")
    seq = [dotted(c.func) for c in iter_calls(idx.method(XSC + ".MacroscopicCrossSectionCreator", "createMacrosFromMicros").node) if (dotted(c.func) or "").startswith("self._")]
    want_order = ["self._initializeMacros", "self._convertBasicXS", "self._computeAbsorptionXS", "self._convertScatterMatrices", "self._computeDiffusionConstants", "self._buildTotalScatterMatrix", "self._computeRemovalXS"]
    r.require(seq == want_order, "derivation-order", idx.method(XSC + ".MacroscopicCrossSectionCreator", "createMacrosFromMicros"), msg=f"derived quantities must be computed after their inputs: {seq}")


def r7_equality_helper(idx, r):
    """Conflicts between libraries (group structures, metadata) are detected with utils.properties.numpyHackForEqual.
    For arrays its verdict must be 'no element differs'. Decided by a truth table: the returned expression is evaluated
    for every pattern of element-wise inequality of two-element arrays."""
    import itertools

    f = idx.func("armi.utils.properties.numpyHackForEqual")
    if f is None:
        raise AnchorMissing("armi.utils.properties.numpyHackForEqual")
    ne = [st for st in walk_local(f.node) if isinstance(st, ast.Assign) and isinstance(st.value, ast.Compare) and isinstance(st.value.ops[0], ast.NotEq) and isinstance(st.targets[0], ast.Name)]
    if len(ne) != 1:
        raise AnalysisError("numpyHackForEqual: expected one `x = val1 != val2`")
    var = ne[0].targets[0].id
    rets = [x for n in walk_local(f.node) if isinstance(n, ast.ExceptHandler) for x in ast.walk(n) if isinstance(x, ast.Return)]
    if not rets:
        raise AnchorMissing("numpyHackForEqual: array branch (except handler) return")

    def ev(e, bits):
        if isinstance(e, ast.UnaryOp) and isinstance(e.op, ast.Not):
            return not ev(e.operand, bits)
        if isinstance(e, ast.UnaryOp) and isinstance(e.op, ast.Invert):
            v = ev(e.operand, bits)
            return tuple(not b for b in v)
        if isinstance(e, ast.Name) and e.id == var:
            return bits
        if isinstance(e, ast.Call):
            d = dotted(e.func) or ""
            tgt = None
            if isinstance(e.func, ast.Attribute) and e.func.attr in ("any", "all") and not e.args:
                tgt, how = ev(e.func.value, bits), e.func.attr
            elif d in ("np.any", "np.all", "any", "all") and len(e.args) == 1:
                tgt, how = ev(e.args[0], bits), d.split(".")[-1]
            if isinstance(tgt, tuple):
                return any(tgt) if how == "any" else all(tgt)
        raise AnalysisError(f"numpyHackForEqual: `{norm(e)[:60]}` outside the truth-table fragment")

    for ret in rets:
        table = {bits: ev(ret.value, bits) for bits in itertools.product((False, True), repeat=2)}
        wrong = [bits for bits, v in table.items() if v != (not any(bits))]
        r.require(not wrong, f"array-verdict:{norm(ret.value)[:40]}", f, node=ret,
                  msg=f"`{norm(ret)}` calls two arrays equal when the element-wise inequality pattern is {wrong[0] if wrong else ''}: "
                      "group structures that differ in some but not all bounds are then accepted as identical and merged")


def r8_suffix_selection(idx, r):
    """The nuclides of one composition are selected by cross-section ID: the ID is compared with the SUFFIX field of a
    label (getSuffixFromNuclideLabel / a slice from the end), never with the whole label, whose name part can contain the
    same two letters (NA23AA for ID 'NA')."""
    f = idx.method("armi.nuclearDataIO.xsLibraries.IsotxsLibrary", "getNuclides")
    if f is None:
        raise AnchorMissing("IsotxsLibrary.getNuclides")
    suf = [p for p in f.params() if p != "self"][0]
    tests = [n for n in ast.walk(f.node) if isinstance(n, ast.Compare) and isinstance(n.ops[0], (ast.In, ast.Eq)) and isinstance(n.left, ast.Name) and n.left.id == suf]
    if not tests:
        raise AnchorMissing("getNuclides: comparison of the suffix with a label")
    for t in tests:
        rhs = t.comparators[0]
        field = (isinstance(rhs, ast.Call) and "Suffix" in (dotted(rhs.func) or "")) or (isinstance(rhs, ast.Subscript) and isinstance(rhs.slice, ast.Slice) and rhs.slice.lower is not None and isinstance(rhs.slice.lower, ast.UnaryOp))
        r.require(field, f"getNuclides:{norm(t)[:50]}", f, node=t,
                  msg=f"`{norm(t)}` matches the cross-section ID against `{norm(rhs)[:40]}`, not against the label's suffix field: nuclides of OTHER IDs whose name contains "
                      "the two letters are added to this composition's macroscopic sums")


def r9_unconditional_structure_check(idx, r):
    """(a) Group structures are write-once properties: ASSIGNING the other library's bounds is what rejects a different
    structure. In _mergeNeutronEnergies / _mergeGammaEnergies (any helper that assigns an energy-bounds property from
    `other`) that assignment must happen on every path, not only the first time something else was unset.
    (b) The MPI and the serial branch of MacroXSGenerator.invokeHook are siblings: both must hand the same keyword
    arguments (libType!) to createMacrosFromMicros."""
    m = idx.module("armi.nuclearDataIO.xsLibraries")
    n = 0
    for f in m.all_funcs():
        sts = [x for x in walk_local(f.node) if isinstance(x, ast.Assign) and isinstance(x.targets[0], ast.Attribute) and dotted(x.targets[0].value) == "self"
               and "EnergyUpperBounds" in x.targets[0].attr and isinstance(x.value, ast.Attribute) and dotted(x.value.value) not in (None, "self")]
        for st_ in sts:
            n += 1
            conds = [(norm(t), pol) for t, pol in path_conditions(f.node, st_)]
            r.require(not conds, f"{f.qualname}:{st_.targets[0].attr}:assigned-unconditionally", f, node=st_,
                      msg=f"`{norm(st_)}` runs only when {conds}: on the other paths a library with a different group structure is merged without the write-once "
                          "property ever comparing the two structures")
    if n < 2:
        raise AnalysisError(f"only {n} group-structure assignments from the other library found")
    g = idx.method("armi.physics.neutronics.macroXSGenerationInterface.MacroXSGenerator", "invokeHook")
    if g is None:
        raise AnchorMissing("MacroXSGenerator.invokeHook")
    calls = [c for c in iter_calls(g.node) if call_attr(c) == "createMacrosFromMicros"]
    if len(calls) < 2:
        raise AnalysisError("invokeHook: the MPI and serial calls of createMacrosFromMicros were not both found")
    kws = [tuple(sorted((k.arg, norm(k.value)) for k in c.keywords)) for c in calls]
    for c, kw in zip(calls, kws):
        r.require(kw == max(kws, key=len) and len(set(kws)) == 1, f"invokeHook:sibling-call:{norm(c)[:50]}", g, node=c,
                  msg=f"the sibling branches call createMacrosFromMicros with different keywords {sorted(set(kws))}: in one of them the requested library type falls back to the "
                      "default and gamma macroscopic data are built from neutron microscopic data")


MUTATORS = ("extend", "append", "insert", "update", "add", "remove", "pop", "clear", "sort", "reverse", "setdefault")


def r10_merge_builds_fresh(idx, r):
    """A merge computes its result in a NEW object (`mergedData`) so that a conflict found later leaves the target untouched.  Binding an
    attribute of the result to one of self's / other's own mutable containers and then changing it in place (`+=`, extend, update ...)
    changes the source library before the checks have run."""
    n = 0
    for mname in (META, LIBS, XSC):
        m = idx.modules.get(mname)
        if m is None:
            raise AnchorMissing(mname)
        mutable_attrs = set()
        for f in m.all_funcs():
            if f.name == "__init__":
                for s_ in iter_stores(f.node):
                    if s_.chain and s_.chain.startswith("self.") and isinstance(s_.value, (ast.List, ast.Dict, ast.Set, ast.ListComp, ast.DictComp)) or \
                            (s_.chain and s_.chain.startswith("self.") and isinstance(s_.value, ast.Call) and dotted(s_.value.func) in ("list", "dict", "set", "collections.OrderedDict", "OrderedDict")):
                        mutable_attrs.add(s_.attr)
        for f in m.all_funcs():
            ps = set(f.params())
            binds = [s_ for s_ in iter_stores(f.node) if s_.kind == "assign" and isinstance(s_.node, ast.Attribute) and isinstance(s_.value, ast.Attribute)
                     and isinstance(s_.value.value, ast.Name) and s_.value.value.id in ps and s_.value.attr in mutable_attrs and norm(s_.node) != norm(s_.value)]
            for b in binds:
                n += 1
                tgt = norm(b.node)
                later = []
                for nd in walk_local(f.node):
                    if getattr(nd, "lineno", 0) <= b.stmt.lineno:
                        continue
                    if isinstance(nd, ast.AugAssign) and norm(nd.target) == tgt:
                        later.append(nd)
                    if isinstance(nd, ast.Call) and call_attr(nd) in MUTATORS and isinstance(nd.func, ast.Attribute) and norm(nd.func.value) == tgt:
                        later.append(nd)
                r.require(not later, f"{f.qualname}:{tgt}:no-in-place-change-of-a-borrowed-container", f, node=later[0] if later else b.stmt,
                          msg=f"`{norm(b.stmt)}` makes `{tgt}` the very object `{norm(b.value)}`, and `{norm(later[0])[:60] if later else ''}` then changes it in place: the source's own "
                              "container is modified before (and even if) the merge is rejected")
    md = idx.method(META + ".FileMetadata", "_mergeLibrarySpecificData")
    st_ = [s_ for s_ in iter_stores(md.node) if s_.attr == "fileNames"]
    if not st_:
        raise AnchorMissing("FileMetadata._mergeLibrarySpecificData: mergedData.fileNames")
    v = st_[0].value
    allv = " ".join(norm(x.value) for x in st_ if x.value is not None)
    r.require("self.fileNames" in allv and f"{md.params()[1]}.fileNames" in allv and not any(isinstance(x.value, ast.Attribute) and x.kind == "assign" for x in st_),
              "FileMetadata:fileNames-from-both-sources-in-a-new-list", md, node=st_[0].stmt, msg="the merged file-name list is a new list holding self's names and the other's")


def r11_optional_data_attributes(idx, r):
    """(a) XSCollection.merge decides 'nothing assigned yet' by looking at the collection's attributes; the attributes it leaves out of that
    test must be bookkeeping only - leaving out a DATA attribute (one listed in ALL_COLLECTION_DATA) makes a collection holding only that
    datum look empty, and the merge silently drops or overwrites it.  (b) the optional scattering matrices (None when the library does not
    carry them) take part in arithmetic only behind their own None test: `None * 2.0` raises before the documented skip can happen."""
    m = idx.module(XSC)
    mg = idx.method(XSC + ".XSCollection", "merge")
    ign = next((s_ for s_ in iter_stores(mg.node) if s_.attr == "attributesToIgnore" and isinstance(s_.value, (ast.List, ast.Tuple, ast.Set))), None)
    if ign is None:
        raise AnchorMissing("XSCollection.merge: attributesToIgnore = [...]")
    data = idx.fold(m, m.consts["ALL_COLLECTION_DATA"])
    if not isinstance(data, (list, tuple)) or len(data) < 15:
        raise AnalysisError("ALL_COLLECTION_DATA does not fold to the list of data attributes")
    ignored = [idx.fold(m, e) for e in ign.value.elts]
    bad = [a for a in ignored if a in data]
    r.require(not bad, "merge:emptiness-test-covers-every-data-attribute", mg, node=ign.stmt,
              msg=f"merge() leaves the data attribute(s) {bad} out of its 'is anything assigned' tests: a collection that holds only {bad} counts as empty - its data are replaced by the other "
                  "collection's (or the other's are discarded) without any error")
    gt = idx.method(XSC + ".XSCollection", "getTotalScatterMatrix")
    n = 0
    for x in walk_local(gt.node):
        if isinstance(x, ast.BinOp):
            opt = [a for a in ast.walk(x) if isinstance(a, ast.Attribute) and norm(a.value) == "self" and a.attr.endswith("Scatter")]
            for a in opt:
                n += 1
                conds = {(norm(t), p) for t, p in path_conditions(gt.node, x)}
                r.require((f"self.{a.attr} is not None", True) in conds or (f"self.{a.attr} is None", False) in conds, f"getTotalScatterMatrix:{a.attr}:arithmetic-behind-None-test", gt, node=x,
                          msg=f"`{norm(x)}` is evaluated whether or not self.{a.attr} is None; the later `is not None` test comes too late - a collection without this matrix raises TypeError "
                              "instead of being summed without it")
    if n < 1:
        raise AnchorMissing("getTotalScatterMatrix: arithmetic on an optional scattering matrix")


def r12_same_normalisation_both_sides(idx, r):
    """getISOTXSLibrariesToMerge drops the plain library `ISOAA` when a suffixed `ISOAA-<suffix>` is present (merging both would merge the same
    nuclide labels twice, which is refused).  The file names come from glob with their directory: the equality that recognises the pair must
    compare base name with base name - comparing the full path of one with the base name of the other never matches."""
    f = idx.func(LIBS + ".getISOTXSLibrariesToMerge")
    n = 0
    for c in [x for x in ast.walk(f.node) if isinstance(x, ast.Compare) and len(x.ops) == 1 and isinstance(x.ops[0], (ast.Eq, ast.NotEq))]:
        sides = [c.left, c.comparators[0]]
        based = [any(isinstance(y, ast.Call) and dotted(y.func) == "os.path.basename" for y in ast.walk(sd)) for sd in sides]
        if any(based):
            n += 1
            other = sides[1 - based.index(True)] if based.count(True) == 1 else None
            r.require(all(based) or (other is not None and isinstance(other, ast.Constant)), f"dedupe:{norm(c)[:50]}:basename-on-both-sides", f, node=c,
                      msg=f"`{norm(c)}` compares a base name with `{norm(other) if other is not None else ''}` as it is: with the full paths mergeXSLibrariesInWorkingDirectory passes, `ISOAA` is not recognised "
                          "as shadowed by `ISOAA-<suffix>`, both are selected and the merge of the two is refused")
    if n < 1:
        raise AnchorMissing("getISOTXSLibrariesToMerge: comparison with os.path.basename(...)")
    # the same for the substring filters that drop the merged ISOTXS and the ascii/BCD files: they are about the file NAME
    comps = [x for x in ast.walk(f.node) if isinstance(x, ast.ListComp) and x.generators and norm(x.generators[0].iter) in f.params()]
    k = 0
    for cmp_ in comps:
        v = norm(cmp_.generators[0].target)
        for t in [y for cond in cmp_.generators[0].ifs for y in ast.walk(cond) if isinstance(y, ast.Compare) and isinstance(y.ops[0], (ast.In, ast.NotIn)) and isinstance(y.left, ast.Constant)]:
            k += 1
            r.require(norm(t.comparators[0]) == f"os.path.basename({v})", f"filter:{t.left.value}:on-the-file-name", f, node=t,
                      msg=f"`{norm(t)}` looks for {t.left.value!r} in the whole path: a run directory whose name contains it (myISOTXSrun, BCDcase) makes every library in it be skipped, and the merged "
                          "library comes out empty without any error")
    if k < 3:
        raise AnchorMissing("getISOTXSLibrariesToMerge: the ISOTXS / .ascii / BCD filters")


def r13_assigned_means_not_none_and_fresh_accumulators(idx, r):
    """(a) For the per-nuclide PMATRX-type records 'assigned' means 'is not None': two libraries that both carry the record conflict whatever
    the numbers are; a test on the VALUES (np.any, truthiness) lets an all-zero record be silently replaced.  (b) the macroscopic vectors are
    accumulated in place (`+=`): each must start as a freshly allocated zero array - the class-wide cached default vector of XSCollection is
    shared with every nuclide that lacks a reaction, so accumulating into it corrupts the microscopic library and every later composition."""
    f = idx.func("armi.nuclearDataIO.xsNuclides._mergeAttributes")
    env = single_assign_env(f.node)
    rz = [x for x in walk_local(f.node) if isinstance(x, ast.Raise)]
    if len(rz) != 1:
        raise AnchorMissing("_mergeAttributes: the conflict raise")
    terms = []
    for t, p in path_conditions(f.node, rz[0]):
        t = propagate(t, env)
        terms += (t.values if isinstance(t, ast.BoolOp) and isinstance(t.op, ast.And) and p else [t])
    flat = []
    for t in terms:
        t = propagate(t, env)
        flat += (t.values if isinstance(t, ast.BoolOp) and isinstance(t.op, ast.And) else [t])
    bad = [t for t in flat if not (isinstance(t, ast.Compare) and len(t.ops) == 1 and isinstance(t.ops[0], ast.IsNot) and norm(t.comparators[0]) == "None")]
    r.require(len(flat) >= 2 and not bad, "_mergeAttributes:conflict-iff-both-present", f, node=rz[0],
              msg=f"the conflict is raised under `{' and '.join(norm(t) for t in flat)}`: whether a record is present must not depend on its values (`{norm(bad[0]) if bad else ''}`), or an all-zero record "
                  "on one side is silently replaced by the other library's")
    g = idx.method(XSC + ".MacroscopicCrossSectionCreator", "_initializeMacros")
    sets = [c for c in iter_calls(g.node) if dotted(c.func) == "setattr" and len(c.args) == 3]
    if not sets:
        raise AnchorMissing("_initializeMacros: setattr(m, name, <initial value>)")
    for n_, c in enumerate(sets):
        v = c.args[2]
        fresh = isinstance(v, ast.Call) and (dotted(v.func) or "").rsplit(".", 1)[-1] in ("zeros", "zeros_like", "lil_matrix", "csr_matrix", "csc_matrix", "array", "empty", "full")
        r.require(fresh, f"_initializeMacros:accumulator{n_}:freshly-allocated", g, node=c,
                  msg=f"`{norm(c)[:80]}` starts a macroscopic accumulator from `{norm(v)[:50]}`, not from a freshly allocated array: the in-place `+=` of the summation then writes into a shared object")


def r14_optional_library_used_and_options_forwarded(idx, r):
    """(a) In the cross-section collections an optional argument (a second library for the multiplier, a weight ...) is tested for presence and
    then USED: a branch guarded by `if multLib:` that never mentions multLib computes with something else - today that could only be the
    primary library - and the optional library is silently ignored.  Branches that only warn or refuse are exempt.  (b) sibling calls that
    build the macroscopic constants forward the caller's library type (pairing engine: no literal where the siblings pass the option through)."""
    from ..astutil import optional_params
    from ..pairing import pairing_rule
    n = 0
    for m in idx.modules.values():
        if m.name not in ("armi.nuclearDataIO.xsCollections", "armi.nuclearDataIO.xsLibraries", "armi.nuclearDataIO.xsNuclides"):
            continue
        for f in m.all_funcs():
            opt = optional_params(f.node)
            for nd in walk_local(f.node):
                if not isinstance(nd, ast.If):
                    continue
                t, nm = nd.test, None
                if isinstance(t, ast.Name):
                    nm = t.id
                elif isinstance(t, ast.Compare) and isinstance(t.left, ast.Name) and len(t.ops) == 1 and isinstance(t.ops[0], ast.IsNot) and norm(t.comparators[0]) == "None":
                    nm = t.left.id
                if nm is None or nm not in opt:
                    continue
                if all(isinstance(x, ast.Raise) or (isinstance(x, ast.Expr) and isinstance(x.value, ast.Call) and norm(x.value.func).startswith("runLog.")) for x in nd.body):
                    continue
                n += 1
                used = any(isinstance(x, ast.Name) and x.id == nm for st in nd.body for x in ast.walk(st))
                r.require(used, f"{f.qualname}:{nm}:used-where-it-is-tested", f, node=nd,
                          msg=f"the branch taken when `{nm}` is given never mentions `{nm}`: the optional argument is ignored and the computation falls back on the primary data")
    if n < 2:
        raise AnchorMissing("optional-argument branches in the cross-section collections")
    pairing_rule(idx, r, ["armi.nuclearDataIO.xsCollections", "armi.nuclearDataIO.xsLibraries", "armi.nuclearDataIO.xsNuclides", "armi.nuclearDataIO.nuclearFileMetadata"], 30)


def r15_removal_guard_and_loop_carried_defaults(idx, r):
    """(a) removal = absorption - (n,2n) + out-scatter whatever options the creator was given: every plain assignment to `macros.removal`
    contains the n2n term (an option-specific shortcut that assigns the absorption alone drops it).  (b) IsotxsLibrary.__setitem__ stores the
    nuclide only after the base class accepted the label (duplicate labels are refused there): the refusal comes before the store.
    (c) a default that depends on the loop element (`nucNames = block.getNuclides()` when none were given) is worked out per element, not
    kept in the parameter: re-binding a parameter inside the loop carries the first element's answer to all later ones."""
    f = idx.method("armi.nuclearDataIO.xsCollections.MacroscopicCrossSectionCreator", "_computeRemovalXS")
    sts = [s_ for s_ in iter_stores(f.node) if s_.chain == "self.macros.removal" and s_.kind == "assign"]
    if not sts:
        raise AnchorMissing("_computeRemovalXS: assignment of macros.removal")
    for s_ in sts:
        txt = norm(s_.value)
        r.require("self.macros.absorption" in txt and "self.macros.n2n" in txt and any(isinstance(x, ast.BinOp) and isinstance(x.op, ast.Sub) for x in ast.walk(s_.value)), "removal:absorption-minus-n2n-on-every-path", f, node=s_.stmt,
                  msg=f"`{norm(s_.stmt)[:80]}` sets the removal cross section without subtracting (n,2n): with that option the removal is too large by the n2n cross section")
    fl = Flow(f.node, lambda nd: ["out"] if isinstance(nd, ast.AugAssign) and norm(nd.target) == "self.macros.removal" and isinstance(nd.op, ast.Add) else []).run()
    r.require(not fl.must_at_normal_exits("out"), "removal:out-scatter-added-on-every-path", f, msg="a path returns before the out-scatter (column sum minus diagonal) was added to the removal cross section")
    lib = idx.cls("armi.nuclearDataIO.xsLibraries._XSLibrary")
    n = 0
    for c in idx.subclasses(lib):
        g = c.methods.get("__setitem__")
        if g is None:
            continue
        fl = Flow(g.node, lambda nd: ["accepted"] if isinstance(nd, ast.Call) and call_attr(nd) == "__setitem__" and ("_XSLibrary" in norm(nd.func) or "super()" in norm(nd.func)) else []).run()
        for s_ in iter_stores(g.node):
            if s_.kind == "subscript" and norm(s_.node.value).startswith("self."):
                n += 1
                st = fl.state_before(s_.stmt) or {}
                r.require(st.get("accepted", (0, 0))[0] >= 1, f"{c.name}.__setitem__:label-accepted-before-the-store", g, node=s_.stmt,
                          msg=f"`{norm(s_.stmt)}` happens before the base class has accepted the label: a refused duplicate assignment (AttributeError) has already replaced the stored nuclide")
    if n < 1:
        raise AnchorMissing("a library __setitem__ that stores after the base-class guard")
    k = 0
    for g in idx.module("armi.nuclearDataIO.xsCollections").all_funcs():
        ps = set(g.params())
        for lp in [x for x in walk_local(g.node) if isinstance(x, ast.For)]:
            lv = {y.id for y in ast.walk(lp.target) if isinstance(y, ast.Name)}
            k += 1
            for st_ in [x for b_ in lp.body for x in ast.walk(b_) if isinstance(x, ast.Assign)]:
                for t in st_.targets:
                    if isinstance(t, ast.Name) and t.id in ps and lv & {y.id for y in ast.walk(st_.value) if isinstance(y, ast.Name)}:
                        r.violate(f"{g.qualname}:{t.id}:default-per-element", g, f"`{norm(st_)[:70]}` re-binds the parameter `{t.id}` to a value taken from the current loop element: every later element is processed with the first element's value", node=st_)
    r.ok("loops-scanned", "armi/nuclearDataIO/xsCollections.py", msg=f"{k} loops")


def r16_reduce_order_merge_loop_and_sources(idx, r):
    """(a) `__reduce__` returns (class, constructor arguments): each `self.<name>` in the argument tuple stands at the position of the
    constructor parameter `<name>` - the copy a worker process receives is built from them positionally.  (b) while merging the libraries of a
    directory, a file that is already part of the library is SKIPPED; the loop goes on with the remaining files (no `break`).  (c)
    FileMetadata.update adds the other side's source files to its own list; replacing the list forgets where the data already held came from."""
    n = 0
    for f in idx.all_funcs():
        if f.name != "__reduce__" or f.cls is None or ".tests" in f.module.name:
            continue
        init = f.cls.resolve("__init__")
        if init is None:
            continue
        ps = init.params()[1:]
        for x in walk_local(f.node):
            if isinstance(x, ast.Return) and isinstance(x.value, ast.Tuple) and len(x.value.elts) >= 2 and isinstance(x.value.elts[1], ast.Tuple) \
                    and norm(x.value.elts[0]) in ("self.__class__", "type(self)", f.cls.name):
                for i, a in enumerate(x.value.elts[1].elts):
                    if isinstance(a, ast.Attribute) and norm(a.value) == "self" and a.attr.lstrip("_") in ps:
                        n += 1
                        r.require(ps.index(a.attr.lstrip("_")) == i, f"{f.cls.name}.__reduce__:{a.attr}-at-its-constructor-position", f, node=a,
                                  msg=f"`self.{a.attr}` stands at position {i} of the constructor arguments but `{a.attr.lstrip('_')}` is parameter {ps.index(a.attr.lstrip('_'))} of {f.cls.name}.__init__: the unpickled copy (every MPI worker) is built with the values exchanged")
    if n < 2:
        raise AnchorMissing("__reduce__ methods handing attributes to their constructor")
    g = idx.func("armi.nuclearDataIO.xsLibraries.mergeXSLibrariesInWorkingDirectory")
    loops = [x for x in walk_local(g.node) if isinstance(x, ast.For)]
    brk = [y for lp in loops for y in walk_local(lp) if isinstance(y, ast.Break)]
    r.require(bool(loops) and not brk, "mergeXSLibrariesInWorkingDirectory:every-file-visited", g, node=brk[0] if brk else None,
              msg="the loop over the library files can `break`: once one file is skipped (already merged, ...) all files sorted after it are silently left out of the merged library")
    h = idx.method("armi.nuclearDataIO.nuclearFileMetadata.FileMetadata", "update")
    sts = [s_ for s_ in iter_stores(h.node) if s_.chain == "self.fileNames"] + [c for c in iter_calls(h.node) if norm(c.func) in ("self.fileNames.extend", "self.fileNames.append")]
    if not sts:
        raise AnchorMissing("FileMetadata.update: fileNames")
    for s_ in sts:
        grows = isinstance(s_, ast.Call) or s_.kind == "aug" or (s_.value is not None and "self.fileNames" in norm(s_.value))
        r.require(grows, "FileMetadata.update:source-files-accumulate", h, node=getattr(s_, "stmt", s_),
                  msg="the list of source files is replaced by the other side's: the files the data already held came from are forgotten (and a later directory merge reads them again)")


def r17_like_merges_with_like(idx, r):
    """A library / nuclide / region carries several KINDS of data side by side (ISOTXS, GAMISO, PMATRX metadata, neutron and gamma collections,
    COMPXS metadata ...), each under its own attribute.  'Each [nuclide/library] with ... data and metadata identical to its source' needs, for
    every kind K and in every merge method of the package:  (a) the target's K is merged with the OTHER object's K - `self.K.merge(other.K', ..)`
    with K' != K puts the other side's K' (its keys, its source-file names) into the merged K and drops the other side's K; with the first
    argument taken from `self` the other side's K is dropped altogether;  (b) the merged K is what the target holds as K afterwards - directly
    (`self.K = self.K.merge(..)`) or through a helper that returns the merged kinds as a tuple which the caller unpacks: position i of the tuple
    ends in the attribute of the kind merged at position i.
    The family is enumerated (every method of armi.nuclearDataIO with a call `<first parameter>.<K>.merge(...)`), locals are read through copy
    propagation, the sides are the method's own parameters whatever they are called."""
    def split(e):
        d = dotted(e)
        if d is None:
            return None, None
        root, _, rest = d.partition(".")
        return root, (rest or None)

    def merge_kind(e, ps):
        """K when e is the call `<p0>.<K>.merge(...)`"""
        if isinstance(e, ast.Call) and isinstance(e.func, ast.Attribute) and e.func.attr == "merge":
            root, kind = split(e.func.value)
            if root == ps[0] and kind:
                return kind
        return None

    fam = [f for m in idx.modules.values() if m.name.startswith("armi.nuclearDataIO") and ".tests" not in m.name for f in m.all_funcs()
           if f.cls is not None and len(f.params()) >= 2]
    n = 0
    routed = {}
    for f in fam:
        if not any(call_attr(c) == "merge" for c in iter_calls(f.node, include_nested=False)):
            continue
        ps = f.params()
        env = single_assign_env(f.node)
        # (a) like with like
        for c in iter_calls(f.node, include_nested=False):
            if call_attr(c) != "merge":
                continue
            pc = propagate(c, env)
            kind = merge_kind(pc, ps)
            if kind is None:
                continue
            n += 1
            a0 = get_arg(pc, 0, "other")
            if a0 is None:
                raise AnalysisError(f"{f.qualname}: `{norm(pc)[:70]}` - what is merged into {ps[0]}.{kind} not found")
            aroot, akind = split(a0)
            key = f"{f.qualname}:{kind}:merged-with-its-namesake"
            if aroot is None or (aroot not in ps and akind is None):
                r.undecided(key, f, f"`{norm(a0)[:60]}` is merged into {ps[0]}.{kind}: not an attribute of one of the merged objects, its kind is not decided", node=c)
            elif aroot == ps[0]:
                r.violate(key, f, f"`{norm(pc)[:90]}` merges {ps[0]}.{kind} with data of `{ps[0]}` itself: the {kind} of the object being merged in is dropped from the result", node=c)
            else:
                r.require(akind == kind, key, f, node=c,
                          msg=f"`{norm(pc)[:90]}` merges the target's {kind} with the other side's {akind}: after merging two sources that both carry {kind}, the result's {kind} "
                              f"holds the keys / source-file names of the other side's {akind} and the other side's own {kind} is lost (metadata no longer identical to its source)")
        # (b) the merged K is kept as K
        for st in walk_local(f.node):
            if isinstance(st, ast.Assign):
                k = merge_kind(propagate(st.value, env), ps)
                for t in st.targets:
                    root, z = split(t)
                    if k and isinstance(t, ast.Attribute) and root == ps[0]:
                        n += 1
                        r.require(z == k, f"{f.qualname}:{k}:merged-result-kept-under-its-own-name", f, node=st,
                                  msg=f"the merged {k} is stored as {ps[0]}.{z}: the target's {z} is replaced by data of another kind and its {k} stays unmerged")
            elif isinstance(st, ast.Return) and st.value is not None:
                v = propagate(st.value, env)
                kinds = [merge_kind(e, ps) for e in (v.elts if isinstance(v, ast.Tuple) else [v])]
                if any(kinds):
                    if routed.setdefault(id(f), (f, kinds, isinstance(v, ast.Tuple)))[1:] != (kinds, isinstance(v, ast.Tuple)):
                        raise AnalysisError(f"{f.qualname}: returns merged kinds in different orders on different paths")
    for f, kinds, is_tuple in routed.values():
        users = 0
        for g in fam:
            if g.cls.resolve(f.name) is not f:
                continue
            g0 = g.params()[0]
            calls = [c for c in iter_calls(g.node, include_nested=False) if call_attr(c) == f.name and isinstance(c.func, ast.Attribute) and dotted(c.func.value) == g0]
            if not calls:
                continue
            users += 1
            genv = single_assign_env(g.node)

            def is_call(e):
                return isinstance(e, ast.Call) and call_attr(e) == f.name and isinstance(e.func, ast.Attribute) and dotted(e.func.value) == g0

            names, kept = {}, {}
            assigns = [st for st in walk_local(g.node) if isinstance(st, ast.Assign)]
            for st in assigns:
                v = propagate(st.value, genv)
                for t in st.targets:
                    if is_tuple and isinstance(t, (ast.Tuple, ast.List)) and is_call(v):
                        if len(t.elts) != len(kinds) or any(isinstance(e, ast.Starred) for e in t.elts):
                            raise AnalysisError(f"{g.qualname}: unpacks the {len(kinds)} results of {f.name} into {len(t.elts)} targets")
                        for e, k in zip(t.elts, kinds):
                            root, z = split(e)
                            if isinstance(e, ast.Name):
                                names[e.id] = k
                            elif isinstance(e, ast.Attribute) and root == g0:
                                kept.setdefault(k, []).append((z, st))
            for nm in names:
                if sum(1 for s_ in iter_stores(g.node, include_nested=False) if isinstance(s_.node, ast.Name) and s_.attr == nm) != 1:
                    raise AnalysisError(f"{g.qualname}: `{nm}` (a result of {f.name}) is bound more than once")
            for st in assigns:
                v = propagate(st.value, genv)
                k = None
                if isinstance(v, ast.Name) and v.id in names:
                    k = names[v.id]
                elif is_tuple and isinstance(v, ast.Subscript) and is_call(v.value):
                    try:
                        ix = ast.literal_eval(v.slice)
                    except ValueError:
                        ix = None
                    if not isinstance(ix, int) or isinstance(ix, bool) or not -len(kinds) <= ix < len(kinds):
                        raise AnalysisError(f"{g.qualname}: `{norm(v)[:60]}` - which result of {f.name} this is could not be read")
                    k = kinds[ix]
                elif not is_tuple and is_call(v):
                    k = kinds[0]
                if k is None:
                    continue
                for t in st.targets:
                    root, z = split(t)
                    if isinstance(t, ast.Attribute) and root == g0:
                        kept.setdefault(k, []).append((z, st))
            if not kept:
                raise AnalysisError(f"{g.qualname}: what becomes of the merged {[k for k in kinds if k]} returned by {f.name} could not be followed")
            for i, k in enumerate(kinds):
                if k is None:
                    continue
                n += 1
                zs = [z for z, _ in kept.get(k, [])]
                wrong = [(z, st) for z, st in kept.get(k, []) if z != k and z in kinds]
                key = f"{g.qualname}:{k}:merged-result-kept-under-its-own-name"
                if wrong:
                    r.violate(key, g, f"result {i} of {f.name} is the merged {k} but `{norm(wrong[0][1])[:70]}` stores it as {g0}.{wrong[0][0]}: the merged object's {wrong[0][0]} holds {k} data and its own is lost", node=wrong[0][1])
                else:
                    r.require(k in zs, key, g, msg=f"result {i} of {f.name} is the merged {k} but it is never assigned to {g0}.{k}: the target keeps its old {k}, what the other side brought (keys, source files) is lost")
        if not users:
            raise AnchorMissing(f"a caller of {f.qualname} that keeps the merged {[k for k in kinds if k]}")
    if n < 1:
        raise AnchorMissing("merge methods that merge an attribute of the target with one of the other object")


def run(idx, chk):
    chk.explanation = (
        "C10: metadata/collection merges never write into their inputs and raise on conflicts; direct stores into the target library happen only "
        "after every step that can refuse; write-once properties for group structures; no silent overwrite of nuclides/attributes; the macroscopic "
        "sums are typed with role generators (density N, micro datum, multiplier) and must be linear in each; one composition (self.densities) for "
        "every macroscopic datum; derived quantities equal their defining sums. Merge-order independence of values is NOT decided; the library merge "
        "not being atomic is a recorded known finding."
    )
    chk.undecided_clauses = ["order independence and equality of merged data", "zero for an empty composition (returns None today)"]
    chk.run_rule("R10.1", "merges of metadata/collections are pure or only fill an empty target; direct stores into the library follow every step that can refuse", lambda r: r1_check_before_mutate(idx, r), floor=10,
                 necessary="conflicting inputs are rejected leaving the target unchanged")
    chk.run_rule("R10.1b", "no mutating merge step runs while a later step can still refuse", lambda r: r1b_atomic(idx, r), floor=3, necessary="conflicting inputs are rejected leaving the target unchanged")
    chk.run_rule("R10.2", "group structures and dose factors are write-once properties; merge assigns through them", lambda r: r2_write_once(idx, r), floor=10, necessary="different group structures are rejected, never silently combined")
    chk.run_rule("R10.3", "existing nuclide labels and attributes are never overwritten: merge-or-insert, raise when both sides are set", lambda r: r3_no_overwrite(idx, r), floor=7, necessary="same data from two sources is rejected")
    chk.run_rule("R10.6", "fix-ups applied while merging metadata treat both libraries symmetrically", lambda r: r6_symmetric_fixups(idx, r), floor=1, necessary="the content of the result does not depend on merge order")
    chk.run_rule("R10.4", "macroscopic sums are linear in density and in the microscopic datum, additive over one composition; chi average normalised by its own weights", lambda r: r4_linearity(idx, r), floor=9,
                 necessary="macroscopic data are the density-weighted sums of the microscopic ones")
    chk.run_rule("R10.5", "absorption, removal and total scatter equal their defining sums and are derived in dependency order", lambda r: r5_derived(idx, r), floor=7, necessary="derived quantities equal their defining sums")
    chk.run_rule("R10.7", "the equality helper behind conflict detection calls arrays equal only when no element differs (truth table)", lambda r: r7_equality_helper(idx, r), floor=1,
                 necessary="'different group structures are rejected' also when they differ in only some bounds")
    chk.run_rule("R10.8", "nuclides of a composition are selected by comparing the XS ID with the label's suffix field only", lambda r: r8_suffix_selection(idx, r), floor=1,
                 necessary="macroscopic sums are 'additive over nuclides' of ONE composition")
    chk.run_rule("R10.9", "group-structure assignments from the other library are unconditional; sibling branches pass the same keywords to createMacrosFromMicros", lambda r: r9_unconditional_structure_check(idx, r), floor=4,
                 necessary="'different group structures are rejected'; macroscopic data are the density-weighted sums of THE REQUESTED microscopic data")
    chk.run_rule("R10.10", "a merge result never borrows a mutable container of its sources and then changes it in place", lambda r: r10_merge_builds_fresh(idx, r), floor=1,
                 necessary="a rejected merge leaves the target library (metadata included) unchanged")
    chk.run_rule("R10.11", "merge's emptiness tests leave out bookkeeping only; optional matrices enter arithmetic behind their None test", lambda r: r11_optional_data_attributes(idx, r), floor=2,
                 necessary="a merge never silently drops data; derived sums skip, not crash on, what a library does not carry")
    chk.run_rule("R10.12", "the plain/suffixed library pairing compares base names on both sides", lambda r: r12_same_normalisation_both_sides(idx, r), floor=4,
                 necessary="a directory holding ISOxx and ISOxx-<suffix> merges to the suffixed data, without a refused double merge")
    chk.run_rule("R10.13", "a PMATRX-type record is 'assigned' iff it is not None; macroscopic accumulators start as fresh arrays", lambda r: r13_assigned_means_not_none_and_fresh_accumulators(idx, r), floor=3,
                 necessary="conflicting data are refused whatever their values; macroscopic sums are the density-weighted sums of the micros for every composition")
    chk.run_rule("R10.14", "an optional library/weight that is tested for presence is used in that branch; sibling calls forward the library type", lambda r: r14_optional_library_used_and_options_forwarded(idx, r), floor=3,
                 necessary="macroscopic constants are the density-weighted sums over the libraries the caller named, for the kind of data the caller named")
    chk.run_rule("R10.15", "removal always subtracts n2n and adds out-scatter; a library stores a nuclide after the label was accepted; per-element defaults are not kept in a parameter", lambda r: r15_removal_guard_and_loop_carried_defaults(idx, r), floor=4,
                 necessary="macroscopic constants are the density-weighted sums over the block's own nuclides; a refused assignment leaves the library unchanged")
    chk.run_rule("R10.16", "__reduce__ arguments stand at their constructor position; a merge visits every file; source files accumulate", lambda r: r16_reduce_order_merge_loop_and_sources(idx, r), floor=5,
                 necessary="a merged library holds the union of its sources, on every process")
    chk.run_rule("R10.17", "every kind of data is merged with its namesake on the other side and the merged kind is kept under its own attribute (all merge methods of nuclearDataIO)", lambda r: r17_like_merges_with_like(idx, r), floor=19,
                 necessary="the merged library/nuclide/region holds, per kind (ISOTXS, GAMISO, PMATRX, COMPXS metadata; neutron and gamma data), metadata identical to its sources - never one kind's metadata in another kind's place")
