"""C13 - symmetry conversions of the core: add/undo pairing, the n-th image rotated by n x angle
(agreement with the grid's image order, exact), scale/unscale inverses under one condition,
purging (not pooling) of the temporary assemblies, cache invalidation on the right assemblies,
ordering of the parameter-list computation.  Structural necessary conditions only."""
from __future__ import annotations

import ast

from ..astutil import call_attr, get_arg, iter_calls, iter_stores, propagate, single_assign_env, walk_local
from ..exprnf import ExprEval, Poly, matmul, mat_eq, rot
from ..flow import Flow, always_exits, path_conditions
from ..index import AnalysisError, AnchorMissing, dotted, norm
from ..lattice import HEX, unit_steps

GC = "armi.reactor.converters.geometryConverters"
I, J = Poly.atom("i"), Poly.atom("j")


def r1_pairing(idx, r):
    cv = idx.method(GC + ".ThirdCoreHexToFullCoreChanger", "convert")
    inner = next((n for n in walk_local(cv.node) if isinstance(n, ast.For) and norm(n.iter) == "otherLocs"), None)
    if inner is None:
        raise AnalysisError("convert: loop over the symmetric locations not found")

    def ev(n):
        out = []
        if isinstance(n, ast.Assign) and isinstance(n.value, ast.Call) and dotted(n.value.func) == "copy.deepcopy" and norm(n.targets[0]) == "newAssem":
            out.append("copied")
        if isinstance(n, ast.Call) and norm(n.func) == "newAssem.makeUnique":
            out.append("unique")
        if isinstance(n, ast.Call) and norm(n.func) == "newAssem.rotate":
            out.append("rotated")
        if isinstance(n, ast.Call) and call_attr(n) == "add" and "core" in norm(n.func) and norm(n.args[0]) == "newAssem":
            out.append("added")
        if isinstance(n, ast.Call) and norm(n.func) == "self._newAssembliesAdded.append" and norm(n.args[0]) == "newAssem":
            out.append("recorded")
        return out
    fb = Flow(cv.node, ev, body=inner.body).run()
    ends = fb.iteration_ends()
    ok = bool(ends) and all(all(s.get(k) == (1, 1) for k in ("copied", "unique", "rotated", "added", "recorded")) for s in ends) and not [e for e in fb.exits if e.kind in ("break", "return")]
    r.require(ok, "convert:copy-unique-rotate-add-record", cv, node=inner, msg=f"every symmetric location receives one independent (deep-copied), uniquely named, rotated assembly that is recorded for the undo: {ends}")
    add = next((c for c in iter_calls(inner) if ev(c) == ["added"]), None)
    if add is None:
        raise AnalysisError("convert: the core.add(...) of the copy inside the loop over the symmetric locations was not found")
    st = fb.state_before(add) or {}
    r.require(all(st.get(k, (0, 0))[0] >= 1 for k in ("copied", "unique", "rotated")), "convert:prepared-before-add", cv, node=add, msg="the copy must be made unique and rotated before it enters the core")
    cp = next((n for n in inner.body if isinstance(n, ast.Assign) and ev(n) == ["copied"]), None)
    outer = next((n for n in walk_local(cv.node) if isinstance(n, ast.For) and inner in n.body), None)
    r.require(cp is not None and outer is not None and norm(cp.value.args[0]) == norm(outer.target), "convert:copy-of-source", cv, node=cp, msg="the new assembly is a copy of the source assembly of this orbit")
    r.require(norm(add.args[1]) == f"self._sourceReactor.core.spatialGrid[{', '.join(norm(e) for e in inner.target.elts)}, 0]", "convert:placed-at-image", cv, node=add, msg="the copy is placed at the symmetric location being visited")
    ol = next((s for s in iter_stores(outer) if s.attr == "otherLocs"), None)
    r.require(ol is not None and norm(ol.value) == f"grid.getSymmetricEquivalents({norm(outer.target)}.spatialLocator.indices)", "convert:images-from-grid", cv, msg="target cells come from the grid's symmetric equivalents of the source location")
    g = next((s for s in iter_stores(cv.node) if s.attr == "grid"), None)
    sym = [s for s in iter_stores(cv.node) if s.chain == "self._sourceReactor.core.symmetry"]
    r.require(g is not None and sym and norm(g.value) == "copy.deepcopy(self._sourceReactor.core.spatialGrid)" and g.stmt.lineno < sym[0].stmt.lineno, "convert:third-core-grid-kept", cv,
              msg="equivalents must be computed on a copy of the grid taken BEFORE the core is declared full (a full-core grid has no equivalents)")
    # rotation angle of the n-th image, and agreement with the order in which the grid lists its images
    ang = next((s for s in iter_stores(outer) if s.attr == "angle"), None)
    rot_c = next((c for c in iter_calls(inner) if norm(c.func) == "newAssem.rotate"), None)
    cnt0 = next((s for s in iter_stores(outer) if s.attr == "count" and s.kind == "assign"), None)
    inc = next((n for n in inner.body if isinstance(n, ast.AugAssign) and norm(n.target) == "count"), None)
    ok = ang is not None and norm(ang.value) == "2 * math.pi / (len(otherLocs) + 1)" and rot_c is not None and norm(rot_c.args[0]) in ("count * angle", "angle * count") and cnt0 is not None and norm(cnt0.value) == "1" \
        and inc is not None and norm(inc.value) == "1" and isinstance(inc.op, ast.Add) and inc.lineno > rot_c.lineno
    r.require(ok, "convert:nth-image-rotated-by-n-times-angle", cv, node=rot_c, msg="the n-th image (n = 1, 2) is rotated by n x 2pi/(number of images + 1)")
    sid = idx.method(HEX, "_getSymmetricIdenticalsThird")
    from ..astutil import returned_values
    from types import SimpleNamespace
    lst = next((SimpleNamespace(value=v, stmt=nd) for v, nd in returned_values(sid.node) if isinstance(v, ast.List) and len(v.elts) == 2), None)
    if lst is None:
        raise AnalysisError("_getSymmetricIdenticalsThird: list of two images expected")
    E = ExprEval(env={"i": I, "j": J}, opaque=False)
    U = unit_steps(idx)
    for n, t in enumerate(lst.value.elts, 1):
        rows = []
        for e in t.elts:
            p = E.ev(e)
            rows.append([p.coeff("i", 1), p.coeff("j", 1)])
        for cu, Um in U.items():
            r.require(mat_eq(matmul(Um, rows), matmul(rot(2 * n), Um)), f"image-order:{n}:{'cornersUp' if cu else 'flatsUp'}", sid, node=lst.stmt,
                      msg=f"convert() rotates the copy placed at the {n}-th listed image by {120 * n} degrees, but the {n}-th image `{norm(t)}` is not the {120 * n}-degree rotation of the cell")
    # undo
    rs = idx.method(GC + ".ThirdCoreHexToFullCoreChanger", "restorePreviousGeometry")
    loop = next((n for n in walk_local(rs.node) if isinstance(n, ast.For) and norm(n.iter) == "self._newAssembliesAdded"), None)
    rm = next((c for c in iter_calls(loop) if call_attr(c) == "removeAssembly"), None) if loop is not None else None
    ok = rm is not None and norm(rm.args[0]) == norm(loop.target) and any(k.arg == "discharge" and norm(k.value) == "False" for k in rm.keywords) and not path_conditions(ast.Module(body=loop.body, type_ignores=[]), rm)
    r.require(ok, "restore:removes-exactly-the-added", rs, node=rm, msg="exactly the recorded assemblies are removed, without discharging them")
    # ... and the zone entries convert() made for them are withdrawn
    cvz = idx.method(GC + ".ThirdCoreHexToFullCoreChanger", "convert")
    if any(call_attr(c) == "addLoc" for c in iter_calls(cvz.node)):
        rz = [c for c in (iter_calls(loop) if loop is not None else []) if call_attr(c) in ("removeLoc", "removeLocs", "removeItem")]
        r.require(bool(rz) and rm is not None and rz[0].lineno < rm.lineno, "restore:withdraws-zone-entries", rs, node=rz[0] if rz else rm,
                  msg="convert() enters every new assembly's location into its source's zone, but the undo never removes them: after restore the zone lists locations of the full core that no longer exist "
                      "(19 zone locations instead of 7)")
    symr = next((s for s in iter_stores(rs.node) if s.chain == "r.core.symmetry"), None)
    r.require(symr is not None and norm(symr.value) == "geometry.SymmetryType.fromAny(self.EXPECTED_INPUT_SYMMETRY)", "restore:symmetry", rs, msg="the third-core symmetry is restored")
    r.require(any(dotted(c.func) == "self.reset" for c in iter_calls(rs.node)) and rs.node.body[-1] is not None and norm(rs.node.body[-1]) == "self.reset()", "restore:resets", rs, msg="the record of added assemblies is cleared at the end")
    rst = idx.method(GC + ".GeometryChanger", "reset")
    r.require(any(norm(s.stmt) == "self._newAssembliesAdded = []" for s in iter_stores(rst.node)), "reset", rst, msg="reset empties the record")
    # the temporary assemblies are purged, not pooled: Core.removeAssembly pools only when discharging
    ra = idx.method("armi.reactor.cores.Core", "removeAssembly")
    pool = next((c for c in iter_calls(ra.node) if call_attr(c) == "add" and "sfp" in norm(c.func)), None)
    conds = [norm(t) for t, p in path_conditions(ra.node, pool) if p] if pool is not None else []
    r.require(pool is not None and any(c.startswith("discharge and ") or " and discharge" in c or c == "discharge" for c in conds), "removeAssembly:pool-only-on-discharge", ra, node=pool,
              msg=f"an assembly removed with discharge=False (undo of a conversion) must be purged, never stored in the spent fuel pool or kept in the name lookups: pooled under {conds}")
    # edge assemblies
    ae = idx.method(GC + ".EdgeAssemblyChanger", "addEdgeAssemblies")
    mk = next((n for n in ae.node.body if isinstance(n, ast.For) and norm(n.iter) == "assembliesOnLowerBoundary"), None)
    txt = [norm(s) for s in mk.body] if mk is not None else []
    v = norm(mk.target) if mk is not None else "a"
    # every 0-degree-line assembly: its cache dropped, one deep copy made, made unique, recorded - once each on every path, in that order
    def ev_copy(n, v=v):
        if isinstance(n, ast.Call) and norm(n) == f"{v}.clearCache()":
            return ["cleared"]
        if isinstance(n, ast.Assign) and isinstance(n.value, ast.Call) and dotted(n.value.func) == "copy.deepcopy" and norm(n.value.args[0]) == v:
            return ["copied:" + norm(n.targets[0])]
        if isinstance(n, ast.Call) and call_attr(n) == "makeUnique":
            return ["unique:" + norm(n.func.value)]
        if isinstance(n, ast.Call) and norm(n.func) == "assembliesOnUpperBoundary.append" and n.args:
            return ["listed:" + norm(n.args[0])]
        return []
    okc = False
    if mk is not None:
        flc = Flow(ae.node, ev_copy, body=mk.body).run()
        ends = flc.iteration_ends()
        names = {k.split(":", 1)[1] for st_ in ends for k in st_ if k.startswith("copied:")}
        okc = bool(ends) and len(names) == 1 and all(st_.get("cleared") == (1, 1) and st_.get("copied:" + nm) == (1, 1) and st_.get("unique:" + nm) == (1, 1) and st_.get("listed:" + nm) == (1, 1) for st_ in ends for nm in names)
        if okc:
            order = [k for n_ in ast.walk(ast.Module(body=mk.body, type_ignores=[])) for k in ev_copy(n_)]
            nm = next(iter(names))
            # (ast.walk is breadth-first: compare line numbers instead)
            pos = {}
            for n_ in ast.walk(ast.Module(body=mk.body, type_ignores=[])):
                for k in ev_copy(n_):
                    pos.setdefault(k, getattr(n_, "lineno", 0))
            okc = pos["copied:" + nm] < pos["unique:" + nm] < pos["listed:" + nm]
    r.require(okc, "addEdge:copies", ae, msg=f"edge assemblies are unique deep copies of the 0-degree-line assemblies (cache dropped, copied, made unique, listed - once each): {txt}")
    lp = next((n for n in ae.node.body if isinstance(n, ast.For) and norm(n.iter) == "assembliesOnUpperBoundary"), None)

    def ev2(n):
        if isinstance(n, ast.Call) and norm(n.func) == "core.add":
            return ["added"]
        if isinstance(n, ast.Call) and norm(n.func) == "self._newAssembliesAdded.append":
            return ["recorded"]
        return []
    fb = Flow(ae.node, ev2, body=lp.body).run()
    ok = all(s.get("added", (0, 0)) == s.get("recorded", (0, 0)) for s in fb.iteration_ends())
    ad = next((c for c in iter_calls(lp) if norm(c.func) == "core.add"), None)
    rc = next((c for c in iter_calls(lp) if norm(c.func) == "self._newAssembliesAdded.append"), None)
    ok = ok and ad is not None and rc is not None and [norm(t) for t, p in path_conditions(ae.node, ad)] == [norm(t) for t, p in path_conditions(ae.node, rc)] and norm(ad.args[0]) == norm(rc.args[0])
    r.require(ok, "addEdge:added-iff-recorded", ae, msg="an edge assembly is recorded for removal exactly when it was added")
    re_ = idx.method(GC + ".EdgeAssemblyChanger", "removeEdgeAssemblies")
    env = single_assign_env(re_.node)
    rml = next((n for n in re_.node.body if isinstance(n, ast.For) and any(call_attr(c) == "removeAssembly" for c in iter_calls(n))), None)
    ok = rml is not None and norm(propagate(rml.iter, env)) == "core.getAssembliesOnSymmetryLine(grids.BOUNDARY_120_DEGREES)"
    rmc = next((c for c in iter_calls(rml) if call_attr(c) == "removeAssembly"), None) if rml is not None else None
    ok = ok and rmc is not None and any(k.arg == "discharge" and norm(k.value) == "False" for k in rmc.keywords)
    r.require(ok, "removeEdge:120-degree-line-purged", re_, node=rmc, msg="the assemblies on the 120-degree line are removed without discharge")
    cc = [c for c in iter_calls(re_.node) if call_attr(c) == "clearCache"]
    okc = len(cc) == 1
    if okc:
        lp2 = next((n for n in walk_local(re_.node) if isinstance(n, ast.For) and cc[0] in list(ast.walk(n))), None)
        okc = lp2 is not None and norm(propagate(lp2.iter, env)) == "core.getAssembliesOnSymmetryLine(grids.BOUNDARY_0_DEGREES)" and norm(cc[0].func.value) == norm(lp2.target) and lp2 is not rml
    r.require(okc, "removeEdge:lower-boundary-caches-cleared", re_, node=cc[0] if cc else None,
              msg="after the edge assemblies are gone the REMAINING 0-degree-line assemblies change from half to whole: their cached areas/volumes must be cleared (clearing the removed ones leaves stale half areas)")


def r2_scaling(idx, r):
    sc = idx.method(GC + ".ThirdCoreHexToFullCoreChanger", "_scaleBlockVolIntegratedParams")
    ops = {}
    for n in walk_local(sc.node):
        if isinstance(n, ast.If):
            cur = n
            while True:
                t = norm(cur.test)
                a = next((s for s in cur.body if isinstance(s, ast.Assign) and norm(s.targets[0]) == "op"), None)
                if a is not None and t.startswith("direction == "):
                    ops[t.split("== ")[1].strip("'")] = norm(a.value)
                if len(cur.orelse) == 1 and isinstance(cur.orelse[0], ast.If):
                    cur = cur.orelse[0]
                else:
                    break
            break
    r.require(ops == {"up": "operator.mul", "down": "operator.truediv"}, "scale:up-multiplies-down-divides", sc, msg=f"'up' must multiply and 'down' divide: {ops}")
    consts = {norm(c.args[1]) for c in iter_calls(sc.node) if norm(c.func) == "op" and len(c.args) == 2}
    r.require(consts == {"3"}, "scale:same-factor-3", sc, msg=f"both directions use the factor 3 (centre assembly counts once): {consts}")
    loop = next((n for n in sc.node.body if isinstance(n, ast.For)), None)
    r.require(loop is not None and norm(loop.iter) == "self.listOfVolIntegratedParamsToScale", "scale:same-parameter-list", sc, msg="both directions scale the same list of volume-integrated parameters")
    cv = idx.method(GC + ".ThirdCoreHexToFullCoreChanger", "convert")
    rs = idx.method(GC + ".ThirdCoreHexToFullCoreChanger", "restorePreviousGeometry")
    up = [c for c in iter_calls(cv.node) if dotted(c.func) == "self._scaleBlockVolIntegratedParams"]
    dn = [c for c in iter_calls(rs.node) if dotted(c.func) == "self._scaleBlockVolIntegratedParams"]
    r.require(len(up) == 1 and norm(up[0].args[1]) == "'up'" and len(dn) == 1 and norm(dn[0].args[1]) == "'down'", "scale:convert-up-restore-down", cv, msg="convert scales up, restore scales down")
    envc = single_assign_env(cv.node)

    def _says_centre(t, pol):
        """the condition (test, polarity) states `<assembly>.getLocation() == '001-001'`, whichever way it is written"""
        t = propagate(t, envc)
        while isinstance(t, ast.UnaryOp) and isinstance(t.op, ast.Not):
            t, pol = t.operand, not pol
        if not (isinstance(t, ast.Compare) and len(t.ops) == 1 and isinstance(t.ops[0], (ast.Eq, ast.NotEq))):
            return False
        if isinstance(t.ops[0], ast.NotEq):
            pol = not pol
        sides = {norm(t.left), norm(t.comparators[0])}
        return pol and "'001-001'" in sides and any(x.endswith(".getLocation()") for x in sides)
    pcs = path_conditions(cv.node, up[0]) if up else []
    cu = [("" if p else "not ") + norm(t) for t, p in pcs]
    r.require(any(_says_centre(t, p) for t, p in pcs), "scale:centre-only-on-convert", cv, node=up[0] if up else None, msg=f"only the centre assembly is scaled on conversion: {cu}")
    a_src = next((s for s in iter_stores(rs.node) if s.attr == "a" and s.kind == "assign" and s.value is not None and "getAssemblyWithStringLocation" in norm(s.value)), None)
    r.require(a_src is not None and norm(a_src.value) == "r.core.getAssemblyWithStringLocation('001-001')", "scale:centre-only-on-restore", rs, msg="the same centre assembly is scaled back on restore")
    for c, f in ((up[0], cv), (dn[0], rs)) if up and dn else ():
        lp = next((n for n in walk_local(f.node) if isinstance(n, ast.For) and c in list(ast.walk(n)) and norm(n.iter) == "a"), None)
        r.require(lp is not None and norm(c.args[0]) == norm(lp.target), f"scale:every-block:{f.name}", f, node=c, msg="every block of the centre assembly is scaled")
    gen = next((c for c in iter_calls(cv.node) if dotted(c.func) == "_generateListOfParamsToScale"), None)

    def ev(n):
        if isinstance(n, ast.Call) and call_attr(n) == "removeEdgeAssemblies":
            return ["edges-removed"]
        if isinstance(n, ast.Assign) and norm(n.targets[0]) == "self._sourceReactor.core.symmetry":
            return ["declared-full"]
        return []
    fl = Flow(cv.node, ev).run()
    st = fl.state_before(gen) if gen is not None else None
    r.require(gen is not None and st is not None and st.get("edges-removed", (0, 0))[0] >= 1 and st.get("declared-full", (0, 0))[0] >= 1, "scale:list-computed-after-geometry-changes", cv, node=gen,
              msg="the list of parameters to scale is filtered on assignment flags that removeEdgeAssemblies/core.add refresh: it must be computed after them, or it can be empty and the centre assembly is not scaled")
    memo = [norm(t) for t, p in path_conditions(cv.node, gen) if "listOfVolIntegratedParamsToScale" in norm(t)] if gen is not None else []
    r.require(gen is not None and not memo, "scale:list-recomputed-at-every-conversion", cv, node=gen,
              msg=f"the list is only computed when {memo}: a changer that converts a second time keeps the list of its first conversion, and a volume-integrated parameter first assigned "
                  "in between is not tripled on the centre assembly")
    gl = idx.func(GC + "._generateListOfParamsToScale")
    r.require("ParamLocation.VOLUME_INTEGRATED" in norm(gl.node), "scale:list-from-definitions", gl, msg="the parameters to scale are the VOLUME_INTEGRATED ones, from their definitions")
    sp = idx.method("armi.reactor.assemblies.Assembly", "scaleParamsToNewSymmetryFactor")
    sf = next((s for s in iter_stores(sp.node) if s.attr == "scalingFactor"), None)
    r.require(sf is not None and norm(sf.value) == "oldSymmetryFactor / self.getSymmetryFactor()", "move-rescales-old/new", sp, msg="moving an assembly to a cell with another symmetry factor rescales integrated parameters by old/new")
    mt = idx.method("armi.reactor.assemblies.Assembly", "moveTo")
    old = next((s for s in iter_stores(mt.node) if s.attr == "oldSymmetryFactor"), None)
    base = next((c for c in iter_calls(mt.node) if (dotted(c.func) or "").endswith("Composite.moveTo")), None)
    fin = next((c for c in iter_calls(mt.node) if dotted(c.func) == "self.scaleParamsToNewSymmetryFactor"), None)
    r.require(old is not None and base is not None and fin is not None and old.stmt.lineno < base.lineno < fin.lineno and norm(fin.args[0]) == "oldSymmetryFactor", "move:old-factor-read-before-move", mt,
              msg="the old symmetry factor is read before the move and the rescaling happens after it")


GC = "armi.reactor.converters.geometryConverters"


def r3_complete_scaling_list(idx, r):
    """Every volume-integrated total triples when the core is grown. The list of parameters to scale is produced by
    _generateListOfParamsToScale as (all volume-integrated names, the multigroup-flux names among them); its first
    element is what the third-to-full changer triples, so it must be the whole list: narrowed only by the caller's
    subset, never by the flux list."""
    f = idx.func(GC + "._generateListOfParamsToScale")
    if f is None:
        raise AnchorMissing("_generateListOfParamsToScale")
    rets = [x for x in walk_local(f.node) if isinstance(x, ast.Return)]
    if len(rets) != 1 or not isinstance(rets[0].value, ast.Tuple) or len(rets[0].value.elts) != 2 or not all(isinstance(e, ast.Name) for e in rets[0].value.elts):
        raise AnalysisError("_generateListOfParamsToScale: expected `return (volumeIntegrated, flux)` of two locals")
    first, second = (e.id for e in rets[0].value.elts)
    defs = [st for st in walk_local(f.node) if isinstance(st, ast.Assign) and any(isinstance(t, ast.Name) and t.id == first for t in st.targets)]
    src = [d for d in defs if "VOLUME_INTEGRATED" in norm(d.value)]
    r.require(bool(src), "list:from-volume-integrated-definitions", f, msg="the list must start from paramDefs.atLocation(VOLUME_INTEGRATED)")
    for d in defs:
        names = {n.id for n in ast.walk(d.value) if isinstance(n, ast.Name)}
        r.require(second not in names, f"list:not-narrowed:{norm(d)[:50]}", f, node=d,
                  msg=f"`{norm(d)[:80]}` removes or selects by `{second}`: the multigroup fluxes then leave the list that the third-to-full-core changer triples, "
                      "so their full-core totals are not three times the third-core totals")
    # scale and unscale of the centre assembly must be the SAME operation with the direction's operator on every kind of
    # value (scalar, array, list): a literal `* 3` in one branch triples on the way back as well
    sc = idx.method(GC + ".ThirdCoreHexToFullCoreChanger", "_scaleBlockVolIntegratedParams")
    if sc is None:
        raise AnchorMissing("ThirdCoreHexToFullCoreChanger._scaleBlockVolIntegratedParams")
    opname = next((norm(x.targets[0]) for x in walk_local(sc.node) if isinstance(x, ast.Assign) and isinstance(x.value, ast.Attribute) and dotted(x.value) in ("operator.mul", "operator.truediv")), None)
    if opname is None:
        raise AnalysisError("_scaleBlockVolIntegratedParams: direction operator not found")
    sts = [x for x in iter_stores(sc.node) if x.kind == "subscript" and ".p[" in norm(x.node)]
    if not sts:
        raise AnalysisError("_scaleBlockVolIntegratedParams: parameter stores not found")
    for i, st_ in enumerate(sts):
        uses_op = any(isinstance(x, ast.Call) and dotted(x.func) == opname for x in ast.walk(st_.value))
        literal = any(isinstance(x, ast.BinOp) and isinstance(x.op, (ast.Mult, ast.Div)) and any(isinstance(y, ast.Constant) and y.value in (3, 3.0) for y in (x.left, x.right)) for x in ast.walk(st_.value))
        r.require(uses_op and not literal, f"scale:branch{i}:uses-direction-operator", sc, node=st_.stmt,
                  msg=f"`{norm(st_.stmt)[:80]}` does not go through the direction's operator `{opname}`: this kind of value is scaled the same way when growing and when restoring "
                      "(x3 then x3 again: nine times the original after a round trip)")
    # the symmetry change itself drops every cached symmetry-dependent value in the core
    from .c02 import r6_unconditional_invalidation
    r6_unconditional_invalidation(idx, r, only={"armi.reactor.cores.Core.symmetry", "armi.reactor.assemblies.Assembly.moveTo"})
    # copies rotated into place add their rotation to the orientation they were copied with
    rt = idx.method("armi.reactor.blocks.HexBlock", "rotate")
    if rt is None:
        raise AnchorMissing("HexBlock.rotate")
    ori = [n for n in walk_local(rt.node) if isinstance(n, (ast.AugAssign, ast.Assign)) and "orientation" in norm(n.targets[0] if isinstance(n, ast.Assign) else n.target)]
    sets = [c for c in iter_calls(rt.node) if call_attr(c) == "setRotationNum"]
    r.require(len(ori) == 1 and isinstance(ori[0], ast.AugAssign) and isinstance(ori[0].op, ast.Add) and not sets, "rotate:orientation-accumulates", rt, node=(ori[0] if ori else (sets[0] if sets else rt.node)),
              msg="rotating a block must ADD the rotation to its orientation; setting it replaces the source's orientation, so a copy of an already rotated assembly ends at 120/240 instead of source+120/240")


def r4_extensive_params_are_volume_integrated(idx, r):
    """The converters triple (and restore) exactly the BLOCK parameters declared at ParamLocation.VOLUME_INTEGRATED. A block
    parameter whose unit is a bare extensive unit (a mass in kg / g, a power in W / MW) is such a total and must
    be declared there - declared AVERAGE it silently drops out of the scaling and the full-core total is not three times
    the third-core one."""
    EXT = {"units.KG", "units.GRAMS", "units.WATTS", "units.MW"}
    n = 0
    # BLOCK parameters only: the changer builds its list from the block parameter definitions
    mods = [m for m in idx.modules.values() if m.name.startswith("armi.") and ".tests" not in m.name
            and any(isinstance(x, ast.FunctionDef) and "block" in x.name.lower() and "param" in x.name.lower() for x in ast.walk(m.tree))]
    if not any(m.name == "armi.reactor.blockParameters" for m in mods):
        raise AnchorMissing("armi.reactor.blockParameters")
    for m in mods:
        modname = m.name
        par = m.parents()
        for c in ast.walk(m.tree):
            if not (isinstance(c, ast.Call) and call_attr(c) == "defParam" and c.args):
                continue
            nd0, infn = c, None
            while nd0 in par:
                nd0 = par[nd0]
                if isinstance(nd0, ast.FunctionDef):
                    infn = nd0.name if infn is None or ("block" in nd0.name.lower()) else infn
            if infn is None or "block" not in infn.lower():
                continue
            kw = {k.arg: k.value for k in c.keywords}
            u = kw.get("units")
            if u is None or dotted(u) not in EXT:
                continue
            loc = kw.get("location")
            if loc is None:
                nd = c
                while nd in par and loc is None:
                    nd = par[nd]
                    if isinstance(nd, ast.With):
                        for it in nd.items:
                            if isinstance(it.context_expr, ast.Call) and call_attr(it.context_expr) == "createBuilder":
                                loc = next((k.value for k in it.context_expr.keywords if k.arg == "location"), None)
            name = idx.fold(m, c.args[0]) if not isinstance(c.args[0], ast.Constant) else c.args[0].value
            n += 1
            if loc is None:
                r.undecided(f"{modname.rsplit('.', 1)[-1]}:{name}", m, "location not found", node=c)
                continue
            r.require(dotted(loc).endswith("VOLUME_INTEGRATED"), f"{modname.rsplit('.', 1)[-1]}:{name}", m, node=c,
                      msg=f"parameter `{name}` has the extensive unit {dotted(u)} but is declared at {dotted(loc)}: it is not among the parameters scaled when a third core is grown "
                          "to a full core, so its full-core total is not three times the third-core total")
    if n < 6:
        raise AnalysisError(f"only {n} parameters with extensive units found")


def r5_optional_centre(idx, r):
    """A third core need not have an assembly at its centre. convert() scales the centre only when there is one; the undo
    looks the centre up by location - a lookup that answers None for an empty location (it returns `dict.get(...)`) - and
    must not iterate / dereference the answer without testing it, or undoing a conversion of a core with a hole at
    001-001 stops half-way (copies removed, symmetry reset, record not cleared)."""
    core = idx.cls("armi.reactor.cores.Core")
    maynone = set()
    for name, f in core.methods.items():
        for x in walk_local(f.node):
            if isinstance(x, ast.Return) and x.value is not None:
                v = propagate(x.value, single_assign_env(f.node))
                if (isinstance(v, ast.Call) and call_attr(v) == "get" and len(v.args) == 1) or (isinstance(v, ast.Constant) and v.value is None):
                    maynone.add(name)
    if "getAssemblyWithStringLocation" not in maynone:
        raise AnalysisError("Core.getAssemblyWithStringLocation no longer answers through dict.get (revisit R13.5)")
    m = idx.module(GC)
    n = 0
    for f in m.all_funcs():
        for st_ in walk_local(f.node):
            if not (isinstance(st_, ast.Assign) and len(st_.targets) == 1 and isinstance(st_.targets[0], ast.Name) and isinstance(st_.value, ast.Call) and call_attr(st_.value) in maynone):
                continue
            nm = st_.targets[0].id
            uses = [x for x in walk_local(f.node) if (isinstance(x, ast.For) and isinstance(x.iter, ast.Name) and x.iter.id == nm)
                    or (isinstance(x, ast.Attribute) and isinstance(x.value, ast.Name) and x.value.id == nm and getattr(x, "lineno", 0) > st_.lineno)]
            for u in uses:
                n += 1
                guarded = any(pol and (norm(t) in (nm, f"{nm} is not None")) for t, pol in path_conditions(f.node, u)) or \
                    any((not pol) and norm(t) in (f"{nm} is None",) for t, pol in path_conditions(f.node, u))
                r.require(guarded, f"{f.qualname}:{nm}:{call_attr(st_.value)}:used-only-when-present", f, node=u,
                          msg=f"`{nm} = ...{call_attr(st_.value)}(...)` is None when the location is empty, and `{norm(u)[:50]}` uses it untested: for a core without an assembly "
                              "at that location the operation raises TypeError after it has already changed the core")
    if n < 1:
        raise AnalysisError("no use of a by-location lookup found in the geometry converters")


def r6_pairing_order_and_targets(idx, r):
    """(a) scaleParamsRelatedToSymmetry walks the assemblies of the two symmetry lines pairwise (zip): both lists must come out ordered by RING,
    innermost first - raw grid indices run the other way along the 120-degree line.  (b) when a multigroup flux is recombined, the
    matching scalar flux is the one rewritten: mgFlux -> flux, adjMgFlux -> fluxAdj, mgFluxGamma -> fluxGamma (distinct targets).
    (c) the rotated copies placed by convert() carry a displacement turned with the same matrix as everything else (shared with R08.4)."""
    f = idx.method("armi.reactor.cores.Core", "getAssembliesOnSymmetryLine")
    keys = [k.value for c in iter_calls(f.node) if call_attr(c) in ("sort",) or dotted(c.func) == "sorted" for k in c.keywords if k.arg == "key"]
    if len(keys) != 1:
        raise AnchorMissing("Core.getAssembliesOnSymmetryLine: one sort with a key")
    ktxt = norm(keys[0])
    if "getRingPos" in ktxt or "getRing(" in ktxt:
        r.ok("symmetry-line:ordered-by-ring", f, node=keys[0])
    elif any(t in ktxt for t in ("getCompleteIndices", "indices", ".i", ".j", "getLocation", "getName", "getNum")):
        r.violate("symmetry-line:ordered-by-ring", f, f"the assemblies of a symmetry line are ordered by `{ktxt}`, not by ring: along the 120-degree line grid indices (and names) do not grow with the ring, "
                  "so the pairwise walk in scaleParamsRelatedToSymmetry combines a ring-3 assembly with the ring-5 one of the other line", node=keys[0])
    else:
        raise AnalysisError(f"getAssembliesOnSymmetryLine: sort key `{ktxt}` not understood")
    sp = idx.method(GC + ".EdgeAssemblyChanger", "scaleParamsRelatedToSymmetry")
    z = [n for n in walk_local(sp.node) if isinstance(n, ast.For) and isinstance(n.iter, ast.Call) and dotted(n.iter.func) == "zip"]
    r.require(len(z) >= 2, "symmetry-line:walked-pairwise", sp, msg="assemblies and their blocks are walked pairwise")
    sf = idx.func(GC + "._scaleFluxValues")
    pn = sf.params()[2]
    seen = {}
    for n in walk_local(sf.node):
        if isinstance(n, ast.If) and isinstance(n.test, ast.Compare) and norm(n.test.left) == pn and isinstance(n.test.comparators[0], ast.Constant):
            name = n.test.comparators[0].value
            tg = [s_.attr for s_ in iter_stores(ast.Module(body=n.body, type_ignores=[])) if s_.chain and s_.chain.startswith(sf.params()[0] + ".p.")]
            if len(tg) != 1:
                raise AnalysisError(f"_scaleFluxValues: branch for {name!r} not understood")
            seen[name] = tg[0]
    if len(seen) < 3:
        raise AnchorMissing("_scaleFluxValues: branches for mgFlux / adjMgFlux / mgFluxGamma")
    for name, tgt in sorted(seen.items()):
        rest = name.replace("mgFlux", "").replace("MgFlux", "")
        r.require(tgt.lower() == "flux" + rest.lower(), f"flux-target:{name}", sf,
                  msg=f"recombining `{name}` rewrites the scalar `{tgt}`; it must rewrite `flux{rest[:1].upper() + rest[1:]}` - the scalar flux of another kind is overwritten and this one stays stale")
    r.require(len(set(seen.values())) == len(seen), "flux-target:distinct", sf, msg=f"each multigroup flux has its own scalar: {seen}")
    from .c08 import displacement_rotation
    displacement_rotation(idx, r)


def r7_era_reset_only_on_change(idx, r):
    """ALL_DEFINITIONS.resetAssignmentFlag(SINCE_LAST_GEOMETRY_TRANSFORMATION) starts a new 'assigned since the last transformation' era; the
    third-to-full conversion scales exactly the parameters assigned in the current era.  A changer method that resets the flag although it
    did not change the geometry (nothing added / nothing removed) makes every parameter look unassigned: the next conversion scales nothing on
    the centre assembly.  Each reset must therefore lie behind a test of what the method actually added or removed."""
    n = 0
    m = idx.module(GC)
    for f in m.all_funcs():
        for c in iter_calls(f.node):
            if call_attr(c) == "resetAssignmentFlag" and any("SINCE_LAST_GEOMETRY_TRANSFORMATION" in norm(a) for a in c.args):
                n += 1
                conds = [norm(t) for t, p in path_conditions(f.node, c) if p]
                changed = any(("_newAssembliesAdded" in t or "Removed" in t or "removed" in t or "assembliesToRemove" in t or "edgeAssemblies" in t) for t in conds)
                early = [x for x in walk_local(f.node) if isinstance(x, ast.Return) and x.lineno < c.lineno]
                if f.name == "addEdgeAssemblies":
                    r.require(changed, f"{f.qualname}:era-reset-only-after-a-change", f, node=c,
                              msg="the assignment-flag era is reset even when no edge assembly was added (a core without cells on the symmetry lines): every parameter then counts as "
                                  "'not assigned since the last transformation' and the next third-to-full conversion does not triple the centre assembly's volume-integrated parameters")
                else:
                    r.ok(f"{f.qualname}:era-reset", f, node=c)
    if n < 1:
        raise AnalysisError(f"only {n} resets of the SINCE_LAST_GEOMETRY_TRANSFORMATION flag found in the geometry converters")


def r8_edge_copies_rotated(idx, r):
    """An edge assembly is the image of a symmetry-line assembly under the core's 120-degree periodicity: the copy placed at the FIRST listed
    symmetric equivalent (the +120-degree image, R13.1/R08.1) must be rotated by that angle like the copies convert() makes - or its corner
    data, pin positions, orientation and displacement are those of the un-rotated source and the two operations disagree about that cell."""
    f = idx.method(GC + ".EdgeAssemblyChanger", "addEdgeAssemblies")
    cp = [s_ for s_ in iter_stores(f.node) if isinstance(s_.node, ast.Name) and isinstance(s_.value, ast.Call) and dotted(s_.value.func) == "copy.deepcopy"]
    if len(cp) != 1:
        raise AnchorMissing("addEdgeAssemblies: the deep copy of a symmetry-line assembly")
    v = cp[0].attr
    rot_calls = [c for c in iter_calls(f.node) if call_attr(c) == "rotate" and isinstance(c.func, ast.Attribute) and norm(c.func.value) == v]
    pick = [x for x in walk_local(f.node) if isinstance(x, ast.Subscript) and norm(x.value) == "locs" and isinstance(x.slice, ast.Constant)]
    if not pick:
        raise AnchorMissing("addEdgeAssemblies: choice of the symmetric equivalent (locs[n])")
    nth = pick[0].slice.value + 1
    if not rot_calls:
        r.violate("edge-copy:rotated-into-place", f, f"the copy placed at the {nth}. symmetric equivalent is never rotated: its corner/edge data, pin lattice, orientation and displacement are those of "
                  "the un-rotated source, while the third-to-full conversion puts a rotated copy into the same cell", node=cp[0].stmt)
        return
    E = ExprEval(consts={"math.pi": Poly.atom("pi")}, opaque=False)
    ang = E.ev(rot_calls[0].args[0])
    want = Poly.atom("pi") * Poly.const(2 * nth) / Poly.const(3)
    r.require(ang == want, "edge-copy:rotated-into-place", f, node=rot_calls[0], msg=f"the copy goes to the {nth}. image, i.e. the {120 * nth}-degree rotation of the cell, but is rotated by `{norm(rot_calls[0].args[0])}`")


def r9_symmetry_cut_sites(idx, r):
    """(a) HexBlock.getSymmetryFactor halves a block only when its assembly lies on one of the two lines that BOUND a third core (0 and 120
    degrees) while edge assemblies are present; the bisector (60 degrees) lies inside the domain.  (b) a component's integrated multigroup
    flux is cut by the parent's symmetry factor in BOTH its branches (block-level share and pin-level value), as Component.getMass is: full
    core = 3 x third core for pin-level fluxes too.  (c) a parameter counts as 'at' a location when its location flags CONTAIN it (shared
    with R11.2): compound locations such as TOP|CORNERS are rotated with the other corner data."""
    bounding_lines_rule(idx, r)
    g = idx.method("armi.reactor.components.component.Component", "getIntegratedMgFlux")
    _r9_rest(idx, r, g)


def bounding_lines_rule(idx, r):
    """shared with C08 (R08.9): only the 0- and 120-degree lines bound a third core"""
    f = idx.method("armi.reactor.blocks.HexBlock", "getSymmetryFactor")
    rets = [x for x in walk_local(f.node) if isinstance(x, ast.Return) and norm(x.value) == "2.0"]
    if len(rets) != 1:
        raise AnchorMissing("HexBlock.getSymmetryFactor: return 2.0")
    txt = " and ".join(norm(t) for t, p in path_conditions(f.node, rets[0]) if p)
    ok = "BOUNDARY_0_DEGREES" in txt and "BOUNDARY_120_DEGREES" in txt and "BOUNDARY_60_DEGREES" not in txt and " in " in txt
    r.require(ok, "getSymmetryFactor:only-the-two-bounding-lines", f, node=rets[0],
              msg=f"a block is halved under `{txt[:160]}`: only the 0- and 120-degree lines bound the third core; an assembly on the 60-degree bisector is whole, or the third-core mass drops when "
                  "edge assemblies are added and full core is no longer 3 x third core")


def _r9_rest(idx, r, g):
    n = 0
    for x in walk_local(g.node):
        if isinstance(x, ast.Return) and x.value is not None and "self.getVolume()" in norm(x.value):
            n += 1
            r.require("self.parent.getSymmetryFactor()" in norm(x.value) and any(isinstance(y, ast.BinOp) and isinstance(y.op, ast.Div) and norm(y.right) == "self.parent.getSymmetryFactor()" for y in ast.walk(x.value)),
                      f"getIntegratedMgFlux:return{n}:cut-by-the-parent-symmetry-factor", g, node=x,
                      msg=f"`{norm(x)[:80]}` integrates over the component's whole volume: in a symmetry-cut block (centre assembly, edge assemblies) the pin-level integrated flux is the factor too large")
    env = single_assign_env(g.node)
    vf = env.get("volumeFraction")
    r.require(n >= 1 and vf is not None and "self.parent.getSymmetryFactor()" in norm(vf), "getIntegratedMgFlux:block-level-share-cut-too", g, msg="the block-level branch takes the symmetry-cut share of the block")
    from .c11 import r2_classification
    r2_classification(idx, r)


def r10_rotation_of_copies_and_lookup(idx, r):
    """Sites other properties also depend on, decided here for the geometry conversions: (a) the assemblies convert() and addEdgeAssemblies
    create are rotated copies - HexBlock.rotate turns children, free coordinates (matrix applied from the left), boundary vectors (pivot
    along the first axis) by one angle (R08.4, the whole rule); (b) after edge assemblies were added or removed, a look-up by location answers
    from the present occupancy: the table is built per call (R14.13)."""
    from .c08 import r4_block_rotation
    from .c14 import location_table_fresh_rule
    r4_block_rotation(idx, r)
    location_table_fresh_rule(idx, r)
    # (c) the copies are independent of their sources: a __deepcopy__ override registers only the new object in the memo (R01.13) - a pin
    # lattice put into the memo is shared between a source block and its rotated copies
    from ..report import Only
    from .c01 import r13_single_parent_paths
    r13_single_parent_paths(idx, Only(r, ["Block.__deepcopy__", "Core.__deepcopy__", "Reactor.__deepcopy__", "ExcoreCollection.__deepcopy__", "HexBlock.__deepcopy__"]))
    # (d) the volume of a symmetry-cut block - what is multiplied by three and restored - is what Block.getArea answers on EVERY read: the
    # cached value is the returned one (clause of R02.15)
    from .c02 import r15_memo_and_mass_vector
    r15_memo_and_mass_vector(idx, Only(r, ["Block.getArea:cache-stores-what-it-returns"]))


def r11_pairing(idx, r):
    from ..pairing import pairing_rule
    pairing_rule(idx, r, ["armi.reactor.converters.geometryConverters", "armi.reactor.cores", "armi.utils.hexagon"], 60)


def _block_param_writers(m):
    """Functions of the module that rewrite parameters of a block they are GIVEN: {function name: (FuncInfo, names of the parameters p with a
    store to `p.p[...]` / `p.p.<name>`)}."""
    out = {}
    for f in m.all_funcs():
        ps = set(f.params())
        hit = set()
        for s_ in iter_stores(f.node, include_nested=False):
            ch = s_.chain or ""
            root = ch.split(".", 1)[0]
            if root in ps and root != "self" and (ch == root + ".p" and s_.kind.startswith("subscript") or ch.startswith(root + ".p.")):
                hit.add(root)
        if hit:
            out[f.name] = (f, hit)
    return out


def _is_location_selection(t, pol, loopvars):
    """`<loop variable>.getLocation() == '<label>'` (either order; `!=` on the negative side): the choice of an assembly by WHERE it is"""
    if not (isinstance(t, ast.Compare) and len(t.ops) == 1 and isinstance(t.ops[0], (ast.Eq, ast.NotEq))):
        return False
    if isinstance(t.ops[0], ast.Eq) != bool(pol):
        return False
    sides = [t.left, t.comparators[0]]
    for x, y in (sides, sides[::-1]):
        if isinstance(x, ast.Call) and call_attr(x) == "getLocation" and not x.args and isinstance(x.func, ast.Attribute) and isinstance(x.func.value, ast.Name) and x.func.value.id in loopvars \
                and isinstance(y, ast.Constant) and isinstance(y.value, str):
            return True
    return False


def _whole_assembly(src, env, depth=0):
    """the iterated object is an assembly as such (a plain name: loop variable, argument, result of a lookup), not a selection of its blocks
    (slice, comprehension, getBlocks(...)/getChildren...(...) with arguments, filter)"""
    if not isinstance(src, ast.Name):
        return False
    v = env.get(src.id)
    if v is None or depth > 4:
        return True
    if isinstance(v, ast.Name):
        return _whole_assembly(v, env, depth + 1)
    if isinstance(v, (ast.ListComp, ast.GeneratorExp, ast.Subscript, ast.List, ast.Tuple)):
        return False
    if isinstance(v, ast.Call):
        nm = (v.func.id if isinstance(v.func, ast.Name) else call_attr(v)) or ""
        if nm in ("filter", "list", "tuple", "sorted", "reversed", "iter") or nm.startswith(("getBlocks", "getChildren", "iterBlocks", "iterChildren")):
            return False
    return True


def r12_block_walks_total(idx, r):
    """The symmetry changers rewrite the volume-integrated parameters of blocks through helpers that take the block(s) as arguments
    (_scaleBlockVolIntegratedParams: x3 and /3 of the centre assembly; _scaleParamsInBlock: folding the two halves of an edge block).  Every call
    of such a helper whose block argument is the variable of an enclosing `for` is a WALK over an assembly (or over two assemblies in step), and
    the property speaks of every block: (a) the walk runs over the assembly itself (all its blocks), (b) the helper is reached exactly once in
    every iteration and the walk is never left early, (c) between the outermost loop and the call the only selection is that of the assembly by
    its location (the centre assembly).  A guard on anything the block or assembly REPORTS about itself (symmetry factor, flags, a parameter)
    leaves the blocks it excludes with their unscaled values."""
    m = idx.module(GC)
    helpers = _block_param_writers(m)
    if not helpers:
        raise AnchorMissing("geometryConverters: no helper that rewrites the parameters of a block passed to it")
    par = m.parents()
    n = 0
    for f in m.all_funcs():
        env = single_assign_env(f.node)
        for c in iter_calls(f.node):
            hn = c.func.id if isinstance(c.func, ast.Name) else call_attr(c)
            if hn not in helpers:
                continue
            hf, bps = helpers[hn]
            hp = hf.params()
            if isinstance(c.func, ast.Attribute) and hp and hp[0] in ("self", "cls"):
                hp = hp[1:]
            blockargs = [a_.id for p_, a_ in zip(hp, c.args) if p_ in bps and isinstance(a_, ast.Name)]
            blockargs += [k.value.id for k in c.keywords if k.arg in bps and isinstance(k.value, ast.Name)]
            # enclosing loops, innermost first
            loops, nd = [], c
            while nd in par and nd is not f.node:
                nd = par[nd]
                if isinstance(nd, ast.For):
                    loops.append(nd)
            bound = {}
            for lp in loops:
                for x in ast.walk(lp.target):
                    if isinstance(x, ast.Name):
                        bound.setdefault(x.id, lp)
            walk = next((bound[b_] for b_ in blockargs if b_ in bound), None)
            if walk is None:
                continue  # the block is the caller's own argument: a dispatch inside a helper, not a walk
            n += 1
            key = f"{f.qualname}:{hn}"
            fold = len(bps) > 1
            what = ("the two halves of that edge block are not folded together: once the edge assemblies are removed the remaining block keeps half of its power and of every other "
                    "volume-integrated parameter" if fold else
                    "that block keeps its unscaled volume-integrated parameters: the centre assembly's totals are not tripled (or not divided back on restore), so full core is not 3 x third core")
            # (a) the walk is over whole assemblies
            it = walk.iter
            srcs = it.args if isinstance(it, ast.Call) and dotted(it.func) == "zip" and not it.keywords else [it]
            whole = all(_whole_assembly(s_, env) for s_ in srcs) and all(b_ in bound and bound[b_] is walk for b_ in blockargs)
            r.require(whole, key + ":walks-the-whole-assembly", f, node=walk,
                      msg=f"`for {norm(walk.target)} in {norm(walk.iter)[:60]}` does not run over the assembly itself (all of its blocks, pairwise for two assemblies): for a block that the selection leaves out, {what}")
            # (b) exactly once per iteration, never left early
            fb = Flow(f.node, lambda x, c=c: ["helper"] if x is c else [], body=walk.body).run()
            ends = fb.iteration_ends()
            early = [e for e in fb.exits if e.kind in ("break", "return")]
            skipping = [norm(propagate(t, env))[:70] + ("" if p else " is false") for t, p in path_conditions(ast.Module(body=walk.body, type_ignores=[]), c)]
            r.require(bool(ends) and all(s_.get("helper") == (1, 1) for s_ in ends) and not early, key + ":every-block-once", f, node=c,
                      msg=f"{hn}(...) is not reached exactly once for every block of the walk (per iteration (min,max)={[s_.get('helper', (0, 0)) for s_ in ends]}, "
                          f"reached only when {skipping}, walk left early at lines {[e.line for e in early]}): for a block that is passed over, {what}")
            # (c) from the outermost loop down to the walk: the only selection is by location, no loop is left early
            outer = loops[-1]
            sel = [(propagate(t, env), p) for t, p in path_conditions(ast.Module(body=outer.body, type_ignores=[]), walk)] if outer is not walk else []
            badsel = [norm(t)[:70] + ("" if p else " is false") for t, p in sel if not _is_location_selection(t, p, set(bound))]
            left = []
            for lp in loops[loops.index(walk) + 1:]:
                fo = Flow(f.node, lambda x: [], body=lp.body).run()
                left += [e.line for e in fo.exits if e.kind in ("break", "return")]
            r.require(not badsel and not left, key + ":assemblies-chosen-by-location-only", f, node=walk,
                      msg=f"the walk over the blocks is entered only when {badsel} (enclosing loop left early at lines {left}): which assemblies are rescaled follows from where they are (the centre; the two "
                          f"symmetry lines), not from what they report about themselves - for every block of an assembly that is passed over, {what}")
    if n < 3:
        raise AnalysisError(f"only {n} walks over blocks through a parameter-rewriting helper found in the geometry converters (convert, restorePreviousGeometry, scaleParamsRelatedToSymmetry expected)")


def r13_new_assemblies_registered(idx, r):
    """'location and name lookups that resolve exactly as they did before' / every new assembly of the full core (and every edge assembly) enters the
    core through Core.add and leaves it through Core.removeAssembly(discharge=False) -> _removeListFromAuxiliaries: on EVERY normal path Core.add
    registers the child, its locator, its name and the names of all its blocks (exactly once, under the current names, at the locator moved to),
    and the purge deletes the assembly's name and every block's name.  Clauses of R14.2, decided by its rule function."""
    from ..report import Only
    from .c14 import r2_add_remove
    r2_add_remove(idx, Only(r, ["Core.add:", "Core._removeListFromAuxiliaries"]))


def run(idx, chk):
    chk.explanation = (
        "C13: in ThirdCoreHexToFullCoreChanger.convert every symmetric location gets exactly one deep-copied, uniquely named, rotated and recorded "
        "assembly (all-paths counting per iteration); the n-th listed image is, exactly (Q(sqrt3) algebra), the n x 120-degree rotation that convert "
        "applies to it; restore removes exactly the recorded assemblies with discharge=False and Core.removeAssembly pools only when discharging; edge "
        "assemblies added iff recorded; the remaining boundary assemblies' caches are cleared; scale up/down are inverse (mul/truediv by 3) under the "
        "same centre condition and the parameter list is computed after the geometry changes. x3 totals and exact restoration as numbers are NOT decided."
    )
    chk.undecided_clauses = ["x3 totals as numbers", "bit-exact restoration of every parameter"]
    chk.run_rule("R13.1", "add/undo pairing: one unique rotated recorded copy per image at the image's cell; undo removes exactly those without discharge; edge assemblies likewise; caches of the remaining boundary assemblies cleared",
                 lambda r: r1_pairing(idx, r), floor=20, necessary="each new assembly is an independent copy rotated into place; undoing returns the core to its previous state")
    chk.run_rule("R13.2", "scale and unscale are inverse (x3 / /3) on the same parameters under the same centre condition; list computed after the geometry changed; moves rescale by old/new symmetry factor",
                 lambda r: r2_scaling(idx, r), floor=12, necessary="the centre assembly counts once; restore returns the parameters")
    chk.run_rule("R13.3", "the scaled list is the complete volume-integrated list; symmetry changes and moves drop caches unconditionally; rotation adds to the orientation", lambda r: r3_complete_scaling_list(idx, r), floor=5,
                 necessary="'volume and every volume-integrated total are three times the third-core values'; 'rotated into place'")
    chk.run_rule("R13.4", "block parameters with a bare extensive unit (kg, g, W, MW) are declared VOLUME_INTEGRATED", lambda r: r4_extensive_params_are_volume_integrated(idx, r), floor=6,
                 necessary="'every volume-integrated total [is] three times the third-core value': the declaration is what puts a total on the scaled list")
    chk.run_rule("R13.5", "the answer of a by-location lookup (None for an empty location) is used only after being tested", lambda r: r5_optional_centre(idx, r), floor=1,
                 necessary="'undoing the conversion returns the core to its previous state' - also for a core without a centre assembly")
    chk.run_rule("R13.6", "symmetry-line assemblies are paired by ring; each recombined multigroup flux rewrites its own scalar; displacement turns with the copy", lambda r: r6_pairing_order_and_targets(idx, r), floor=8,
                 necessary="add-edge / scale / remove-edge restores every block's parameters; every new assembly is its source rotated into place")
    chk.run_rule("R13.7", "addEdgeAssemblies starts a new assignment-flag era only when it actually added assemblies", lambda r: r7_era_reset_only_on_change(idx, r), floor=1,
                 necessary="volume-integrated totals triple on conversion whatever no-op operations preceded it")
    chk.run_rule("R13.8", "an edge-assembly copy is rotated by the angle of the image it is placed at", lambda r: r8_edge_copies_rotated(idx, r), floor=1,
                 necessary="every new assembly is its source rotated into place")
    chk.run_rule("R13.9", "only the 0/120-degree lines halve a block; integrated flux cut by the symmetry factor in both branches; location flags tested by containment", lambda r: r9_symmetry_cut_sites(idx, r), floor=6,
                 necessary="volume-integrated totals of the full core are three times those of the third core; every copy is its source rotated")
    chk.run_rule("R13.10", "copies are rotated as a whole (children, coordinates, boundary vectors); the location table is built per call", lambda r: r10_rotation_of_copies_and_lookup(idx, r), floor=8,
                 necessary="each created assembly is the rotated copy of its source; lookups after a change of the edge assemblies see the present core")
    chk.run_rule("R13.11", "arguments stand at the parameter they are named after; sibling calls forward the same pass-through parameters", lambda r: r11_pairing(idx, r), floor=1,
                 necessary="source and image locations are not exchanged")
    chk.run_rule("R13.12", "every walk over the blocks of an assembly through a parameter-rewriting helper (x3, /3, folding of edge halves) reaches the helper exactly once for every block of the whole assembly; "
                 "assemblies are selected by location only", lambda r: r12_block_walks_total(idx, r), floor=9,
                 necessary="'every volume-integrated total [is] three times the third-core value' and 'adding then removing edge assemblies returns the core to its previous state ... with the same parameters': "
                           "a block the walk passes over keeps its unscaled / unfolded parameters")
    chk.run_rule("R13.13", "Core.add registers child, locator, name and the names of all blocks on every normal path; the purge of a removed assembly deletes its name and every block's name (clauses of R14.2)",
                 lambda r: r13_new_assemblies_registered(idx, r), floor=8,
                 necessary="'each new assembly [is] a uniquely named copy' that the full core can look up, and after the undo 'location and name lookups resolve exactly as they did before the conversion'")
