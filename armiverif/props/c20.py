"""C20 - XS groups partition the blocks; representative blocks are true averages: role typing of
every weighted mean (degree 0 in the weights), aggregation over candidate blocks only, sibling
weights, one append per block, environment-group encoding, label codec width, purity of the
representative-block builders.  Structural necessary conditions only."""
from __future__ import annotations

import ast

from ..astutil import call_attr, iter_calls, iter_stores, propagate, single_assign_env, walk_local
from ..exprnf import ExprEval, Poly
from ..flow import Flow, path_conditions
from ..index import AnalysisError, AnchorMissing, dotted, norm
from ..units import LIT, ONE, TOP, ZERO, Law, U, analyze, known

M = "armi.physics.neutronics.crossSectionGroupManager"
N = U("atom b^-1 cm^-1")
W = U("W cm^3")
K, BU, G, CM3, CM2, CM = U("K"), U("Bu"), U("g"), U("cm^3"), U("cm^2"), U("cm")


def _law(names=None):
    return Law(
        methods={"getWeight": W, "getVolume": CM3, "getArea": CM2, "getHeight": CM, "getMass": G, "getNuclideNumberDensities": N, "getNumberDensities": N,
                 "getCandidateBlocks": TOP, "getComponents": TOP, "_getAllNucs": TOP, "getVolumeFractions": (TOP, U("vf")), "_getNucTempHelper": (U("X K"), U("X")),
                 "getBlockNuclideTemperatureAvgTerms": (U("Y K"), U("Y")), "getNumberDensitiesWithTrace": N},
        attr_suffix={".p.massHmBOL": G, ".p.percentBu": BU, ".temperatureInC": K, ".allNuclidesInProblem": TOP},
        consts={"TRACE_NUMBER_DENSITY": N},
        names=names or {},
    )


AVERAGES = [
    ("AverageBlockCollection._getAverageNumberDensities", {}, N, "value"),
    ("AverageBlockCollection._getAverageComponentNumberDensities", {}, N, "value"),
    ("AverageBlockCollection._getAverageComponentTemperature", {}, K, "value"),
    ("CylindricalComponentsAverageBlockCollection._getAverageComponentNucs", {"bWeights": W}, N, "second"),
    ("SlabComponentsAverageBlockCollection._getAverageComponentNucs", {"bWeights": W}, N, "second"),
    ("BlockCollection._calcWeightedBurnup", {}, BU, "value"),
    ("getBlockNuclideTemperatureAvgTerms", {}, None, "pair"),
]


def r1_means(idx, r):
    for q, names, want, mode in AVERAGES:
        f = idx.func(f"{M}.{q}")
        ev = analyze(f.node, _law(names))
        key = q
        if ev.conflicts:
            node, a, b, what = ev.conflicts[0]
            r.violate(key, f, f"`{norm(node)[:80]}` combines {a} with {b} ({what}): numerator and normaliser are not built from the same weights", node=node)
            continue
        if not ev.returns:
            raise AnalysisError(f"{q}: no return")
        ok = True
        for st, u in ev.returns:
            if mode == "second":
                u = u[1] if isinstance(u, tuple) and len(u) == 2 else TOP
            if mode == "pair":
                if not (isinstance(u, tuple) and len(u) == 2 and known(ev.flat(u[0])) and known(ev.flat(u[1]))):
                    raise AnalysisError(f"{q}: pair of sums not typed")
                ratio = ev.flat(u[0]) / ev.flat(u[1])
                if ratio != K:
                    r.violate(key, f, f"numerator/denominator of the nuclide-temperature average has unit {ratio}, must be a temperature (same n x v weights in both)", node=st)
                    ok = False
                continue
            uu = ev.flat(u)
            if uu == ZERO or isinstance(uu, type(LIT)) and norm(st.value) in ("0.0",):
                continue
            if not known(uu):
                if isinstance(st.value, ast.IfExp):
                    uu = ev.flat(ev.e(st.value.orelse))
                if not known(uu):
                    raise AnalysisError(f"{q}: return `{norm(st.value)[:60]}` left the typed fragment")
            if uu != want:
                extra = f" (degree {uu.exp('W')} in the weights)" if uu.exp("W") != 0 else ""
                r.violate(key, f, f"returns {uu}; a weight-normalised mean must have the unit of the averaged quantity, {want}{extra}", node=st)
                ok = False
        if ok:
            r.ok(key, f, msg=f"degree 0 in the weights, unit {want}")
    # calcAvgNuclideTemperatures divides the matching sums
    ca = idx.func(f"{M}.BlockCollection.calcAvgNuclideTemperatures")
    ev = analyze(ca.node, _law())
    st = [s for s in iter_stores(ca.node) if s.attr == "avgTemp"]
    okc = bool(st) and not ev.conflicts and norm(st[0].value) == "0.0 if nvCurrent == 0.0 else nvtCurrent / nvCurrent"
    env = single_assign_env(ca.node)
    r.require(okc, "calcAvgNuclideTemperatures", ca, msg="average temperature = sum(n v T) / sum(n v) per nuclide (0 when the nuclide is absent)")
    # every _getNucTempHelper accumulates both sums with the same block weight
    for c in idx.module(M).classes.values():
        f = c.methods.get("_getNucTempHelper")
        if f is None or any(isinstance(x, ast.Raise) for x in f.node.body):
            continue
        txt = norm(f.node)
        if "getBlockNuclideTemperatureAvgTerms" in txt:
            aug = [n for n in walk_local(f.node) if isinstance(n, ast.AugAssign)]
            if not aug:  # the terms of one (median) block, nothing accumulated
                r.require("self._getMedianBlock()" in norm(propagate([n for n in walk_local(f.node) if isinstance(n, ast.Return)][0].value, single_assign_env(f.node))), f"{c.name}._getNucTempHelper:median-block", f,
                          msg="the median collection's temperatures are those of the median block")
                continue
            ws = {norm(n.value.right) for n in aug if isinstance(n.value, ast.BinOp) and isinstance(n.value.op, ast.Mult)}
            r.require(len(aug) == 2 and len(ws) == 1 and all(isinstance(n.op, ast.Add) for n in aug), f"{c.name}._getNucTempHelper:same-weight", f, msg=f"both sums must be weighted by the same block weight: {sorted(ws)}")
            loop = next((n for n in f.node.body if isinstance(n, ast.For)), None)
            r.require(loop is not None and norm(loop.iter) == "self.getCandidateBlocks()", f"{c.name}._getNucTempHelper:candidates", f, node=loop, msg="only candidate blocks contribute")


def r1b_sibling_weights(idx, r):
    """The block-level and the by-component density averages use the same weights."""
    defs = {}
    for q in ("AverageBlockCollection._getAverageNumberDensities", "AverageBlockCollection._getAverageComponentNumberDensities"):
        f = idx.func(f"{M}.{q}")
        w = [s for s in iter_stores(f.node) if s.attr == "weights" and s.kind == "assign" and s.value is not None]
        nrm = [n for n in walk_local(f.node) if isinstance(n, ast.AugAssign) and norm(n.target) == "weights"]
        if not w:
            raise AnalysisError(f"{q}: weights not found")
        defs[q] = (f, norm(w[0].value), [norm(n) for n in nrm])
    (fa, wa, na), (fb, wb, nb) = defs.values()
    r.require(wa == wb == "np.array([self.getWeight(b) for b in blocks])", "density-average-weights", fb, msg=f"block-level average weights `{wa}` vs by-component weights `{wb}`: both must be the collection's getWeight(b) (by-component densities must homogenise to the block-level average)")
    r.require(na == nb == ["weights /= weights.sum()"], "density-average-normalisation", fb, msg=f"weights must be normalised by their own sum in both: {na} / {nb}")
    for q in ("CylindricalComponentsAverageBlockCollection", "SlabComponentsAverageBlockCollection", "CylindricalComponentsDuctHetAverageBlockCollection"):
        c = idx.cls(f"{M}.{q}")
        f = c.methods.get("_makeRepresentativeBlock")
        if f is None:
            continue
        bw = [s for s in iter_stores(f.node) if s.attr == "bWeights" and s.value is not None]
        if not bw and "bWeights" not in norm(f.node):
            continue  # delegates to the parent implementation
        r.require(bool(bw) and norm(bw[0].value) == "[self.getWeight(b) for b in self.getCandidateBlocks()]", f"{q}:bWeights", f, msg="component averages are weighted by getWeight of the candidate blocks, in candidate order")
    gw = idx.func(f"{M}.BlockCollection.getWeight")
    rets = [n for n in walk_local(gw.node) if isinstance(n, ast.Return)]
    r.require(len(rets) == 1 and norm(rets[0].value) == "weight * vol", "getWeight", gw, msg="weight = weighting parameter (or 1) x volume")


def r2_candidates(idx, r):
    m = idx.module(M)
    base = idx.cls(f"{M}.BlockCollection")
    frozen = {("BlockCollection.getCandidateBlocks", "self"): "defines the candidates", ("BlockCollection._checkValidWeightingFactors", "self"): "diagnostic listing of zero-weight blocks in an error message"}
    n = 0
    for c in [base] + idx.subclasses(base):
        for f in c.methods.values():
            env = single_assign_env(f.node)
            for x in walk_local(f.node, include_nested=True):
                it = None
                if isinstance(x, ast.For):
                    it = x.iter
                elif isinstance(x, ast.comprehension):
                    it = x.iter
                if it is None:
                    continue
                t = norm(propagate(it, env)) if not isinstance(it, ast.Name) or it.id in env else norm(it)
                itp = propagate(it, env) if isinstance(it, ast.Name) and it.id in env else it
                over_self = isinstance(itp, ast.Name) and itp.id == "self" or (isinstance(itp, ast.Call) and dotted(itp.func) in ("list", "iter", "zip", "enumerate", "sorted", "reversed")
                                                                              and any(isinstance(a, ast.Name) and a.id == "self" for a in itp.args))
                t = norm(itp)
                if over_self or t == "self.getCandidateBlocks()":
                    n += 1
                    key = f"{f.qualname}:iterates:{t}"
                    if t == "self.getCandidateBlocks()":
                        r.ok(key, f, node=it)
                    elif (f.qualname, "self") in frozen:
                        r.ok(key, f, node=it, msg="frozen: " + frozen[(f.qualname, "self")])
                    else:
                        r.violate(key, f, "aggregates over ALL members of the collection; the representative block must be built only from candidate (eligible) blocks", node=it)
            for cc in iter_calls(f.node):  # indexing / min / max / sorted over self
                if dotted(cc.func) in ("sorted", "min", "max", "sum", "len") and cc.args and norm(cc.args[0]) == "self" and f.qualname not in ("BlockCollection.__repr__",) and dotted(cc.func) != "len":
                    r.violate(f"{f.qualname}:{dotted(cc.func)}(self)", f, "selects among ALL members instead of the candidates", node=cc)
    if n < 12:
        raise AnalysisError(f"only {n} aggregation loops found")


def r3_partition(idx, r):
    f = idx.func(f"{M}.CrossSectionGroupManager._addXsGroupsFromBlocks")
    loop = next((n for n in f.node.body if isinstance(n, ast.For)), None)
    if loop is None:
        raise AnalysisError("_addXsGroupsFromBlocks loop not found")
    r.require(norm(loop.iter) == f.params()[2], "iterates-given-blocks", f, node=loop.iter, msg="every block handed in is considered")

    def ev(n):
        if isinstance(n, ast.Call) and call_attr(n) == "append" and norm(n.args[0]) == norm(loop.target):
            return ["append"]
        if isinstance(n, ast.Assign) and isinstance(n.targets[0], ast.Subscript) and norm(n.targets[0].value) == f.params()[1]:
            return ["store"]
        return []
    fb = Flow(f.node, ev, body=loop.body).run()
    ends = fb.iteration_ends()
    r.require(bool(ends) and all(s.get("append") == (1, 1) and s.get("store") == (1, 1) for s in ends) and not [e for e in fb.exits if e.kind in ("break", "return")], "one-append-per-block", f, node=loop,
              msg="each block must be appended to exactly one group, exactly once, unconditionally")
    env = {}
    for s in loop.body:
        if isinstance(s, ast.Assign) and isinstance(s.targets[0], ast.Name):
            env.setdefault(s.targets[0].id, s.value)
    grp = env.get("group")
    keyexpr = norm(propagate(grp.args[0], {k: v for k, v in env.items() if k == "xsID"})) if isinstance(grp, ast.Call) and call_attr(grp) == "get" else None
    r.require(keyexpr == f"{norm(loop.target)}.getMicroSuffix()", "group-key-is-micro-suffix", f, node=grp, msg=f"the group is keyed by the block's own XS type + environment group: `{keyexpr}`")
    st = next((s for s in loop.body if isinstance(s, ast.Assign) and isinstance(s.targets[0], ast.Subscript)), None)
    r.require(st is not None and norm(st.targets[0].slice) == "xsID" and norm(st.value) == "group", "group-stored-under-same-key", f, node=st, msg="the group must be stored back under the key it was looked up with")
    first = next((c for c in iter_calls(f.node) if dotted(c.func) == "self._updateEnvironmentGroups"), None)
    r.require(first is not None and first.lineno < loop.lineno and norm(first.args[0]) == f.params()[2], "env-groups-updated-first", f, node=first, msg="environment groups are refreshed for the same blocks before they are keyed")
    mk = idx.func(f"{M}.CrossSectionGroupManager.makeCrossSectionGroups")
    calls = [c for c in iter_calls(mk.node) if dotted(c.func) == "self._addXsGroupsFromBlocks"]
    r.require(bool(calls) and norm(calls[0].args[1]) == "self.r.core.getBlocks()", "all-core-blocks", mk, node=calls[0] if calls else None, msg="every block of the core is grouped")
    ug = idx.func(f"{M}.CrossSectionGroupManager._updateEnvironmentGroups")
    env = single_assign_env(ug.node)
    rets = [n for n in walk_local(ug.node) if isinstance(n, ast.Return)]
    skip = [n for n in rets if any("GroupBounds" in norm(propagate(t, env)) for t, p in path_conditions(ug.node, n) if p)]
    oks = len(skip) == 1
    if oks:
        conds = [norm(propagate(t, env)) for t, p in path_conditions(ug.node, skip[0]) if p]
        oks = any("_buGroupBounds" in c and "_tempGroupBounds" in c and " and " in c for c in conds)
    r.require(oks, "skip-only-when-single-bu-and-temp-group", ug, node=skip[0] if skip else None,
              msg="the update may be skipped only when there is a single burnup group AND a single temperature group; otherwise blocks in different environments share one XS group")
    enc = next((s for s in iter_stores(ug.node) if s.chain and s.chain.endswith(".p.envGroupNum")), None)
    if enc is None:
        r.violate("env-group-encoding", ug, "envGroupNum assignment not found")
    else:
        E = ExprEval()
        got = E.ev(enc.value)
        want = Poly.atom("tempGroupVal") * Poly.atom("numBuGroups") + Poly.atom("buGroupVal")
        r.require(got == want, "env-group-encoding", ug, node=enc.stmt, msg=f"environment group must be temp x numBuGroups + bu (injective mixed radix); normal form {got}")
    cmp_ = [n for n in walk_local(ug.node) if isinstance(n, ast.Compare) and norm(n.left) in ("bu", "tempC")]
    r.require(len(cmp_) == 2 and all(isinstance(n.ops[0], ast.LtE) for n in cmp_), "first-bound-not-exceeded", ug, msg="a block belongs to the first group whose upper bound it does not exceed (<=), for burnup and temperature alike")


def r4_label_codec(idx, r):
    m = idx.module(M)
    alpha = m.consts.get("_ALLOWABLE_XS_TYPE_LIST")
    if alpha is None:
        raise AnchorMissing("_ALLOWABLE_XS_TYPE_LIST")
    import string as _s

    txt = norm(alpha)
    if txt != "list(string.ascii_uppercase + string.ascii_lowercase)":
        try:
            labels = list(idx.fold(m, alpha))
        except AnalysisError:
            raise AnalysisError(f"admissible label alphabet `{txt}` does not fold")
    else:
        labels = list(_s.ascii_uppercase + _s.ascii_lowercase)
    enc = idx.func(f"{M}.getXSTypeNumberFromLabel")
    fmt = next((c.func.value.value for c in iter_calls(enc.node) if call_attr(c) == "format" and isinstance(c.func.value, ast.Constant)), None)
    if fmt is None or not any(call_attr(c) == "ord" or dotted(c.func) == "ord" for c in iter_calls(enc.node)):
        raise AnalysisError("encoder shape not recognised")
    import re

    mw = re.fullmatch(r"\{:0(\d)d\}", fmt)
    if not mw:
        raise AnalysisError(f"encoder field format {fmt!r} outside fragment")
    minw = int(mw.group(1))
    widths = {c: max(minw, len(str(ord(c)))) for c in labels}
    r.require(len(set(widths.values())) == 1, "encoder-field-width-constant", enc,
              msg=f"the encoder renders one field per character with width {sorted(set(widths.values()))} over the admissible alphabet (codes {min(map(ord, labels))}..{max(map(ord, labels))}); the decoder cannot split a number whose fields have different widths")
    dec = idx.func(f"{M}.getXSTypeLabelFromNumber")
    two, thr, strict = None, None, True
    for n in walk_local(dec.node):
        if isinstance(n, ast.If) and isinstance(n.test, ast.Compare) and len(n.test.ops) == 1:
            a, b, op = n.test.left, n.test.comparators[0], n.test.ops[0]
            if norm(a) == "xsTypeNumber" and isinstance(op, (ast.Gt, ast.GtE)):       # number > T
                two, thr, strict = n, b, isinstance(op, ast.Gt)
                break
            if norm(b) == "xsTypeNumber" and isinstance(op, (ast.Lt, ast.LtE)):       # T < number
                two, thr, strict = n, a, isinstance(op, ast.Lt)
                break
    if two is None:
        raise AnalysisError("decoder threshold not found")
    thrv = ord(thr.args[0].value) if isinstance(thr, ast.Call) and dotted(thr.func) == "ord" else idx.fold(m, thr)
    if not strict:
        thrv -= 1  # n >= t  is  n > t - 1
    upper_max = max(ord(c) for c in labels if c.isupper())
    r.require(thrv >= upper_max, "decoder-uppercase-range", dec, node=two.test,
              msg=f"numbers above {thrv} are decoded as two-character labels, but the single upper-case labels encode up to {upper_max} ('{chr(upper_max)}'): "
                  f"'{chr(upper_max)}' does not convert back")
    single_max = max(ord(c) for c in labels)
    r.require(thrv >= single_max, "decoder-single-label-range", dec, node=two.test,
              msg=f"numbers above {thrv} are decoded as two-character labels, but single admissible labels encode up to {single_max}: they do not convert back")
    sl = [n for n in walk_local(dec.node) if isinstance(n, ast.Subscript) and isinstance(n.slice, ast.Slice) and "str(xsTypeNumber)" in norm(n.value)]
    cut = {norm(n.slice) for n in sl}
    r.require(cut == {":2", "2:"}, "decoder-slices", dec, msg=f"two-character numbers are split at the encoder's field width: {sorted(cut)}")


def r5_purity(idx, r):
    base = idx.cls(f"{M}.BlockCollection")
    for c in [base] + idx.subclasses(base):
        for meth in ("_makeRepresentativeBlock", "_getNewBlock", "_selectCandidateBlock"):
            f = c.methods.get(meth)
            if f is None or all(isinstance(s, (ast.Raise, ast.Expr)) for s in f.node.body):
                continue
            fresh = set()
            for s in iter_stores(f.node):
                if isinstance(s.node, ast.Name) and isinstance(s.value, ast.Call) and (dotted(s.value.func) in ("copy.deepcopy", "self._getNewBlock", "self._selectCandidateBlock") or call_attr(s.value) in ("duplicate",)):
                    fresh.add(s.attr)
            # names derived from fresh objects by iteration
            for x in walk_local(f.node):
                if isinstance(x, ast.For):
                    src = {n.id for n in ast.walk(x.iter) if isinstance(n, ast.Name)}
                    if src & fresh:
                        fresh |= {n.id for n in ast.walk(x.target) if isinstance(n, ast.Name)}
            bad = []
            for s in iter_stores(f.node):
                if s.chain and "." in s.chain:
                    root = s.chain.split(".")[0]
                    if root == "self" and s.chain.split(".")[1] in ("avgNucTemperatures", "_validRepresentativeBlockTypes", "weightingParam"):
                        continue
                    if root not in fresh:
                        bad.append(s)
            for cc in iter_calls(f.node):
                if isinstance(cc.func, ast.Attribute) and cc.func.attr.startswith(("set", "add", "remove", "clear", "rotate")) and not cc.func.attr.startswith("setdefault"):
                    root = (dotted(cc.func.value) or "?").split(".")[0]
                    if root not in fresh and root != "runLog":
                        bad.append(cc)
            key = f"{c.name}.{meth}"
            r.require(not bad, key, f, node=(bad[0].stmt if hasattr(bad[0], "stmt") else bad[0]) if bad else None,
                      msg="the representative block must be built on a copy; this statement changes an object that is not a fresh copy (a block of the core)")
        f = c.methods.get("_getNewBlock")
        if f is not None:
            rets = [n for n in walk_local(f.node) if isinstance(n, ast.Return)]
            env = single_assign_env(f.node)
            srcs = [norm(propagate(n.value, env)) for n in rets]
            r.require(all("copy.deepcopy(" in s_ or "_getNewBlock" in s_ for s_ in srcs), f"{c.name}._getNewBlock:copy", f, msg=f"a new block must be a deep copy of a candidate: {srcs}")
    med = idx.func(f"{M}.MedianBlockCollection._makeRepresentativeBlock")
    env = single_assign_env(med.node)
    ret = [n for n in walk_local(med.node) if isinstance(n, ast.Return)]
    r.require(len(ret) == 1 and norm(propagate(ret[0].value, env)) == "copy.deepcopy(self._getMedianBlock())", "Median:returns-copy-of-member", med, msg="the median representative is a deep copy of the chosen member")
    gm = idx.func(f"{M}.MedianBlockCollection._getMedianBlock")
    txt = norm(gm.node)
    r.require("info.sort()" in txt and "info[len(info) // 2]" in txt and "b.p.percentBu * self.getWeight(b)" in txt, "Median:median-of-weighted-burnup", gm, msg="the chosen member holds the median weighted burnup")


def r7_methods_exist(idx, r):
    """Every method the group manager invokes on an object that armi itself produced is defined somewhere."""
    from ..methods import check_functions

    m = idx.module(M)
    if m is None:
        raise AnchorMissing(M)
    for f, c, ok, what in check_functions(idx, list(m.all_funcs())):
        key = f"{f.qualname}:{what}"
        r.require(ok, key, f, node=c, msg=f"`{what}` is called on an object produced by armi code, but no class, function or attribute named `{c.func.attr}` exists in armi "
                  "or on a builtin type: the call raises AttributeError whenever this path runs")


def r8_component_index_space(idx, r):
    """By-component averaging pairs component k of the representative block with component k of every member. 'k'
    is produced by one enumerate() and consumed by indexing in the helpers; producer and consumers must order the
    components the same way (all `sorted(x.getComponents())`, or none)."""
    c = idx.cls(M + ".AverageBlockCollection")
    if c is None:
        raise AnchorMissing("AverageBlockCollection")

    def shape(e):
        """order-defining wrapper of a component listing: 'sorted' | 'plain' | None"""
        if isinstance(e, ast.Call) and dotted(e.func) == "sorted" and e.args and isinstance(e.args[0], ast.Call) and call_attr(e.args[0]) == "getComponents":
            return "sorted"
        if isinstance(e, ast.Call) and call_attr(e) == "getComponents":
            return "plain"
        return None
    producers, consumers = [], []
    for f in c.methods.values():
        for n in ast.walk(f.node):
            if isinstance(n, ast.Call) and dotted(n.func) == "enumerate" and n.args and shape(n.args[0]):
                producers.append((f, n, shape(n.args[0])))
            if isinstance(n, ast.Subscript) and shape(n.value) and isinstance(n.slice, ast.Name) and n.slice.id in f.params():
                consumers.append((f, n, shape(n.value)))
    if not producers or len(consumers) < 2:
        raise AnalysisError(f"AverageBlockCollection: {len(producers)} producers / {len(consumers)} consumers of a component index found")
    kinds = {k for _, _, k in producers} | {k for _, _, k in consumers}
    for f, n, k in producers + consumers:
        r.require(len(kinds) == 1, f"{f.name}:{norm(n)[:50]}", f, node=n,
                  msg=f"`{norm(n)[:60]}` lists components in {k} order while other sites use {sorted(kinds - {k})} order: component k of the representative block "
                      "receives the averages of another component whenever stored and sorted order differ")


def r9_weight_homogeneous(idx, r):
    """'unchanged by rescaling all weights': the weight of a block must scale with its weighting parameter
    (w(t p) = t w(p) for p, t > 0). Proved symbolically for the forms `p`, `p or c`; refuted by exact evaluation at
    p = 1/2, t = 2 for anything else that can be evaluated (max/min clamps)."""
    from fractions import Fraction

    f = idx.method(M + ".BlockCollection", "getWeight")
    if f is None:
        raise AnchorMissing("BlockCollection.getWeight")
    ws = [st for st in walk_local(f.node) if isinstance(st, ast.Assign) and isinstance(st.targets[0], ast.Name) and any(isinstance(x, ast.Subscript) and "weightingParam" in norm(x) for x in ast.walk(st.value))]
    if len(ws) != 1:
        raise AnalysisError("getWeight: the assignment reading the weighting parameter was not found")
    e = ws[0].value
    P = next(norm(x) for x in ast.walk(e) if isinstance(x, ast.Subscript) and "weightingParam" in norm(x))
    # canonical form (canon C11): `if not self.weightingParam: w = 1.0 else: w = <expr in p>` is one conditional expression; the branch taken
    # when a weighting parameter is configured is the one that reads it
    while isinstance(e, ast.IfExp) and P not in norm(e.test):
        e = e.body if P in norm(e.body) else e.orelse

    def val(x, p):
        if isinstance(x, ast.Subscript) and norm(x) == P:
            return p
        if isinstance(x, ast.Constant) and isinstance(x.value, (int, float)):
            return Fraction(x.value)
        if isinstance(x, ast.BoolOp) and isinstance(x.op, ast.Or):
            for v in x.values:
                t = val(v, p)
                if t:
                    return t
            return t
        if isinstance(x, ast.Call) and dotted(x.func) in ("max", "min", "abs", "float") and not x.keywords:
            a = [val(y, p) for y in x.args]
            return {"max": max, "min": min}[dotted(x.func)](a) if dotted(x.func) in ("max", "min") else (abs(a[0]) if dotted(x.func) == "abs" else a[0])
        if isinstance(x, ast.BinOp) and isinstance(x.op, (ast.Add, ast.Sub, ast.Mult, ast.Div)):
            a, b = val(x.left, p), val(x.right, p)
            return {ast.Add: a + b, ast.Sub: a - b, ast.Mult: a * b, ast.Div: a / b if b else None}[type(x.op)]
        raise AnalysisError(f"getWeight: `{norm(x)[:50]}` outside the evaluated fragment")

    proved = (isinstance(e, ast.Subscript) and norm(e) == P) or (isinstance(e, ast.BoolOp) and isinstance(e.op, ast.Or) and norm(e.values[0]) == P and all(isinstance(v, ast.Constant) for v in e.values[1:]))
    if proved:
        r.ok("weight:degree-1-in-the-weighting-parameter", f, node=ws[0], msg="w = p (or a constant only when p is zero)")
        return
    samples = [(Fraction(1, 2), 2), (Fraction(3), Fraction(1, 6)), (Fraction(1, 1000), 7)]
    for p, t in samples:
        if val(e, t * p) != t * val(e, p):
            r.violate("weight:degree-1-in-the-weighting-parameter", f, f"`{norm(ws[0])[:70]}`: for p = {p} the weight is {val(e, p)} but for {t} x p it is {val(e, t * p)}, not {t} x as much: "
                      "rescaling all weights (e.g. a normalised flux) changes the weighted means", node=ws[0])
            return
    r.undecided("weight:degree-1-in-the-weighting-parameter", f, f"`{norm(e)[:60]}` neither proved nor refuted", node=ws[0])


def r10_similarity_scans_all(idx, r):
    """By-component averaging is only valid when ALL members have matching components. _checkBlockSimilarity may answer
    False as soon as one mismatch is found, but True only after the scan over all members has completed: a `return True`
    inside the body of the loop over the members (e.g. attached to the INNER loop's else) answers after the first member."""
    f = idx.method(M + ".AverageBlockCollection", "_checkBlockSimilarity")
    if f is None:
        raise AnchorMissing("AverageBlockCollection._checkBlockSimilarity")
    outer = [n for n in f.node.body if isinstance(n, ast.For) and any(isinstance(x, ast.For) for x in ast.walk(ast.Module(body=n.body, type_ignores=[])))]
    if len(outer) != 1:
        raise AnalysisError(f"_checkBlockSimilarity: {len(outer)} nested member scans found")
    lp = outer[0]
    inside = [x for st in lp.body for x in ast.walk(st) if isinstance(x, ast.Return) and isinstance(x.value, ast.Constant) and x.value.value is True]
    r.require(not inside, "true-only-after-complete-scan", f, node=inside[0] if inside else lp,
              msg="`return True` sits inside the loop over the members: similarity is affirmed after the first member that matches the reference, a dissimilar member "
                  "further on is never compared, and non-matching components are averaged together")
    after = [x for st in lp.orelse + f.node.body[f.node.body.index(lp) + 1:] for x in ast.walk(st) if isinstance(x, ast.Return)]
    r.require(any(isinstance(x.value, ast.Constant) and x.value.value is True for x in after), "true-after-scan", f, node=lp, msg="a completed scan without mismatch must answer True")


def r11_component_weights_and_trace(idx, r):
    """(a) getWeight(block) is extensive in the block's height (parameter x block volume); inside a block the components share that height, so
    the per-component weight of a by-component average is block weight x component AREA.  Multiplying by a volume (or height, or mass) counts
    the height twice and members of different height are mis-weighted.  (b) the nuclide-temperature average substitutes the trace density
    exactly for a nuclide the component HOLDS with density zero; a nuclide the component does not hold contributes 0 (three-case evaluation)."""
    n = 0
    forms = set()
    for q, f in ((f.qualname, f) for f in idx.module(M).all_funcs() if f.name == "_getAverageComponentNucs"):
        loop = next((x for x in walk_local(f.node) if isinstance(x, ast.For) and isinstance(x.iter, ast.Call) and dotted(x.iter.func) == "zip" and isinstance(x.target, ast.Tuple) and len(x.target.elts) == 2), None)
        if loop is None:
            raise AnchorMissing(f"{q}: loop over zip(components, bWeights)")
        cv, wv = norm(loop.target.elts[0]), norm(loop.target.elts[1])
        ws = [s_ for s_ in iter_stores(loop) if s_.attr == "weight" and s_.kind == "assign" and s_.value is not None]
        if len(ws) != 1:
            raise AnchorMissing(f"{q}: weight = ...")
        n += 1
        v = ws[0].value
        geo = sorted(call_attr(c) for c in ast.walk(v) if isinstance(c, ast.Call) and isinstance(c.func, ast.Attribute) and norm(c.func.value) == cv)
        okw = isinstance(v, ast.BinOp) and isinstance(v.op, ast.Mult) and any(isinstance(x, ast.Name) and x.id == wv for x in ast.walk(v)) and geo in (["getArea"], ["getComponentArea"])
        forms.add(tuple(geo))
        r.require(okw, f"{q}:block-weight-times-area", f, node=ws[0].stmt,
                  msg=f"the component weight is `{norm(v)}` (geometric factors {geo}): the block weight already carries the block's volume, so the factor inside the block is the component's "
                      "area; with a volume the height is counted twice and members of different heights are averaged with the wrong weights")
    if n < 2:
        raise AnalysisError(f"only {n} _getAverageComponentNucs implementations found")
    r.require(len(forms) == 1, "sibling-component-weights-agree", idx.func(M + ".getBlockNuclideTemperatureAvgTerms"), msg=f"the sibling by-component averages use different geometric factors: {forms}")
    outer = idx.func(M + ".getBlockNuclideTemperatureAvgTerms")
    inner = next((x for x in outer.node.body if isinstance(x, ast.FunctionDef) and x.name == "getNumberDensitiesWithTrace"), None)
    if inner is None:
        raise AnchorMissing("getBlockNuclideTemperatureAvgTerms: getNumberDensitiesWithTrace")
    env = single_assign_env(inner)
    ret = next((x for x in ast.walk(inner) if isinstance(x, ast.Return) and isinstance(x.value, ast.ListComp)), None)
    if ret is None or len(ret.value.generators) != 1:
        raise AnalysisError("getNumberDensitiesWithTrace: list comprehension over the nuclide names expected")
    comp, key = inner.args.args[0].arg, norm(ret.value.generators[0].target)
    elt = propagate(ret.value.elt, env)
    table = f"{comp}.p.numberDensities"

    def ev(e, has, val):
        if isinstance(e, ast.Constant):
            return e.value
        if isinstance(e, ast.Name):
            if e.id == "TRACE_NUMBER_DENSITY":
                return "TRACE"
            raise AnalysisError(f"getNumberDensitiesWithTrace: name `{e.id}` not understood")
        if isinstance(e, ast.IfExp):
            return ev(e.body, has, val) if ev(e.test, has, val) else ev(e.orelse, has, val)
        if isinstance(e, ast.BoolOp):
            res = None
            for x in e.values:
                res = ev(x, has, val)
                if isinstance(e.op, ast.Or) and res:
                    return res
                if isinstance(e.op, ast.And) and not res:
                    return res
            return res
        if isinstance(e, ast.UnaryOp) and isinstance(e.op, ast.Not):
            return not ev(e.operand, has, val)
        if isinstance(e, ast.Subscript) and norm(e.value) == table and norm(e.slice) == key:
            if not has:
                raise AnalysisError("KeyError path")
            return val
        if isinstance(e, ast.Call) and call_attr(e) == "get" and norm(e.func.value) == table and e.args and norm(e.args[0]) == key:
            return val if has else (ev(e.args[1], has, val) if len(e.args) > 1 else None)
        if isinstance(e, ast.Compare) and len(e.ops) == 1 and norm(e.left) == key and norm(e.comparators[0]) == table and isinstance(e.ops[0], (ast.In, ast.NotIn)):
            return has if isinstance(e.ops[0], ast.In) else not has
        if isinstance(e, ast.Compare) and len(e.ops) == 1 and isinstance(e.ops[0], (ast.Is, ast.IsNot, ast.Eq, ast.NotEq, ast.Gt, ast.Lt)):
            a, b = ev(e.left, has, val), ev(e.comparators[0], has, val)
            return {ast.Is: a is b, ast.IsNot: a is not b, ast.Eq: a == b, ast.NotEq: a != b, ast.Gt: (a or 0) > (b or 0), ast.Lt: (a or 0) < (b or 0)}[type(e.ops[0])]
        raise AnalysisError(f"getNumberDensitiesWithTrace: `{norm(e)[:60]}` outside the evaluated fragment")
    got = [ev(elt, True, 0.5), ev(elt, True, 0.0), ev(elt, False, None)]
    r.require(got == [0.5, "TRACE", 0.0], "trace-density:only-for-held-zero-density-nuclides", outer, node=ret,
              msg=f"(held with density 0.5, held with density 0, not held) -> {got}; expected [0.5, 'TRACE', 0.0]: a component that does not hold the nuclide must not contribute - otherwise a "
                  "zero-density nuclide tracked in the fuel gets the all-component volume-average temperature instead of the fuel temperature")


def r12_weights_fallbacks_and_resets(idx, r):
    """(a) the component-temperature average weights each member by  block weight / block height  x component MASS: the mass already carries
    the block's height, so the block weight (parameter x volume) must be freed of it, or tall members count twice.  (b) a block whose
    (type, environment group) has no settings of its own borrows those of the LOWEST defined environment group of its type - the fall-back
    orders the candidates by envGroup.  (c) the list of XS IDs without candidates is rebuilt by every createRepresentativeBlocks call, before
    anything is appended to it (it drives the relabelling of blocks afterwards)."""
    f = idx.method(M + ".AverageBlockCollection", "_getAverageComponentTemperature")
    w = [s_ for s_ in iter_stores(f.node) if s_.attr == "weights" and s_.kind == "assign" and s_.value is not None]
    mass = any(isinstance(c, ast.Call) and call_attr(c) == "getMass" for c in ast.walk(f.node))
    if len(w) != 1 or not mass:
        raise AnchorMissing("_getAverageComponentTemperature: weights = ... and the component masses")
    wt = norm(w[0].value)
    r.require("self.getWeight(" in wt and any(isinstance(x, ast.BinOp) and isinstance(x.op, ast.Div) and call_attr(x.right) == "getHeight" if isinstance(x, ast.BinOp) and isinstance(x.right, ast.Call) else False for x in ast.walk(w[0].value)),
              "component-temperature:block-weight-per-unit-height", f, node=w[0].stmt,
              msg=f"weights = `{wt[:80]}` multiplied by component masses counts the block height twice (once in getWeight's volume, once in the mass): members of different heights are mis-weighted")
    g = idx.method("armi.physics.neutronics.crossSectionSettings.XSSettings", "__getitem__")
    pick = [c for c in ast.walk(g.node) if isinstance(c, ast.Call) and dotted(c.func) in ("sorted", "min") and c.args and norm(c.args[0]) == "existingXsOpts"]
    if len(pick) != 1:
        raise AnchorMissing("XSSettings.__getitem__: choice among existingXsOpts")
    key = next((k.value for k in pick[0].keywords if k.arg == "key"), None)
    r.require(key is not None and "envGroup" in norm(key) and "xsType" not in norm(key), "settings-fallback:lowest-environment-group", g, node=pick[0],
              msg=f"the fall-back picks by `{norm(key) if key is not None else None}`: all candidates share the XS type, so the first-inserted one wins instead of the lowest environment group")
    h = idx.method(M + ".CrossSectionGroupManager", "createRepresentativeBlocks")
    ap = [c for c in iter_calls(h.node) if norm(c.func) == "self._unrepresentedXSIDs.append"]
    if not ap:
        raise AnchorMissing("createRepresentativeBlocks: self._unrepresentedXSIDs.append(...)")
    fl = Flow(h.node, lambda nd: ["reset"] if isinstance(nd, ast.Assign) and norm(nd) == "self._unrepresentedXSIDs = []" else []).run()
    for c in ap:
        stb = fl.state_before(c)
        r.require(stb is not None and stb.get("reset", (0, 0))[0] >= 1, "unrepresented-ids:rebuilt-by-every-call", h, node=c,
                  msg="the list of unrepresented XS IDs is not emptied at the start of createRepresentativeBlocks: IDs found without candidates in an earlier call stay listed and the blocks a representative was "
                      "just built from are relabelled into another group")


def r13_candidates_needed(idx, r):
    """A group whose members are all ineligible has no candidate blocks.  Everything that derives a representative quantity from a collection
    (the representative block, the average nuclide temperatures - for the Median representation: the median block) is computed only for
    collections that HAVE candidates: the loops over the groups in the manager agree on that guard."""
    c = idx.cls(M + ".CrossSectionGroupManager")
    n = 0
    for name, f in c.methods.items():
        for lp in [x for x in walk_local(f.node) if isinstance(x, ast.For) and isinstance(x.iter, ast.Call) and call_attr(x.iter) == "items" and isinstance(x.target, ast.Tuple) and len(x.target.elts) == 2]:
            coll = norm(lp.target.elts[1])
            for call in [y for y in ast.walk(lp) if isinstance(y, ast.Call) and call_attr(y) in ("calcAvgNuclideTemperatures", "createRepresentativeBlock") and norm(y.func.value) == coll]:
                n += 1
                env = single_assign_env(f.node)
                conds = [norm(propagate(t, env)) for t, p in path_conditions(ast.Module(body=lp.body, type_ignores=[]), call)]
                r.require(any("getCandidateBlocks" in c_ for c_ in conds), f"{name}:{call_attr(call)}:only-with-candidates", f, node=call,
                          msg=f"`{norm(call)}` runs for every group, also one whose blocks are all ineligible: the Median representation then indexes an empty list (IndexError) where its sibling loop skips the group")
    if n < 2:
        raise AnalysisError(f"only {n} per-group derivations found in CrossSectionGroupManager")


def r14_filter_entries_weights_orderings(idx, r):
    """(a) a valid-block-type filter lists alternatives: BlockCollection.__init__ turns EACH entry into its own Flags value (a block is
    eligible when it has any of them); parsing a join of the entries gives one combined value that only a block with ALL the flags has.
    (b) every _getNucTempHelper weights a member by `self.getWeight(block)` - the same weight (parameter x volume, with the zero-flux guard)
    the density average uses; anything else makes temperature and density averages of one group disagree about who counts how much.
    (c) the by-component collections pair the components of the members with the components of the representative position by position:
    where the consumer walks `sorted(repBlock)`, the member lists are built from `sorted(b)` too."""
    f = idx.method(M + ".BlockCollection", "__init__")
    fs = [c for c in iter_calls(f.node) if dotted(c.func) == "Flags.fromString"]
    if not fs:
        raise AnchorMissing("BlockCollection.__init__: Flags.fromString")
    loopvars = {y.id for x in walk_local(f.node) if isinstance(x, (ast.For, ast.comprehension)) and "validBlockTypes" in norm(x.iter) for y in ast.walk(x.target) if isinstance(y, ast.Name)}
    for c in fs:
        r.require(bool(c.args) and isinstance(c.args[0], ast.Name) and c.args[0].id in loopvars, "BlockCollection:one-Flags-value-per-filter-entry", f, node=c,
                  msg=f"`{norm(c)[:70]}` does not parse one entry of validBlockTypes: a filter with several entries becomes one combined flag that a block must carry entirely (AND instead of OR), and the group loses its eligible members")
    n = 0
    for c in idx.subclasses(idx.cls(M + ".BlockCollection")):
        h = c.methods.get("_getNucTempHelper")
        if h is None:
            continue
        for s_ in iter_stores(h.node):
            if s_.kind == "assign" and isinstance(s_.node, ast.Name) and s_.node.id in ("wt", "weight", "w") and s_.value is not None:
                n += 1
                blk = next((norm(x.target) for x in walk_local(h.node) if isinstance(x, ast.For) and any(y is s_.stmt for y in ast.walk(x))), "block")
                r.require(norm(s_.value) == f"self.getWeight({blk})", f"{c.name}._getNucTempHelper:member-weight-is-getWeight", h, node=s_.stmt,
                          msg=f"`{norm(s_.stmt)[:80]}`: the temperature average weights a member differently from the density average (no volume factor, no zero-flux guard), so members of unequal volume are mis-weighted")
    if n < 2:
        raise AnchorMissing("_getNucTempHelper weights")
    k = 0
    for c in idx.subclasses(idx.cls(M + ".BlockCollection")):
        o = c.methods.get("_orderComponentsInGroup")
        if o is None:
            continue
        users = [m_ for m_ in c.methods.values() if any(call_attr(x) == "_orderComponentsInGroup" for x in iter_calls(m_.node))]
        consumer_sorted = any(isinstance(x, ast.Call) and dotted(x.func) == "zip" and x.args and norm(x.args[0]) == "sorted(repBlock)" for m_ in users for x in ast.walk(m_.node))
        if not consumer_sorted:
            continue
        lists = [s_ for s_ in iter_stores(o.node) if s_.kind == "assign" and isinstance(s_.node, ast.Name) and s_.node.id == "componentLists" and s_.value is not None]
        if len(lists) != 1:
            continue
        k += 1
        r.require("sorted(b)" in norm(lists[0].value), f"{c.name}._orderComponentsInGroup:members-ordered-like-the-representative", o, node=lists[0].stmt,
                  msg=f"`{norm(lists[0].stmt)[:80]}` keeps the members' own component order while the consumer pairs them with sorted(repBlock): for a block that does not list its components inside-out, "
                      "the fuel of the representative is averaged from the members' ducts")
    if k < 1:
        raise AnchorMissing("a by-component collection whose consumer pairs with sorted(repBlock)")


def r18_both_sides_and_one_order(idx, r):
    """(a) the component-consistency guards of the by-component collections compare a member component with the component of the
    REPRESENTATIVE at the same position: the two nuclide sets that are compared come one from each (a set compared with itself accepts
    every mirrored or mismatched member).  (b) calcAvgNuclideTemperatures reads the two sums of _getNucTempHelper by position: it walks
    `self.allNuclidesInProblem` in the very order the helper filled them - not a sorted copy."""
    n = 0
    for c in idx.subclasses(idx.cls(M + ".BlockCollection")):
        f = c.methods.get("_checkComponentConsistency")
        if f is None:
            continue
        sets_ = {s_.node.id: s_.value for s_ in iter_stores(f.node) if s_.kind == "assign" and isinstance(s_.node, ast.Name) and s_.value is not None and "getNuclides()" in norm(s_.value)}
        pairs = [(a_, b_) for a_ in sets_ for b_ in sets_ if a_ < b_ and any(isinstance(x, ast.Compare) and {a_, b_} <= {y.id for y in ast.walk(x) if isinstance(y, ast.Name)} for x in walk_local(f.node))]
        for a_, b_ in pairs:
            n += 1
            r.require(norm(sets_[a_]) != norm(sets_[b_]), f"{c.name}._checkComponentConsistency:{a_}-vs-{b_}:two-different-components", f,
                      msg=f"`{a_}` and `{b_}` are both `{norm(sets_[a_])[:50]}`: the guard compares a component with itself and can never refuse a member")
    if n < 1:
        raise AnchorMissing("_checkComponentConsistency: compared nuclide sets")
    # (c) which XS group a block joins is its (xsType, envGroup) label pair; the environment-group number <-> letter setters of the block
    # parameters are mutually inverse over all 52 groups (rule R04.8, the clause on envGroup)
    from ..report import Only
    from .c04 import r8_linked_setters
    r8_linked_setters(idx, Only(r, ["envGroup"]))
    g = idx.method(M + ".BlockCollection", "calcAvgNuclideTemperatures")
    loops = [x for x in walk_local(g.node) if isinstance(x, ast.For) and "allNuclidesInProblem" in norm(x.iter)]
    if len(loops) != 1:
        raise AnchorMissing("calcAvgNuclideTemperatures: loop over the nuclides")
    r.require(norm(loops[0].iter) in ("enumerate(self.allNuclidesInProblem)", "self.allNuclidesInProblem"), "calcAvgNuclideTemperatures:same-order-as-the-helper", g, node=loops[0],
              msg=f"the sums are read in the order of `{norm(loops[0].iter)}` while _getNucTempHelper fills them in the order of self.allNuclidesInProblem: unless that list is sorted already, temperatures are attributed to the wrong nuclides")


def r15_pairing(idx, r):
    from ..pairing import pairing_rule
    pairing_rule(idx, r, ["armi.physics.neutronics.crossSectionGroupManager", "armi.physics.neutronics.crossSectionSettings"], 60)


def r17_new_types_distinct_and_complete_unions(idx, r):
    """(a) when representative blocks are built from existing blocks, each original XS type gets a NEW type that no other original has been
    given: the types excluded from the choice are the ones already handed out - the VALUES of the orig -> new table - not the originals.
    (b) `_getAllNucs` of the by-component collections returns the union over ALL components it is given: the return stands after the loop."""
    f = idx.method(M + ".CrossSectionGroupManager", "_getModifiedReprBlocks")
    calls = [c for c in iter_calls(f.node) if call_attr(c) == "getNextAvailableXsTypes"]
    if len(calls) != 1:
        raise AnchorMissing("_getModifiedReprBlocks: getNextAvailableXsTypes")
    ex = next((k.value for k in calls[0].keywords if k.arg == "excludedXSTypes"), calls[0].args[-1] if calls[0].args else None)
    table = next((norm(s_.node.value) for s_ in iter_stores(f.node) if s_.kind == "subscript" and s_.value is not None and "next" in norm(s_.value).lower()), None)
    r.require(ex is not None and table is not None and norm(ex) == f"{table}.values()", "_getModifiedReprBlocks:types-already-handed-out-are-excluded", f, node=calls[0],
              msg=f"the next free XS type is chosen excluding `{norm(ex) if ex is not None else None}` instead of the types already handed out (`{table}.values()`): two original types receive the same new type and their blocks fall into one group")
    n = 0
    for c in idx.subclasses(idx.cls(M + ".BlockCollection")):
        g = c.methods.get("_getAllNucs")
        if g is None:
            continue
        n += 1
        early = [x for lp in walk_local(g.node) if isinstance(lp, ast.For) for x in walk_local(lp) if isinstance(x, ast.Return)]
        r.require(not early, f"{c.name}._getAllNucs:union-over-every-component", g, node=early[0] if early else None,
                  msg="the nuclide union is returned from inside the loop: only the first component contributes, and nuclides that a later member holds are never averaged")
    if n < 1:
        raise AnchorMissing("_getAllNucs")


S = "armi.physics.neutronics.crossSectionSettings"


def _settings_evaluator(idx, m, cls, state):
    """MiniEval over the fragment the XS-settings defaulting code is written in: dict / set displays, `type(x) is T`, getattr / setattr on
    self (object state kept in `state`), read-only properties of the class (evaluated, not assumed), `<Enum>.getStr(<Enum>.MEMBER)` resolved
    through the enum's own `_mapping` table, constants of imported modules as opaque-but-comparable tokens.  Anything else: AnalysisError."""
    from ..minieval import _OPAQUE, MiniEval
    from ..minieval import Raised as Raised_

    consts = {}
    for n in m.tree.body:
        if isinstance(n, ast.Assign) and len(n.targets) == 1 and isinstance(n.targets[0], ast.Name):
            try:
                v = idx.fold(m, n.value)
            except AnalysisError:
                continue
            if isinstance(v, (int, float, str, bool)) or v is None:
                consts[n.targets[0].id] = v

    def enum_str(call):
        base = dotted(call.func.value)
        c = m.classes.get(base or "")
        if c is None or len(call.args) != 1 or call.keywords or "_mapping" not in c.methods or "getStr" not in c.methods:
            raise AnalysisError(f"cannot resolve `{norm(call)[:60]}`")
        if not any(call_attr(x) == "_mapping" for x in iter_calls(c.methods["getStr"].node)):
            raise AnchorMissing(f"{base}.getStr no longer reads {base}._mapping()")
        table = {k.attr: v.value for d in ast.walk(c.methods["_mapping"].node) if isinstance(d, ast.Dict) for k, v in zip(d.keys, d.values)
                 if isinstance(k, ast.Attribute) and isinstance(v, ast.Constant) and isinstance(v.value, str)}
        a = call.args[0]
        if not (isinstance(a, ast.Attribute) and dotted(a.value) == base and a.attr in table):
            raise AnalysisError(f"cannot resolve `{norm(call)[:60]}` through {base}._mapping()")
        return table[a.attr]

    class Ev(MiniEval):
        def _stmt(self, s, env):
            if isinstance(s, ast.Expr) and isinstance(s.value, ast.Call) and dotted(s.value.func) == "setattr" and len(s.value.args) == 3 and norm(s.value.args[0]) == "self":
                k = self._ev(s.value.args[1], env)
                try:
                    state[k] = self._ev(s.value.args[2], env)
                except AnalysisError:
                    state[k] = _OPAQUE
                return
            if isinstance(s, ast.Expr) and isinstance(s.value, ast.Call) and isinstance(s.value.func, ast.Attribute) and s.value.func.attr == "update" and len(s.value.args) == 1 and not s.value.keywords:
                tgt, src = self._ev(s.value.func.value, env), self._ev(s.value.args[0], env)
                if isinstance(tgt, dict) and isinstance(src, dict):
                    tgt.update(src)
                    return
            if isinstance(s, ast.Assign) and len(s.targets) == 1 and isinstance(s.targets[0], ast.Attribute) and norm(s.targets[0].value) == "self":
                try:
                    state[s.targets[0].attr] = self._ev(s.value, env)
                except AnalysisError:
                    state[s.targets[0].attr] = _OPAQUE
                return
            return super()._stmt(s, env)

        def _ev(self, e, env):
            if isinstance(e, ast.Dict):
                out = {}
                for k, v in zip(e.keys, e.values):
                    if k is None:
                        out.update(self._ev(v, env))
                        continue
                    try:
                        out[self._ev(k, env)] = self._ev(v, env)
                    except AnalysisError:
                        out[self._ev(k, env)] = _OPAQUE
                return out
            if isinstance(e, ast.Set):
                return [self._ev(x, env) for x in e.elts]
            if isinstance(e, ast.Attribute) and isinstance(e.value, ast.Name) and e.value.id == "self":
                if e.attr in state:
                    if state[e.attr] is _OPAQUE:
                        raise AnalysisError(f"minieval: `self.{e.attr}` is opaque")
                    return state[e.attr]
                p = cls.resolve(e.attr)
                if p is not None and any(dotted(d) == "property" for d in p.node.decorator_list):
                    return Ev(consts, skip_calls=self.skip, resolver=self.resolver).run(p.node, {})[0]
                raise AnalysisError(f"minieval: `self.{e.attr}` is neither set by __init__ nor a property")
            if isinstance(e, ast.Attribute) and dotted(e) and dotted(e).split(".")[0] in m.imports and dotted(e).split(".")[0] not in env:
                return f"<{dotted(e)}>"
            if isinstance(e, ast.Compare) and len(e.ops) == 1 and isinstance(e.ops[0], (ast.Is, ast.IsNot, ast.Eq, ast.NotEq)):
                for x, y in ((e.left, e.comparators[0]), (e.comparators[0], e.left)):
                    if isinstance(x, ast.Call) and dotted(x.func) == "type" and len(x.args) == 1 and isinstance(y, ast.Name) and y.id in ("bool", "list", "str", "int", "float", "tuple", "dict"):
                        return (type(self._ev(x.args[0], env)).__name__ == y.id) == isinstance(e.ops[0], (ast.Is, ast.Eq))
            if isinstance(e, ast.Call) and not e.keywords:
                if isinstance(e.func, ast.Attribute) and e.func.attr == "getStr":
                    return enum_str(e)
                if dotted(e.func) == "getattr" and len(e.args) == 2 and norm(e.args[0]) == "self":
                    k = self._ev(e.args[1], env)
                    if k not in state:
                        raise Raised_(f"AttributeError: {k}")
                    if state[k] is _OPAQUE:
                        raise AnalysisError(f"minieval: `self.{k}` is opaque")
                    return state[k]
                if isinstance(e.func, ast.Attribute) and e.func.attr == "items" and not e.args:
                    v = self._ev(e.func.value, env)
                    if isinstance(v, dict):
                        return [(k, x) for k, x in v.items()]
            return super()._ev(e, env)

    return Ev(consts, skip_calls=("runLog.", "self.validate"), resolver=lambda nm: idx.fold(m, nm)), consts


def r18_global_filter_reaches_every_collection(idx, r):
    """The valid-block-type filter is ONE global setting; each XS id may override it.  An XS id that does not must end up with the global
    filter, or its collection takes every member as a candidate and the representative block is averaged over non-eligible blocks.
    (a) For every geometry whose table of valid inputs (`_VALID_INPUTS_BY_GEOMETRY_TYPE`) lists validBlockTypes, `setDefaults` of
    XSModelingOptions (and of every subclass that overrides it) is EVALUATED EXACTLY on an object built by the class's own __init__ - for
    global filters [..] / False / True / None, with and without an own filter, with and without an external flux file - and the resulting
    `validBlockTypes` is compared with the documented contract (own value wins; list -> that list; False -> ['fuel']; True / None -> None).
    (b) The forwarders: every `setDefaults` call in XSSettings hands over the global filter it was given (directly, or through the one
    attribute that stores it), and blockCollectionFactory passes `<settings>.validBlockTypes` to the collection's constructor."""
    from ..minieval import Raised

    m = idx.module(S)
    base = idx.cls(S + ".XSModelingOptions")
    init = base.methods.get("__init__")
    if init is None or "_VALID_INPUTS_BY_GEOMETRY_TYPE" not in m.consts:
        raise AnchorMissing("XSModelingOptions.__init__ / _VALID_INPUTS_BY_GEOMETRY_TYPE")
    state = {}
    ev, consts = _settings_evaluator(idx, m, base, state)
    key = consts.get("CONF_BLOCKTYPES")
    if not isinstance(key, str):
        raise AnchorMissing("CONF_BLOCKTYPES")
    table = ev._ev(m.consts["_VALID_INPUTS_BY_GEOMETRY_TYPE"], dict(consts))
    if not isinstance(table, dict) or len(table) < 2:
        raise AnalysisError("_VALID_INPUTS_BY_GEOMETRY_TYPE is not a table geometry -> valid inputs")
    geoms = [g for g, valid in table.items() if key in valid]
    if not geoms:
        raise AnchorMissing(f"no geometry lists {key} among its valid inputs")
    a = init.node.args
    pos = a.posonlyargs + a.args
    dflt = dict(zip([x.arg for x in pos[len(pos) - len(a.defaults):]], [idx.fold(m, d) for d in a.defaults]))
    if key not in dflt or "geometry" not in dflt or "fluxFileLocation" not in dflt:
        raise AnchorMissing(f"XSModelingOptions.__init__ parameters geometry / fluxFileLocation / {key}")

    def want(glob, own):
        if own is not None:
            return own
        if glob is True or glob is None:
            return None
        return ["fuel"] if glob is False else glob

    for c in [base] + idx.subclasses(base):
        f = c.methods.get("setDefaults")
        if f is None:
            continue
        ps = f.params()[1:]
        evc = ev if c is base else _settings_evaluator(idx, c.module, c, state)[0]
        if key not in ps:
            raise AnchorMissing(f"{c.name}.setDefaults has no parameter `{key}`")
        for g in geoms:
            bad = None
            for own in (None, ["reflector"]):
                for flux in (None, "flux.ascii"):
                    for glob in (["fuel"], ["fuel", "control"], False, True, None):
                        args = {x.arg: dflt.get(x.arg) for x in pos[1:]}
                        args.update({pos[1].arg: "AA", "geometry": g, "fluxFileLocation": flux, key: list(own) if own else None})
                        state.clear()
                        try:
                            ev.run(init.node, args)
                            evc.run(f.node, {p: (list(glob) if isinstance(glob, list) else glob) if p == key else f"<{p}>" for p in ps})
                            got = state.get(key)
                        except Raised as ex:
                            got = f"raises {ex}"
                        if got != want(glob, own) and bad is None:
                            bad = (own, flux, glob, got)
            r.require(bad is None, f"{c.name}.setDefaults:{g}:{key}-defaults-to-the-global-filter", f, node=f.node,
                      msg="" if bad is None else f"XS id of geometry '{g}' (a geometry for which {key} is a valid input) with own {key} = {bad[0]!r}, fluxFileLocation = {bad[1]!r}, global filter {bad[2]!r}: "
                                  f"after setDefaults its {key} is {bad[3]!r}, expected {want(bad[2], bad[0])!r} - the block collection of that XS id then selects its candidate blocks with the wrong "
                                  "filter (None = every block type), and the representative block (densities, nuclide temperatures, burnup) is averaged over members that are not eligible")
    # (b) forwarders
    xs = idx.cls(S + ".XSSettings")
    opt_pos = base.methods["setDefaults"].params()[1:].index(key)
    n = 0
    for name, f in xs.methods.items():
        env = _copy_env(f.node)
        for call in [c_ for c_ in iter_calls(f.node) if call_attr(c_) == "setDefaults" and isinstance(c_.func, ast.Attribute) and not norm(c_.func.value).startswith("super(")]:
            n += 1
            arg = get_arg_(call, opt_pos, key)
            src = propagate(arg, env) if arg is not None else None
            ok = False
            if isinstance(src, ast.Name):
                ok = src.id == key and key in f.params()
            elif isinstance(src, ast.Attribute) and norm(src.value) == "self":
                st = [(g_, s_) for g_ in xs.methods.values() for s_ in iter_stores(g_.node) if s_.base == "self" and s_.attr == src.attr]
                vals = [(g_, propagate(s_.value, _copy_env(g_.node))) for g_, s_ in st if s_.kind == "assign" and s_.value is not None]
                given = [v for g_, v in vals if isinstance(v, ast.Name) and v.id == key and key in g_.params()]
                ok = len(vals) == len(st) and bool(given) and all(v in given or (isinstance(v, ast.Constant) and v.value is None) for _, v in vals)
            r.require(ok, f"XSSettings.{name}:setDefaults-call:hands-over-the-global-filter", f, node=call,
                      msg=f"`{norm(call)[:80]}` gives `{norm(arg) if arg is not None else None}` as the {key} default of the XS id: that is not the global filter XSSettings.setDefaults was given, so XS ids "
                          "without an own filter build their representative blocks from blocks the user excluded")
    if n < 2:
        raise AnchorMissing("XSSettings: calls of XSModelingOptions.setDefaults (for the existing and for newly requested XS ids)")
    fac = idx.func(M + ".blockCollectionFactory")
    ctor = [c_ for c_ in iter_calls(fac.node) if isinstance(c_.func, ast.Subscript)]
    if len(ctor) != 1 or not fac.params():
        raise AnchorMissing("blockCollectionFactory: BLOCK_COLLECTIONS[...](...)")
    bc_pos = idx.method(M + ".BlockCollection", "__init__").params()[1:].index(key)
    arg = get_arg_(ctor[0], bc_pos, key)
    src = norm(propagate(arg, _copy_env(fac.node))) if arg is not None else None
    r.require(src == f"{fac.params()[0]}.{key}", f"blockCollectionFactory:collection-gets-the-{key}-of-its-settings", fac, node=ctor[0],
              msg=f"the collection is constructed with {key} = `{src}` instead of `{fac.params()[0]}.{key}`: the filter configured for the XS id does not reach getCandidateBlocks, "
                  "and the representative block is built from every member")


def get_arg_(call, pos, name):
    from ..astutil import get_arg
    return get_arg(call, pos, name)


def _copy_env(fnode):
    """single_assign_env, plus the names bound exactly once by an element-wise tuple assignment `a, b = x, y`"""
    env = dict(single_assign_env(fnode))
    count = {}
    for s_ in iter_stores(fnode):
        if isinstance(s_.node, ast.Name):
            count[s_.node.id] = count.get(s_.node.id, 0) + 1
    params = {x.arg for x in fnode.args.posonlyargs + fnode.args.args + fnode.args.kwonlyargs}
    for n in walk_local(fnode):
        if isinstance(n, ast.Assign) and len(n.targets) == 1 and isinstance(n.targets[0], ast.Tuple) and isinstance(n.value, ast.Tuple) and len(n.targets[0].elts) == len(n.value.elts):
            for t, v in zip(n.targets[0].elts, n.value.elts):
                if isinstance(t, ast.Name) and count.get(t.id) == 1 and t.id not in params and t.id not in env:
                    env[t.id] = v
    return env


def run(idx, chk):
    chk.explanation = (
        "C20: every weighted mean in the block-collection classes is typed with a role generator W for the weights: the result must be of degree "
        "0 in W and carry the unit of the averaged quantity (catches missing normalisation, a weight applied twice, normalising by another total); "
        "sibling density averages use identical weights; aggregation loops iterate candidate blocks only; one unconditional append per block keyed "
        "by its micro suffix; environment-group encoding and skip condition; label codec field widths over the admissible alphabet; builders only "
        "mutate fresh copies. Convexity as numbers and the median index are NOT decided."
    )
    chk.undecided_clauses = ["numerical convexity of the means", "which member is the median"]
    chk.run_rule("R20.1", "every average is of degree 0 in the weights and has the unit of the averaged quantity; temperature sums share n x v weights", lambda r: r1_means(idx, r), floor=9,
                 necessary="a mean is between min and max and unchanged by rescaling all weights only if it is normalised by the same weights")
    chk.run_rule("R20.1b", "block-level and by-component density averages use the same (getWeight) weights, normalised by their own sum", lambda r: r1b_sibling_weights(idx, r), floor=5,
                 necessary="by-component densities must homogenise to the block-level weighted mean")
    chk.run_rule("R20.2", "aggregation over the collection iterates getCandidateBlocks(), never all members", lambda r: r2_candidates(idx, r), floor=12, necessary="the representative block is built only from eligible members")
    chk.run_rule("R20.3", "each block is appended once to the group keyed by its micro suffix, after the environment groups were refreshed; env-group encoding is injective", lambda r: r3_partition(idx, r), floor=9,
                 necessary="every block belongs to exactly one group determined by type and environment")
    chk.run_rule("R20.4", "type-label codec: constant field width over the admissible alphabet; decoder's single-label range covers every single label", lambda r: r4_label_codec(idx, r), floor=3,
                 necessary="every admissible label converts to its number and back")
    chk.run_rule("R20.5", "representative-block builders mutate only fresh copies; median returns a copy of a member", lambda r: r5_purity(idx, r), floor=8, necessary="creating representatives never changes the blocks of the core")

    chk.run_rule("R20.7", "every method invoked on an armi-produced object while building representatives exists", lambda r: r7_methods_exist(idx, r), floor=25,
                 necessary="'with the median option it is a copy of an actual member': a builder that raises AttributeError produces no representative")
    chk.run_rule("R20.8", "by-component averaging: the component index is produced and consumed in the same (sorted) order", lambda r: r8_component_index_space(idx, r), floor=3,
                 necessary="'each nuclide density ... per matching component is the weight-normalised mean of the members' values'")
    chk.run_rule("R20.9", "a block's weight scales with its weighting parameter (degree 1; clamps refuted by exact evaluation)", lambda r: r9_weight_homogeneous(idx, r), floor=1,
                 necessary="means are 'unchanged by ... rescaling all weights'")
    chk.run_rule("R20.10", "block similarity is affirmed only after every member was compared", lambda r: r10_similarity_scans_all(idx, r), floor=2,
                 necessary="'per matching component': components are averaged by position only when all members match")
    chk.run_rule("R20.11", "by-component weights are block weight x component area; the trace density stands in only for held zero-density nuclides", lambda r: r11_component_weights_and_trace(idx, r), floor=4,
                 necessary="representative densities are the weight-normalised mean of the members; a nuclide's temperature is averaged over the components that hold it")
    chk.run_rule("R20.12", "component-temperature weights per unit height; settings fall-back by lowest environment group; unrepresented-ID list rebuilt per call", lambda r: r12_weights_fallbacks_and_resets(idx, r), floor=3,
                 necessary="representative temperatures are mass-weighted means; every block ends in the group its (type, environment) selects")
    chk.run_rule("R20.13", "per-group derivations (representative block, nuclide temperatures) run only for groups that have candidate blocks", lambda r: r13_candidates_needed(idx, r), floor=2,
                 necessary="group assignment is a total function: a group without eligible members is handled, not crashed on")
    chk.run_rule("R20.14", "one Flags value per filter entry; temperature averages weight members by getWeight; member component lists ordered like the representative", lambda r: r14_filter_entries_weights_orderings(idx, r), floor=5,
                 necessary="the representative is built from the group's eligible members with the right weights, component by component")
    chk.run_rule("R20.15", "arguments stand at the parameter they are named after; sibling calls forward the same pass-through parameters", lambda r: r15_pairing(idx, r), floor=1,
                 necessary="type label and environment group are not exchanged")
    chk.run_rule("R20.16", "consistency guards compare a member with the representative; temperatures are read in the order they were accumulated", lambda r: r18_both_sides_and_one_order(idx, r), floor=2,
                 necessary="each averaged quantity is the weight-normalised mean of the matching member values")
    chk.run_rule("R20.17", "new XS types are chosen among those not yet handed out; _getAllNucs unions every component", lambda r: r17_new_types_distinct_and_complete_unions(idx, r), floor=2,
                 necessary="every block belongs to exactly one group; each nuclide density of the representative is the mean over the members")
    chk.run_rule("R20.18", "an XS id without an own valid-block-type filter gets the global one: setDefaults evaluated exactly for every geometry that admits validBlockTypes; XSSettings and blockCollectionFactory forward it",
                 lambda r: r18_global_filter_reaches_every_collection(idx, r), floor=6,
                 necessary="'the representative block of a group is built only from the group's eligible members', for all valid-block-type filters: the configured filter must reach the collection of every XS id")
