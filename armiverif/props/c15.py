"""C15 - operator schedule: shape of the main / cycle / node loops, unconditional hook calls, state
strings and hook arguments, interface selection, tight coupling loop, node arithmetic sharing one
definition.  Structural necessary conditions only (DESIGN.md section 3, C15)."""
from __future__ import annotations

import ast

from ..astutil import call_attr, const_str, get_arg, iter_calls, iter_stores, propagate, single_assign_env, walk_local
from ..exprnf import ExprEval, Poly
from ..flow import Flow, always_exits, path_conditions
from ..index import AnalysisError, AnchorMissing, dotted, norm

OP = "armi.operators.operator.Operator"
UT = "armi.utils"


def _is_call(n, name):
    return isinstance(n, ast.Call) and dotted(n.func) == name


def r1_main(idx, r):
    f = idx.method(OP, "_mainOperate")
    env = single_assign_env(f.node)

    def ev(n):
        for nm in ("interactAllBOL", "interactAllEOL", "_cycleLoop"):
            if _is_call(n, "self." + nm):
                return [nm]
        return []
    fl = Flow(f.node, ev).run()
    loop = next((n for n in f.node.body if isinstance(n, ast.For)), None)
    if loop is None:
        raise AnalysisError("_mainOperate: cycle loop not found")
    st = fl.state_before(loop) or {}
    r.require(st.get("interactAllBOL", (0, 0)) == (1, 1) and st.get("_cycleLoop", (0, 0)) == (0, 0), "BOL-once-before-loop", f, node=loop, msg=f"BOL must run exactly once before the first cycle: {st}")
    for e in fl.normal_exits():
        r.require(e.state.get("interactAllEOL", (0, 0)) == (1, 1) and e.state.get("interactAllBOL", (0, 0)) == (1, 1), f"EOL-once-on-exit@{e.kind}", f,
                  msg=f"every normal exit must have run BOL once and EOL once (also after a halt): {e.state}")
    it = norm(propagate(loop.iter, env))
    r.require(it == "range(self.r.p.cycle, self.cs['nCycles'])", "cycle-range", f, node=loop.iter, msg=f"cycles must run from the start cycle to nCycles: `{it}`")
    # the start cycle is what the reactor says AFTER beginning-of-life: a restart sets r.p.cycle inside a BOL hook
    reads = [st_ for st_ in walk_local(f.node) if isinstance(st_, ast.Assign) and "self.r.p.cycle" in norm(st_.value)]
    for st_ in reads:
        sb = fl.state_before(st_) or {}
        r.require(sb.get("interactAllBOL", (0, 0))[0] >= 1, f"start-cycle-read-after-BOL:{norm(st_.targets[0])}", f, node=st_,
                  msg=f"`{norm(st_)}` reads the start cycle before the beginning-of-life hooks have run; in a restart those hooks set r.p.cycle, so the loop would start at cycle 0")
    calls = [c for c in iter_calls(loop) if _is_call(c, "self._cycleLoop")]
    okc = len(calls) == 1 and [norm(a) for a in calls[0].args] == [norm(loop.target), "startingCycle"] and "startingCycle" in env
    r.require(okc, "cycleLoop-args", f, node=calls[0] if calls else loop, msg="each cycle must be run as _cycleLoop(cycle, startingCycle)")
    brk = [n for n in walk_local(loop) if isinstance(n, ast.Break)]
    okb = True
    for b in brk:
        conds = [(norm(propagate(t, {})), pol) for t, pol in path_conditions(f.node, b)]
        res = [s for s in iter_stores(loop) if s.value is not None and any(x is calls[0] for x in ast.walk(s.value))] if calls else []
        nm = res[0].attr if res else None
        call_txt = norm(calls[0]) if calls else None
        okb = okb and ((nm is not None and conds in ([(f"not {nm}", True)], [(nm, False)])) or (call_txt is not None and conds in ([(f"not {call_txt}", True)], [(call_txt, False)])))
    r.require(okb and len(brk) <= 1, "break-only-on-halt", f, node=brk[0] if brk else loop, msg="the cycle loop may stop early only when _cycleLoop reports a halt")
    # the loop body calls _cycleLoop unconditionally, once
    fb = Flow(f.node, ev, body=loop.body).run()
    ends = fb.iteration_ends() + [e.state for e in fb.exits if e.kind == "break"]
    r.require(bool(ends) and all(s.get("_cycleLoop", (0, 0)) == (1, 1) for s in ends), "cycleLoop-once-per-cycle", f, node=loop, msg="each iteration must run _cycleLoop exactly once")
    op = idx.method(OP, "operate")
    r.require(any(_is_call(c, "self._mainOperate") for c in iter_calls(op.node)), "operate-delegates", op, msg="operate() must run _mainOperate()")


def r2_cycle(idx, r):
    f = idx.method(OP, "_cycleLoop")

    def ev(n):
        out = []
        if isinstance(n, ast.Assign) and norm(n.targets[0]) == "self.r.p.cycle" and norm(n.value) == "cycle":
            out.append("setcycle")
        for nm in ("interactAllBOC", "interactAllEOC", "_timeNodeLoop"):
            if _is_call(n, "self." + nm):
                out.append(nm)
        return out
    fl = Flow(f.node, ev).run()
    boc = [c for c in iter_calls(f.node) if _is_call(c, "self.interactAllBOC")]
    eoc = [c for c in iter_calls(f.node) if _is_call(c, "self.interactAllEOC")]
    if len(boc) != 1 or len(eoc) != 1:
        raise AnalysisError("_cycleLoop: exactly one BOC and one EOC call expected")
    st = fl.state_before(boc[0]) or {}
    r.require(st.get("setcycle", (0, 0))[0] >= 1 and st.get("_timeNodeLoop", (0, 0)) == (0, 0), "BOC-first", f, node=boc[0], msg="BOC must run after r.p.cycle is set and before any time node")
    r.require(norm(boc[0].args[0]) in ("self.r.p.cycle", "cycle") and norm(eoc[0].args[0]) in ("self.r.p.cycle", "cycle"), "BOC-EOC-args", f, msg="BOC/EOC must receive the current cycle")
    rets = [e for e in fl.exits if e.kind == "return"]
    for e in rets:
        v = norm(e.node.value) if e.node.value is not None else "None"
        if v == "False":
            conds = [(norm(t), pol) for t, pol in path_conditions(f.node, e.node)]
            res = [s for s in iter_stores(f.node) if s.value is not None and any(x is boc[0] for x in ast.walk(s.value))]
            nm = res[0].attr if res else None
            r.require(conds in ([(nm, True)], [(norm(boc[0]), True)]) and e.state.get("_timeNodeLoop", (0, 0)) == (0, 0) and e.state.get("interactAllBOC", (0, 0)) == (1, 1), "halt-only-after-BOC", f, node=e.node,
                      msg=f"`return False` is allowed only directly on a truthy BOC result, before any node; conditions {conds}")
        elif v == "True":
            r.require(e.state.get("interactAllEOC", (0, 0)) == (1, 1) and e.state.get("interactAllBOC", (0, 0)) == (1, 1) and e.state.get("_timeNodeLoop", (0, 0))[0] >= 1, "complete-cycle", f, node=e.node,
                      msg=f"a completed cycle has run BOC once, at least the final node, and EOC once: {e.state}")
        else:
            r.violate("return-value", f, f"_cycleLoop returns `{v}`", node=e.node)
    r.require(any(norm(e.node.value) == "True" for e in rets if e.node.value is not None) and not [e for e in fl.exits if e.kind == "fall"], "returns-True", f, msg="the normal end of a cycle must return True")
    loop = next((n for n in f.node.body if isinstance(n, ast.For)), None)
    if loop is None:
        raise AnalysisError("_cycleLoop: node loop not found")
    it = norm(loop.iter).replace("int(self.burnSteps[cycle])", "self.burnSteps[cycle]")
    r.require(it == "range(startingNode, self.burnSteps[cycle])", "node-range", f, node=loop.iter, msg=f"time nodes must run from the starting node to burnSteps[cycle]: `{norm(loop.iter)}`")
    fb = Flow(f.node, ev, body=loop.body).run()
    r.require(bool(fb.iteration_ends()) and all(s_.get("_timeNodeLoop", (0, 0)) == (1, 1) for s_ in fb.iteration_ends()) and not any(isinstance(x, (ast.Break, ast.Continue, ast.Return)) for x in walk_local(loop) if x not in loop.orelse),
              "node-once-per-step", f, node=loop, msg="each burn step must run exactly one _timeNodeLoop and the loop must not be left early (so the final node always follows)")
    call_in = [c for st_ in loop.body for c in iter_calls(ast.Module(body=[st_], type_ignores=[])) if _is_call(c, "self._timeNodeLoop")]
    r.require(bool(call_in) and [norm(a) for a in call_in[0].args] == ["cycle", norm(loop.target)], "node-args", f, node=call_in[0] if call_in else loop, msg="node loop must call _timeNodeLoop(cycle, timeNode)")
    # the extra, final node: for-else
    fe = Flow(f.node, ev, body=loop.orelse).run()
    okf = bool(loop.orelse) and fe.end_state is not None and fe.end_state.get("_timeNodeLoop", (0, 0)) == (1, 1)
    last = [c for st_ in loop.orelse for c in iter_calls(ast.Module(body=[st_], type_ignores=[])) if _is_call(c, "self._timeNodeLoop")]
    envl = {}
    for st_ in loop.orelse:
        if isinstance(st_, ast.Assign) and isinstance(st_.targets[0], ast.Name) and isinstance(st_, ast.Assign):
            envl.setdefault(st_.targets[0].id, st_.value)
    okf = okf and bool(last) and norm(last[0].args[0]) == "cycle" and norm(propagate(last[0].args[1], envl)).replace("int(", "").rstrip(")") in ("self.burnSteps[cycle]", "self.burnSteps[cycle")
    r.require(okf, "final-node", f, node=loop, msg="after the burn steps exactly one more node, numbered burnSteps[cycle], must run")
    # starting node
    sn = [s for s in iter_stores(f.node) if s.attr == "startingNode" and s.value is not None]
    conds = {norm(s.value): [(norm(t), p) for t, p in path_conditions(f.node, s.stmt)] for s in sn}
    r.require(conds == {"self.r.p.timeNode": [("cycle == startingCycle", True)], "0": [("cycle == startingCycle", False)]}, "starting-node", f,
              msg=f"the first cycle resumes at r.p.timeNode, later cycles start at 0: {conds}")
    t = idx.method(OP, "_timeNodeLoop")
    seq = []
    for s in t.node.body:
        if isinstance(s, ast.Assign) and norm(s.targets[0]) == "self.r.p.timeNode":
            seq.append("set:" + norm(s.value))
        elif isinstance(s, ast.Expr) and isinstance(s.value, ast.Call):
            seq.append(norm(s.value))
    r.require(seq == ["set:timeNode", "self.interactAllEveryNode(cycle, timeNode)", "self._performTightCoupling(cycle, timeNode)"], "timeNodeLoop-sequence", t,
              msg=f"a node sets r.p.timeNode, interacts EveryNode(cycle, node), then tight coupling: {seq}")


def r3_hook_unconditional(idx, r):
    f = idx.method(OP, "_interactAll")
    loop = next((n for n in f.node.body if isinstance(n, ast.For)), None)
    if loop is None:
        raise AnalysisError("_interactAll loop not found")
    hookvars = {s.attr for s in iter_stores(loop) if isinstance(s.value, ast.Call) and dotted(s.value.func) == "getattr"}

    def ev(n):
        if isinstance(n, ast.Call) and ((isinstance(n.func, ast.Name) and n.func.id in hookvars) or (isinstance(n.func, ast.Call) and dotted(n.func.func) == "getattr")):
            return ["hook"]
        return []
    fb = Flow(f.node, ev, body=loop.body).run()
    ends = fb.iteration_ends() + [e.state for e in fb.exits if e.kind in ("break", "return")]
    bad = [s_.get("hook", (0, 0)) for s_ in ends if s_.get("hook", (0, 0)) != (1, 1)]
    r.require(bool(ends) and not bad, "hook-once-per-interface", f, node=loop,
              msg=f"the interaction hook must be called exactly once, unconditionally, for every active interface (min,max per iteration = {bad}; short-circuit/conditional call or early exit?)")
    it = loop.iter
    src = it.args[0] if isinstance(it, ast.Call) and dotted(it.func) == "enumerate" else it
    r.require(norm(src) == "activeInterfaces", "iterates-in-order", f, node=it, msg=f"interfaces must be visited in the given order: `{norm(it)}`")
    hook = next((c for c in iter_calls(loop) if ev(c)), None)
    r.require(hook is not None and [norm(a) for a in hook.args] == ["*args"], "args-forwarded", f, node=hook, msg="the hook must receive exactly the event's arguments")
    ga = next((c for c in iter_calls(loop) if dotted(c.func) == "getattr"), None)
    env = single_assign_env(f.node)
    nm = norm(propagate(ga.args[1], env)) if ga is not None else ""
    r.require(ga is not None and norm(ga.args[0]) == norm(loop.target.elts[-1] if isinstance(loop.target, ast.Tuple) else loop.target) and nm == "'interact{}'.format(interactionName)", "hook-name", f, node=ga,
              msg=f"hook looked up as `{nm}` on the loop's interface")
    rets = [n for n in walk_local(f.node) if isinstance(n, ast.Return)]
    r.require(len(rets) == 1 and norm(rets[0].value) == "halt" and rets[0] in f.node.body, "returns-halt", f, msg="_interactAll must return the accumulated halt flag")


EVENTS = {"BOL": [], "BOC": ["cycle"], "EveryNode": ["cycle", "tn"], "EOC": ["cycle"], "EOL": [], "Coupled": ["coupledIteration"]}


def r4_strings(idx, r):
    op = idx.cls(OP)
    iface = idx.cls("armi.interfaces.Interface")
    for evn, args in EVENTS.items():
        f = op.methods.get("interactAll" + evn)
        if f is None:
            raise AnchorMissing(f"Operator.interactAll{evn}")
        ga = [c for c in iter_calls(f.node) if _is_call(c, "self.getActiveInterfaces")]
        ia = [c for c in iter_calls(f.node) if _is_call(c, "self._interactAll")]
        if len(ga) != 1 or len(ia) != 1:
            r.violate(f"{evn}:shape", f, "expected one getActiveInterfaces and one _interactAll call")
            continue
        s1, s2 = const_str(ga[0].args[0]), const_str(ia[0].args[0])
        r.require(s1 == evn and s2 == evn, f"{evn}:state-string", f, node=ia[0], msg=f"interactAll{evn} selects interfaces for '{s1}' and calls hooks of '{s2}'")
        res = [s for s in iter_stores(f.node) if s.value is ga[0]]
        r.require(bool(res) and norm(ia[0].args[1]) == res[0].attr, f"{evn}:uses-selection", f, node=ia[0], msg="the hooks must be called on the interfaces selected for this event")
        got = [norm(a) for a in ia[0].args[2:]]
        r.require(got == args, f"{evn}:hook-args", f, node=ia[0], msg=f"hook arguments {got}, expected {args}")
        # excluded names forwarded where the entry point accepts them
        if "excludedInterfaceNames" in f.params():
            r.require(any(norm(a) == "excludedInterfaceNames" for a in list(ga[0].args) + [k.value for k in ga[0].keywords]), f"{evn}:exclusions-forwarded", f, node=ga[0], msg="excludedInterfaceNames is dropped")
        h = iface.methods.get("interact" + evn)
        r.require(h is not None and len(h.params()) - 1 == len(args), f"{evn}:interface-signature", h or f, msg=f"Interface.interact{evn} must take {len(args)} argument(s)")
    g = op.methods["getActiveInterfaces"]
    valid = None
    for n in walk_local(g.node):
        if isinstance(n, ast.If) and isinstance(n.test, ast.Compare) and isinstance(n.test.ops[0], ast.NotIn) and norm(n.test.left) == "interactState" and any(isinstance(x, ast.Raise) for x in n.body):
            valid = set(idx.fold(g.module, n.test.comparators[0]))
    r.require(valid == set(EVENTS), "validated-states", g, msg=f"getActiveInterfaces validates {sorted(valid) if valid else None}; the events are {sorted(EVENTS)}")
    boc = op.methods["interactAllBOC"]
    r.require(any(isinstance(n, ast.Return) and isinstance(n.value, ast.Call) and _is_call(n.value, "self._interactAll") for n in walk_local(boc.node)), "BOC-returns-halt", boc, msg="interactAllBOC must return the halt flag")
    r.require(any(k.arg == "cycle" and norm(k.value) == "cycle" for c in iter_calls(boc.node) if _is_call(c, "self.getActiveInterfaces") for k in c.keywords), "BOC-passes-cycle", boc,
              msg="BOC selection needs the cycle (deferred interfaces)")


def r5_selection(idx, r):
    g = idx.method(OP, "getActiveInterfaces")
    lc = [s for s in iter_stores(g.node) if s.attr == "activeInterfaces" and isinstance(s.value, ast.ListComp)]
    if not lc:
        raise AnalysisError("getActiveInterfaces: selection comprehension not found")
    c = lc[0].value
    gen = c.generators[0]
    v = norm(gen.target)
    ok = norm(gen.iter) == "self.interfaces" and norm(c.elt) == v and len(gen.ifs) == 1 and norm(gen.ifs[0]) == f"enabled({v}) and nameCheck({v})"
    r.require(ok, "filter-in-stack-order", g, node=c, msg=f"selection must be [i for i in self.interfaces if enabled(i) and nameCheck(i)]: `{norm(c)}`")
    lam = {}
    for s in iter_stores(g.node):
        if s.attr in ("enabled", "nameCheck") and isinstance(s.value, ast.Lambda):
            conds = tuple((norm(t), p) for t, p in path_conditions(g.node, s.stmt) if p)
            lam[(s.attr, conds)] = norm(s.value.body)
    r.require(lam.get(("enabled", ())) == "i.enabled()", "enabled-default", g, msg=f"default enabled test: {lam.get(('enabled', ()))}")
    r.require(lam.get(("enabled", (("interactState == 'BOL'", True),))) == "i.enabled() or i.bolForce()", "enabled-BOL", g, msg="at BOL an interface runs when enabled or BOL-forced")
    r.require(lam.get(("nameCheck", ())) == "True", "namecheck-default", g, msg="default name check must accept all")
    r.require(lam.get(("nameCheck", (("interactState in ('EveryNode', 'EOC', 'EOL')", True),))) == "i.name not in excludedInterfaceNames", "namecheck-excluded", g, msg="EveryNode/EOC/EOL exclude the given names")
    boc = [v_ for (n_, cd), v_ in lam.items() if n_ == "nameCheck" and any("'BOC'" in t for t, _ in cd)]
    r.require(boc == ["i.name not in self.cs[CONF_DEFERRED_INTERFACE_NAMES]"] and any("cycle < self.cs[CONF_DEFERRED_INTERFACES_CYCLE]" in t for (n_, cd) in lam for t, _ in cd), "namecheck-deferred-BOC", g,
              msg="BOC defers the configured interfaces before the configured cycle")
    bol = [v_ for (n_, cd), v_ in lam.items() if n_ == "nameCheck" and cd and cd[-1] == ("interactState == 'BOL'", True)]
    r.require(bol == ["i.name not in self.cs[CONF_DEFERRED_INTERFACE_NAMES] and i.name not in excludedInterfaceNames"], "namecheck-BOL", g, msg=f"BOL excludes deferred and excluded names: {bol}")
    # EOL reordering
    eol = next((n for n in g.node.body if isinstance(n, ast.If) and norm(n.test) == "interactState == 'EOL'"), None)
    txt = [norm(s) for s in eol.body] if eol is not None else []
    want = ["actInts = [ii for ii in activeInterfaces if not ii.reverseAtEOL]", "actInts.extend(reversed([ii for ii in activeInterfaces if ii.reverseAtEOL]))", "activeInterfaces = actInts"]
    r.require(txt == want, "EOL-order", g, node=eol, msg="at EOL: non-reversed interfaces in stack order, then the reverse-flagged ones reversed")
    rets = [n for n in walk_local(g.node) if isinstance(n, ast.Return)]
    r.require(len(rets) == 1 and norm(rets[0].value) == "activeInterfaces", "returns-selection", g, msg="must return the selection")
    ia = idx.method(OP, "interactAllError")
    loop = next((n for n in ia.node.body if isinstance(n, ast.For)), None)
    r.require(loop is not None and norm(loop.iter) == "self.interfaces" and any(call_attr(c) == "interactError" for c in iter_calls(loop)) and not any(isinstance(x, ast.If) for x in walk_local(loop)),
              "error-hooks-all", ia, msg="interactAllError must call interactError on every interface (no enabled filter)")


def r6_coupling(idx, r):
    f = idx.method(OP, "_performTightCoupling")
    loop = next((n for n in walk_local(f.node) if isinstance(n, ast.For) and any(_is_call(c, "self.interactAllCoupled") for c in iter_calls(n))), None)
    if loop is None:
        raise AnalysisError("tight coupling loop not found")
    r.require(norm(loop.iter) == "range(self.cs[CONF_TIGHT_COUPLING_MAX_ITERS])", "iteration-cap", f, node=loop.iter, msg=f"iterations must be capped by the setting: `{norm(loop.iter)}`")
    conds = [(norm(t), p) for t, p in path_conditions(f.node, loop)]
    r.require(("cycle in skipCycles", False) in conds and ("self.couplingIsActive()", True) in conds and len(conds) == 2, "loop-guards", f, node=loop, msg=f"coupling iterations run when coupling is active and the cycle is not exempt: {conds}")
    call = next(c for c in iter_calls(loop) if _is_call(c, "self.interactAllCoupled"))
    res = [s for s in iter_stores(loop) if s.value is call]
    nm = res[0].attr if res else None
    brk = [n for n in walk_local(loop) if isinstance(n, ast.Break)]
    okb = len(brk) == 1 and [(norm(t), p) for t, p in path_conditions(ast.Module(body=loop.body, type_ignores=[]), brk[0])] == [(nm, True)]
    r.require(okb, "break-on-convergence", f, node=brk[0] if brk else loop, msg="the iteration loop may stop early only on convergence")
    r.require(norm(call.args[0]) == norm(loop.target), "iteration-arg", f, node=call, msg="interactAllCoupled must receive the iteration index")
    fb = Flow(f.node, lambda n: ["it"] if n is call else [], body=loop.body).run()
    ends = fb.iteration_ends() + [e.state for e in fb.exits if e.kind == "break"]
    r.require(bool(ends) and all(s.get("it", (0, 0)) == (1, 1) for s in ends), "one-coupled-interaction-per-iteration", f, node=loop, msg="each iteration interacts exactly once")
    w = next((c for c in iter_calls(f.node) if call_attr(c) == "writeDBEveryNode"), None)
    if w is None:
        r.violate("db-write-after-coupling", f, "the node's database write after coupling is gone")
    else:
        conds = [(norm(t), p) for t, p in path_conditions(f.node, w)]
        r.require(sorted(conds) == sorted([("self.couplingIsActive()", True), ("writeDB", True)]), "db-write-after-coupling", f, node=w,
                  msg=f"with coupling active the node must be written whether or not the cycle is exempt from coupling; write happens under {conds}")
        r.require(w.lineno > loop.end_lineno, "db-write-order", f, node=w, msg="the database write must follow the coupling iterations")
    ic = idx.method(OP, "interactAllCoupled")
    rets = [n for n in walk_local(ic.node) if isinstance(n, ast.Return)]
    r.require(len(rets) == 1 and norm(rets[0].value) == "self._checkTightCouplingConvergence(activeInterfaces)", "coupled-returns-convergence", ic, msg="interactAllCoupled must return the convergence test of the active interfaces")
    cc = idx.method(OP, "_checkTightCouplingConvergence")
    rets = [n for n in walk_local(cc.node) if isinstance(n, ast.Return)]
    r.require(len(rets) == 1 and norm(rets[0].value) == "all(converged)", "all-couplers", cc, msg="converged means ALL couplers converged")
    evs = [c for c in iter_calls(cc.node) if call_attr(c) == "isConverged"]
    loopc = next((n for n in walk_local(cc.node) if isinstance(n, ast.For)), None)
    if len(evs) != 1 or loopc is None:
        raise AnchorMissing("_checkTightCouplingConvergence: one isConverged(...) inside the loop over the interfaces")
    condc = [(norm(t), p) for t, p in path_conditions(ast.Module(body=loopc.body, type_ignores=[]), evs[0])]
    extra = [c for c in condc if c[0] not in ("coupler is not None", "interface.coupler is not None", "coupler is None", "interface.coupler is None")]
    r.require(not extra, "every-coupler-re-evaluated-each-iteration", cc, node=evs[0],
              msg=f"a coupler is only re-evaluated when {extra}: one that converged in an earlier iteration and was disturbed since is still counted as converged, so the loop stops early")
    r.require(any(isinstance(x, ast.Call) and call_attr(x) == "getTightCouplingValue" for x in ast.walk(evs[0])), "coupler-sees-the-current-value", cc, node=evs[0], msg="isConverged receives the interface's current coupling value")


def r7_node_arithmetic(idx, r):
    u = idx.module(UT)
    npc = idx.func(UT + ".getNodesPerCycle")
    body = norm(npc.node.body[-1])
    r.require(body == "return [s + 1 for s in getBurnSteps(cs)]", "nodes-per-cycle", npc, msg=f"nodes per cycle = burn steps + 1 for every cycle: `{body}`")
    bs = idx.func(UT + ".getBurnSteps")
    env = single_assign_env(bs.node)
    ret = next(n for n in walk_local(bs.node) if isinstance(n, ast.Return))
    r.require(norm(propagate(ret.value, env)) == "[len(steps) for steps in getStepLengths(cs)]", "burn-steps", bs, msg="burn steps = number of step lengths of each cycle")
    for fn, src in (("getCumulativeNodeNum", "getNodesPerCycle"), ("getCycleNodeFromCumulativeNode", "getNodesPerCycle"), ("getPreviousTimeNode", "getNodesPerCycle"), ("getCycleNodeFromCumulativeStep", "getBurnSteps")):
        f = idx.func(f"{UT}.{fn}")
        r.require(any(dotted(c.func) == src for c in iter_calls(f.node)), f"{fn}:uses-{src}", f, msg=f"{fn} must take the per-cycle count from {src}")
    dbl = idx.method("armi.bookkeeping.db.database.Database", "load")
    r.require(any(dotted(c.func) == "getNodesPerCycle" for c in iter_calls(dbl.node)), "Database.load:uses-getNodesPerCycle", dbl, msg="negative node indices must be resolved with getNodesPerCycle")
    # exact forms (polynomial normal form, so algebraic rearrangements are accepted)
    f = idx.func(UT + ".getCumulativeNodeNum")
    env = single_assign_env(f.node)
    ret = next(n for n in walk_local(f.node) if isinstance(n, ast.Return))
    E = ExprEval()
    got = E.ev(propagate(ret.value, env))
    want = Poly.atom("sum(getNodesPerCycle(cs)[:cycle])") + Poly.atom("node")
    r.require(got == want, "cumulative-node", f, node=ret, msg=f"cumulative node must be sum(nodesPerCycle[:cycle]) + node; normal form {got}")
    for fn, arr, n, cmp_op, shift in (("getCycleNodeFromCumulativeNode", "nodesPerCycle", "timeNodeNum", ast.Lt, 0), ("getCycleNodeFromCumulativeStep", "stepsPerCycle", "timeStepNum", ast.LtE, 1)):
        f = idx.func(f"{UT}.{fn}")
        loop = next((x for x in f.node.body if isinstance(x, ast.For)), None)
        if loop is None:
            raise AnalysisError(f"{fn}: loop not found")
        acc = next((s for s in loop.body if isinstance(s, ast.AugAssign) and isinstance(s.op, ast.Add)), None)
        test = next((s for s in loop.body if isinstance(s, ast.If)), None)
        # the test and what is done when it holds - also when the loop is written with a guard: `if not T: continue` followed by the body
        ttest, tbody = (test.test, test.body) if test is not None else (None, [])
        if test is not None and not test.orelse and len(test.body) == 1 and isinstance(test.body[0], ast.Continue):
            tbody = loop.body[loop.body.index(test) + 1:]
            if isinstance(ttest, ast.UnaryOp) and isinstance(ttest.op, ast.Not):
                ttest = ttest.operand
            elif isinstance(ttest, ast.Compare) and len(ttest.ops) == 1 and type(ttest.ops[0]) in (ast.Gt, ast.GtE, ast.Lt, ast.LtE):
                inv = {ast.Gt: ast.LtE, ast.GtE: ast.Lt, ast.Lt: ast.GtE, ast.LtE: ast.Gt}[type(ttest.ops[0])]
                ttest = ast.Compare(left=ttest.left, ops=[inv()], comparators=ttest.comparators)
        if isinstance(ttest, ast.Compare) and len(ttest.ops) == 1 and type(ttest.ops[0]) in (ast.Gt, ast.GtE):  # mirrored: acc > n  ==  n < acc
            ttest = ast.Compare(left=ttest.comparators[0], ops=[{ast.Gt: ast.Lt, ast.GtE: ast.LtE}[type(ttest.ops[0])]()], comparators=[ttest.left])
        ok = acc is not None and test is not None and loop.body.index(acc) < loop.body.index(test) and norm(acc.value) == f"{arr}[i]" and norm(loop.iter) == f"range(len({arr}))"
        accn = norm(acc.target) if acc is not None else "?"
        ok = ok and isinstance(ttest, ast.Compare) and isinstance(ttest.ops[0], cmp_op) and norm(ttest.left) == n and norm(ttest.comparators[0]) == accn and bool(tbody) and isinstance(tbody[-1], ast.Return)
        r.require(ok, f"{fn}:scan", f, node=test, msg=f"prefix-sum scan must add {arr}[i] then test `{n} {'<' if cmp_op is ast.Lt else '<='} {accn}`")
        if ok:
            ret = tbody[-1]
            tup = ret.value
            node_expr = E.ev(tup.elts[1])
            want = Poly.atom(n) - Poly.atom(accn) + Poly.atom(f"{arr}[i]") - shift
            r.require(norm(tup.elts[0]) == "i" and node_expr == want, f"{fn}:inverse", f, node=ret, msg=f"node within cycle must be {n} - prefixSum(i){' - 1' if shift else ''}; normal form {node_expr}")
    p = idx.func(UT + ".getPreviousTimeNode")
    env = single_assign_env(p.node)
    rets = {norm(propagate(n.value, env)): [(norm(t), pol) for t, pol in path_conditions(p.node, n)] for n in walk_local(p.node) if isinstance(n, ast.Return)}
    ok = rets.get("(cycle, node - 1)") == [("(cycle, node) == (0, 0)", False), ("node != 0", True)] and rets.get("(cycle - 1, getNodesPerCycle(cs)[cycle - 1] - 1)") == [("(cycle, node) == (0, 0)", False), ("node != 0", False)]
    r.require(ok, "previous-node", p, msg=f"previous node is (cycle, node-1), or the last node of the previous cycle: {rets}")
    # step lengths sum to availability * cycle length
    sl = idx.func(UT + "._getStepAndCycleLengths")
    found = 0
    for n in walk_local(sl.node):
        if isinstance(n, ast.BinOp) and isinstance(n.op, ast.Mult) and isinstance(n.left, ast.List) and len(n.left.elts) == 1:
            found += 1
            el = n.left.elts[0]
            if not (isinstance(el, ast.BinOp) and isinstance(el.op, ast.Div) and norm(el.right) == norm(n.right)):
                found -= 1
                continue  # a list of repeated values, not n equal steps of a total
            part = E.ev(el)
            cnt = E.ev(n.right)
            total = part * cnt
            has_av = any("vailab" in str(a) for a in total.atoms())
            if not has_av:  # the total may be a loop variable over lengths already multiplied by availability
                par = sl.module.parents()
                comp = par.get(n)
                envs = single_assign_env(sl.node)
                if isinstance(comp, ast.ListComp) and isinstance(comp.generators[0].iter, ast.Name) and comp.generators[0].iter.id in envs:
                    src = envs[comp.generators[0].iter.id]
                    if isinstance(src, ast.ListComp):
                        g0 = src.generators[0]
                        paired = (isinstance(g0.iter, ast.Call) and dotted(g0.iter.func) == "zip" and len(g0.iter.args) == 2 and isinstance(g0.target, ast.Tuple)
                                  and any("vailab" in norm(a) for a in g0.iter.args) and isinstance(src.elt, ast.BinOp) and isinstance(src.elt.op, ast.Mult)
                                  and {norm(src.elt.left), norm(src.elt.right)} == {norm(e) for e in g0.target.elts})
                        has_av = paired
            no_cnt = not (total.atoms() & cnt.atoms())
            r.require(has_av and no_cnt, f"equal-steps-sum:{norm(n.right)}", sl, node=n, msg=f"n equal steps must sum to length x availability, independent of n: total normal form {total}")
    if found < 2:
        raise AnalysisError("_getStepAndCycleLengths: equal-steps constructions not found")


def r8_toggles(idx, r):
    """enabled() and bolForce() are query/set toggles: query exactly when no flag is given, else store the flag."""
    iface = idx.cls("armi.interfaces.Interface")
    for name in ("enabled", "bolForce"):
        f = iface.methods.get(name)
        if f is None:
            raise AnchorMissing(f"Interface.{name}")
        first = next((s_ for s_ in f.node.body if isinstance(s_, ast.If)), None)
        okq = first is not None and norm(first.test) == "flag is None" and len(first.body) == 1 and isinstance(first.body[0], ast.Return) and isinstance(first.body[0].value, ast.Attribute) \
            and norm(first.body[0].value.value) == "self"
        r.require(okq, f"Interface.{name}:query-exactly-on-None", f, node=first, msg=f"{name}() must be a query exactly when `flag is None` (so that {name}(False) clears the flag)")
        if okq:
            attr = first.body[0].value.attr
            sets = [s_ for s_ in iter_stores(f.node) if s_.chain == f"self.{attr}" and s_.value is not None and norm(s_.value) == "flag"]
            r.require(bool(sets), f"Interface.{name}:stores-flag", f, msg=f"{name}(flag) must store the flag into self.{attr}")
    # the two toggles are independent: each writes its own flag only
    own = {"enabled": "_enabled", "bolForce": "_bolForce"}
    for name, mine in own.items():
        f = iface.methods[name]
        foreign = [s_ for s_ in iter_stores(f.node) if s_.chain and s_.chain.startswith("self.") and s_.attr != mine]
        r.require(not foreign, f"Interface.{name}:writes-only-its-own-flag", f, node=foreign[0].stmt if foreign else None,
                  msg=f"{name}() also writes `{foreign[0].chain if foreign else ''}`: an interface attached with bolForce=True and disabled afterwards loses its forced interactBOL "
                      "(getActiveInterfaces admits a disabled interface at BOL exactly when bolForce() is set)")
    ai = idx.method(OP, "addInterface")
    calls = {norm(c) for c in iter_calls(ai.node)}
    bf = next((c for c in iter_calls(ai.node) if norm(c) == "interface.bolForce(bolForce)"), None)
    conds = [norm(t) for t, p in path_conditions(ai.node, bf) if p] if bf is not None else None
    r.require(bf is not None and not conds, "addInterface:bolForce-unconditional", ai, node=bf, msg="addInterface must always set the BOL-force flag from its argument")
    en = next((c for c in iter_calls(ai.node) if norm(c) == "interface.enabled(False)"), None)
    r.require(en is not None and [(norm(t), p) for t, p in path_conditions(ai.node, en) if norm(t) == "enabled"] == [("enabled", False)], "addInterface:disable", ai, node=en,
              msg="addInterface must disable the interface when enabled=False")


def r9_convergence_measure(idx, r):
    """The coupled-iteration loop stops when every coupler reports convergence, and a coupler tests only
    `eps < tolerance` (one-sided). eps must therefore be a magnitude in every branch that computes it - abs() of a
    difference or a norm - or a quantity that merely DEcreased counts as converged."""
    f = idx.method("armi.interfaces.TightCoupler", "isConverged")
    if f is None:
        raise AnchorMissing("TightCoupler.isConverged")
    cmp_ = [n for n in walk_local(f.node) if isinstance(n, ast.Compare) and "self.eps" in norm(n) and "tolerance" in norm(n)]
    if not cmp_:
        raise AnchorMissing("isConverged: comparison of eps with the tolerance")
    one_sided = all(len(c.ops) == 1 and isinstance(c.ops[0], (ast.Lt, ast.LtE)) and norm(c.left) == "self.eps" for c in cmp_)
    stores = [s_ for s_ in iter_stores(f.node) if s_.chain == "self.eps" and s_.kind == "assign"]
    if not stores:
        raise AnchorMissing("isConverged: stores into self.eps")
    for i, s_ in enumerate(stores):
        v = s_.value
        mag = isinstance(v, ast.Call) and (dotted(v.func) in ("abs", "np.abs", "numpy.abs", "math.fabs", "np.fabs") or (dotted(v.func) or "").split(".")[-1] == "norm")
        r.require(mag or not one_sided, f"eps-is-a-magnitude#{i}:{norm(v)[:40]}", f, node=s_.stmt,
                  msg=f"`{norm(s_.stmt)[:70]}` can be negative, and the convergence test is the one-sided `{norm(cmp_[0])}`: a value that decreased by more than the tolerance "
                      "is reported converged and the coupled iterations stop early")


def r10_zero_divisors(idx, r):
    """'step lengths sum to availability times cycle length' for ANY cycle history the settings admit. The schema of a
    detailed cycle admits `burn steps: 0` and `availability factor: 0` (Range(min=0)); every division by one of those
    quantities in the step/cycle-length arithmetic must sit behind a test that excludes zero - as the simple-input branch
    does for burnSteps - or an admitted history ends in ZeroDivisionError."""
    f = idx.func("armi.utils._getStepAndCycleLengths")
    if f is None:
        raise AnchorMissing("armi.utils._getStepAndCycleLengths")
    par = {}
    for nd in ast.walk(f.node):
        for ch in ast.iter_child_nodes(nd):
            par[ch] = nd
    KEYS = ("burn steps", "burnSteps", "aFactor", "availab")
    n = 0
    for d in [x for x in ast.walk(f.node) if isinstance(x, ast.BinOp) and isinstance(x.op, ast.Div) and any(k in norm(x.right) for k in KEYS)]:
        n += 1
        div = norm(d.right)
        tests = [norm(t) for t, pol in path_conditions(f.node, d)]
        nd = d
        while nd in par:  # conditional expressions and comprehension filters above the division
            nd = par[nd]
            if isinstance(nd, ast.IfExp):
                tests.append(norm(nd.test))
            if isinstance(nd, (ast.ListComp, ast.GeneratorExp)):
                tests += [norm(i) for g in nd.generators for i in g.ifs]
        root = div.replace("cycle[", "").replace("cs[", "").strip("]'\"")
        guarded = any((root in t or div in t) and ("0" in t) for t in tests)
        r.require(guarded, f"divisor-guarded:{div[:40]}", f, node=d,
                  msg=f"`{norm(d)[:70]}` divides by `{div}`, a quantity the cycles schema admits as 0, without a test that excludes zero on this path: a history the settings accept "
                      "(a cycle without burn steps / a decay-only cycle with availability 0) raises ZeroDivisionError when the step lengths are computed")
    if n < 3:
        raise AnalysisError(f"only {n} divisions by burn steps / availability found in _getStepAndCycleLengths")


def r11_settings_not_truth_tested(idx, r):
    """The cycle-history helpers read numeric settings for which 0 is a legitimate value (availabilityFactor 0.0 = a decay-only cycle,
    burnSteps 0).  'Unset' is None (or an empty list): a bare truth test or an `or`-default on cs[...] turns 0 into the default."""
    m = idx.module(UT)
    n = 0
    for f in m.all_funcs():
        if "cs" not in f.params():
            continue
        n += 1
        bad = []
        for nd in ast.walk(f.node):
            tests = []
            if isinstance(nd, (ast.If, ast.IfExp, ast.While)):
                tests.append(nd.test)
            elif isinstance(nd, ast.BoolOp):
                tests.extend(nd.values[:-1] if isinstance(nd.op, ast.Or) else nd.values)
            elif isinstance(nd, ast.UnaryOp) and isinstance(nd.op, ast.Not):
                tests.append(nd.operand)
            for t in tests:
                if isinstance(t, ast.Subscript) and isinstance(t.value, ast.Name) and t.value.id == "cs":
                    bad.append(t)
        r.require(not bad, f"{f.qualname}:settings-compared-with-None", f, node=bad[0] if bad else None,
                  msg=f"`{norm(bad[0]) if bad else ''}` is evaluated for truth: a setting of 0 (e.g. availabilityFactor: 0.0, a decay-only history) is silently replaced by the default")
    if n < 8:
        raise AnalysisError(f"only {n} settings-reading helpers found in armi.utils")


def r12_defined_after_zero_iterations(idx, r):
    """A local that is assigned ONLY inside the body of a `for` loop and read after that loop is unbound when the loop runs zero times
    (tightCouplingMaxNumIters: 0, an empty interface list ...): the UnboundLocalError aborts the run between two events.  Decided for every
    function of the operator package and armi.interfaces."""
    n = 0
    for m in idx.modules.values():
        if not (m.name.startswith("armi.operators") or m.name == "armi.interfaces") or ".tests" in m.name:
            continue
        for f in m.all_funcs():
            params = set(f.params()) | {a.arg for a in f.node.args.kwonlyargs} | ({f.node.args.vararg.arg} if f.node.args.vararg else set()) | ({f.node.args.kwarg.arg} if f.node.args.kwarg else set())
            stores = {}
            for nd in walk_local(f.node):
                if isinstance(nd, ast.Name) and isinstance(nd.ctx, ast.Store):
                    stores.setdefault(nd.id, []).append(nd)
            for ordl, loop in enumerate([x for x in walk_local(f.node) if isinstance(x, ast.For)]):
                if isinstance(loop.iter, (ast.Tuple, ast.List)) and loop.iter.elts:
                    continue
                n += 1
                inbody = {nd.id for st_ in loop.body for nd in ast.walk(st_) if isinstance(nd, ast.Name) and isinstance(nd.ctx, ast.Store)}
                tgt = {nd.id for nd in ast.walk(loop.target) if isinstance(nd, ast.Name)}
                only = {v for v in inbody if v not in params and all(loop.lineno <= x.lineno <= loop.end_lineno for x in stores.get(v, [])) and v not in tgt}
                else_defs = {nd.id for st_ in loop.orelse for nd in ast.walk(st_) if isinstance(nd, ast.Name) and isinstance(nd.ctx, ast.Store)}
                late = [nd for nd in walk_local(f.node) if isinstance(nd, ast.Name) and isinstance(nd.ctx, ast.Load) and nd.id in only - else_defs and nd.lineno > loop.end_lineno]
                # a read after the loop that an enclosing loop could only reach after a later assignment does not exist here: `only` excludes names assigned elsewhere
                r.require(not late, f"{f.qualname}:loop{ordl}:locals-bound-after-an-empty-loop", f, node=late[0] if late else loop,
                          msg=f"`{late[0].id if late else ''}` is assigned only inside the loop `for {norm(loop.target)} in {norm(loop.iter)[:50]}` and read after it: when the loop body never runs "
                              "(e.g. tightCouplingMaxNumIters: 0) the read raises UnboundLocalError and the remaining events of the run (later nodes, EOC, EOL) are never delivered")
    if n < 20:
        raise AnalysisError(f"only {n} loops analysed in the operator package")


def r13_positions_and_lengths(idx, r):
    """(a) Operator.addInterface places an interface at `index` when one is given - 0 (the head of the stack) included: the optional index is
    compared with None, never evaluated for truth.  (b) the detailed `cycles` input takes real-valued cycle lengths and availability factors:
    their schema coerces to float (an integer coercion truncates 10.5 days to 10 and the step lengths no longer sum to the input)."""
    f = idx.method(OP, "addInterface")
    if "index" not in f.params():
        raise AnchorMissing("Operator.addInterface(index=...)")
    bad = []
    for x in ast.walk(f.node):
        tests = []
        if isinstance(x, (ast.If, ast.IfExp, ast.While)):
            tests.append(x.test)
        elif isinstance(x, ast.BoolOp):
            tests.extend(x.values)
        elif isinstance(x, ast.UnaryOp) and isinstance(x.op, ast.Not):
            tests.append(x.operand)
        bad += [t for t in tests if isinstance(t, ast.Name) and t.id == "index"]
    r.require(not bad, "addInterface:index-compared-with-None", f, node=bad[0] if bad else None,
              msg="`index` is evaluated for truth: index=0 (put this interface first) is treated as 'no index' and the interface is appended at the END of the stack, so it is called last at every event")
    ins = [c for c in iter_calls(f.node) if norm(c.func) == "self.interfaces.insert"]
    r.require(len(ins) == 1 and norm(ins[0].args[0]) == "index", "addInterface:inserted-at-the-index", f, msg="with an index the interface is inserted there")
    m = idx.modules.get("armi.settings.fwSettings.globalSettings")
    ds = m.functions.get("defineSettings") if m is not None else None
    if ds is None:
        raise AnchorMissing("globalSettings.defineSettings")
    want = {"cycle length": "float", "availability factor": "float", "burn steps": "int"}
    seen = {}
    for d in [x for x in ast.walk(ds.node) if isinstance(x, ast.Dict)]:
        for k, v in zip(d.keys, d.values):
            if isinstance(k, ast.Constant) and k.value in want:
                co = [c for c in ast.walk(v) if isinstance(c, ast.Call) and (dotted(c.func) or "").endswith("Coerce") and c.args]
                if co:
                    seen[k.value] = norm(co[0].args[0])
    if set(seen) != set(want):
        raise AnchorMissing(f"cycles schema entries {sorted(set(want) - set(seen))}")
    for k, t in sorted(want.items()):
        r.require(seen[k] == t, f"cycles-schema:{k}:{t}", ds, msg=f"`{k}` is coerced to {seen[k]}; it must be {t}: a fractional {k} is silently truncated and the step lengths no longer sum to availability x cycle length")


def r14_previous_value_is_a_snapshot(idx, r):
    """The coupler compares the value of this iteration with the value it stored in the previous one.  Arrays and lists are supported values:
    stored by reference, an interface that updates its array in place hands the coupler the same object twice, eps is 0 and the node is declared
    converged after the first iteration.  The stored value must be a copy."""
    f = idx.method("armi.interfaces.TightCoupler", "storePreviousIterationValue")
    val = f.params()[1]
    st = [s_ for s_ in iter_stores(f.node) if s_.chain == "self._previousIterationValue"]
    if len(st) != 1:
        raise AnchorMissing("TightCoupler.storePreviousIterationValue: self._previousIterationValue = ...")
    v = st[0].value
    copied = isinstance(v, ast.Call) and (dotted(v.func) in ("copy.deepcopy", "copy.copy", "np.array", "np.copy", "deepcopy", "list") or call_attr(v) == "copy") and val in norm(v)
    r.require(copied, "storePreviousIterationValue:stores-a-copy", f, node=st[0].stmt,
              msg=f"`{norm(st[0].stmt)}` keeps the caller's own object: for an array updated in place the 'previous' and the 'current' value are one object, eps is always 0 and the coupled iteration stops after one pass")


def r15_cumulative_days_evaluated(idx, r):
    """`cumulative days` of a detailed cycle are turned into step lengths by getStepsFromValues, which is EVALUATED (MiniEval) on six value
    lists (ints, floats, numeric strings, a start value): the result is the list of successive differences and - because the list it is given
    IS the one stored in the settings, and cycle histories are resolved many times per run - the argument is left as it was."""
    from ..minieval import MiniEval, Raised
    f = idx.func("armi.utils.mathematics.getStepsFromValues")
    ps = f.params()
    cases = [([10.0, 30.0, 60.0, 100.0], 0.0), ([5, 5, 9], 0.0), ([1.5], 0.0), ([], 0.0), (["2", "4.5"], 0.0), ([7.0, 10.0], 2.0)]
    bad = []
    for vals, prev in cases:
        arg = list(vals)
        try:
            got, _ = MiniEval().run(f.node, {ps[0]: arg, ps[1]: prev})
        except Raised as e:
            got = f"raises {e}"
        want, p_ = [], prev
        for v in vals:
            want.append(float(v) - p_)
            p_ = float(v)
        if got != want or arg != list(vals):
            bad.append((vals, got, "argument left as " + repr(arg) if arg != list(vals) else ""))
    r.require(not bad, "getStepsFromValues:differences-of-an-untouched-argument", f,
              msg=f"(values, result, side effect) = {bad[:2]}: the step lengths are not the successive differences, or the caller's list (the `cumulative days` held by the settings) is overwritten and the next resolution of the cycle history differences the differences")


def r17_zero_tolerance_is_a_tolerance(idx, r):
    """_setTightCouplerByInterfaceFunction builds a coupler whenever the settings define one for the interface's function: the numeric
    entries (convergence tolerance, iteration cap) are values, not presence flags - 0.0 is an admitted tolerance (the schema takes it) that
    can never be met, so such a coupler runs to the iteration cap.  Evaluating it for truth drops the coupler and the loop stops after one
    iteration."""
    from ..astutil import truthiness_uses
    f = idx.func("armi.interfaces._setTightCouplerByInterfaceFunction")
    env = single_assign_env(f.node)
    nums = [n_ for n_, v in env.items() if any(k in norm(v) for k in ("'convergence'", '"convergence"', "tightCouplingMaxNumIters"))]
    if not nums:
        raise AnchorMissing("_setTightCouplerByInterfaceFunction: tolerance / iteration cap")
    uses = truthiness_uses(f.node, set(nums))
    r.require(not uses, "tight-coupler:numeric-entries-not-tested-for-truth", f, node=uses[0] if uses else None,
              msg=f"`{norm(uses[0]) if uses else ''}` is evaluated for truth: a convergence tolerance of 0.0 counts as 'no coupling defined', the interface gets no coupler and the coupled iteration ends after one pass")
    rets = [x for x in walk_local(f.node) if isinstance(x, ast.Return) and isinstance(x.value, ast.Call) and norm(x.value.func).endswith("TightCoupler")]
    r.require(len(rets) == 1 and not [t for t, _p in path_conditions(f.node, rets[0]) if {y.id for y in ast.walk(t) if isinstance(y, ast.Name)} & set(env)], "tight-coupler:built-whenever-defined", f, node=rets[0] if rets else None,
              msg="the coupler is only built under a condition on the values read from the settings entry")


def r16_pairing(idx, r):
    from ..pairing import pairing_rule
    pairing_rule(idx, r, ["armi.operators", "armi.interfaces", "armi.utils"], 150)


def r18_coupling_switch(idx, r):
    """`Operator.couplingIsActive` answers from the tightCoupling setting alone (clause of R06.8): the per-node coupled pass - which also
    writes the node to the database when coupling is on - must not be skipped because no interface happens to carry a coupler, or because the
    cycle is exempt from convergence checks."""
    from ..report import Only
    from .c06 import r8_every_node_written
    r8_every_node_written(idx, Only(r, ["couplingIsActive"]))
    f = idx.method("armi.operators.operator.Operator", "couplingIsActive")
    rets = [x for x in walk_local(f.node) if isinstance(x, ast.Return)]
    r.require(len(rets) == 1 and "interfaces" not in norm(rets[0].value) and "cyclesSkip" not in norm(rets[0].value), "couplingIsActive:the-setting-alone", f, node=rets[0] if rets else None,
              msg="couplingIsActive depends on more than the tightCoupling setting: with coupling switched on, nodes at which it answers False get neither their coupled interaction nor their database write")


def _r_count(entries):
    """number of values a settings list written with the R repeat shorthand ('R4' / '4R' = four more of the previous value) stands for"""
    n = 0
    for e in entries:
        s = str(e).upper()
        n += int(s.replace("R", "")) if "R" in s else 1
    return n


def _r_expand(entries):
    out = []
    for e in entries:
        s = str(e).upper()
        if "R" in s:
            out += [out[-1]] * int(s.replace("R", ""))
        else:
            out.append(float(s))
    return out


def _history_reference(cs):
    """Independent statement of what a cycle history means: per cycle (burn steps, power fraction of each burn step, days at power =
    availability x cycle length).  Detailed input: a cycle gives `step days` (R shorthand allowed), `cumulative days`, or `burn steps` +
    `cycle length`; `power fractions` (R shorthand allowed) default to full power for every burn step."""
    steps, fracs, days = [], [], []
    if cs["cycles"]:
        for c in cs["cycles"]:
            if "step days" in c:
                n, d = _r_count(c["step days"]), sum(_r_expand(c["step days"]))
            elif "cumulative days" in c:
                n, d = len(c["cumulative days"]), (float(c["cumulative days"][-1]) if c["cumulative days"] else 0.0)
            else:
                n, d = c["burn steps"], c["cycle length"] * c.get("availability factor", 1)
            steps.append(n)
            days.append(d)
            fracs.append(_r_expand(c["power fractions"]) if "power fractions" in c else [1.0] * n)
    else:
        nc = cs["nCycles"]
        n = cs["burnSteps"] or 0
        av = _r_expand(cs["availabilityFactors"]) if cs["availabilityFactors"] else [cs["availabilityFactor"]] * nc
        ln = _r_expand(cs["cycleLengths"]) if cs["cycleLengths"] else [cs["cycleLength"]] * nc
        pf = _r_expand(cs["powerFractions"]) if cs["powerFractions"] else [1.0] * nc
        steps, days, fracs = [n] * nc, [a * b for a, b in zip(av, ln)], [[v] * n for v in pf]
    return steps, fracs, days


def _cycle_histories():
    """(name, settings as the cycle-history helpers read them, helpers that a reported defect of today's tree leaves undecided for this history or None)"""
    base = {"cycles": [], "nCycles": 1, "burnSteps": 4, "cycleLength": 365.25, "cycleLengths": None, "availabilityFactor": 1.0, "availabilityFactors": None, "powerFractions": None}

    def h(**kw):
        d = dict(base)
        d.update(kw)
        return d
    return [
        ("simple:3-cycles-x-4-steps-defaults", h(nCycles=3, burnSteps=4, cycleLength=100.0, availabilityFactor=0.9), None),
        ("simple:per-cycle-lists-with-R-shorthand", h(nCycles=3, burnSteps=2, cycleLengths=[100.0, "2R"], availabilityFactors=[0.5, "R2"], powerFractions=[1.0, 0.5, 0.0]), None),
        ("simple:1-cycle-zero-burn-steps", h(nCycles=1, burnSteps=0, cycleLength=10.0), None),
        ("simple:3-cycles-zero-burn-steps", h(nCycles=3, burnSteps=0, cycleLength=10.0), None),  # was a defect of the tree (one step list for three cycles): repaired by F104
        ("detailed:step-days|R-step-days-default-fractions|cumulative-days|burn-steps+length", h(nCycles=4, cycles=[
            {"step days": ["1", "2"], "power fractions": ["0.5", "0.6"]},
            {"step days": ["3", "R4"]},
            {"cumulative days": [2, 5, 6]},
            {"cycle length": 10.0, "burn steps": 2, "availability factor": 0.5}]), None),
        ("detailed:named-cycles-R-fractions-availability", h(nCycles=4, cycles=[
            {"name": "A", "step days": ["10", "2R"], "power fractions": ["1.0", "R2"], "availability factor": 0.8},
            {"name": "B", "cumulative days": [5.0]},
            {"burn steps": 4, "cycle length": 20.0, "power fractions": ["0.0", "3R"]},
            {"cumulative days": [1, 2, 3, 4, 7], "availability factor": 0.5}]), None),
        ("detailed:single-cycle-one-step", h(nCycles=1, cycles=[{"step days": ["7"]}]), None),
        ("detailed:burn-steps-default-fractions-then-R-step-days", h(nCycles=2, cycles=[
            {"burn steps": 3, "cycle length": 30.0},
            {"step days": ["5", "R5"], "availability factor": 0.25}]), None),
    ]


def r19_history_evaluated(idx, r):
    """A run visits, in cycle c, the time nodes 0..burnSteps[c] and reads for every burn step its step length and its power fraction.  The
    cycle-history helpers of armi.utils that answer these per cycle (getBurnSteps, getStepLengths, getPowerFractions, getNodesPerCycle,
    getCycleLengths x getAvailabilityFactors) are EVALUATED (MiniEval; calls between them and into armi.utils.mathematics are followed through
    the index) on eight cycle histories - simple and detailed input, R repeat shorthand in step days / power fractions / per-cycle lists,
    cumulative days, burn steps + cycle length, explicit and default power fractions, zero burn steps - and compared with an independent
    statement of what the history means: one entry per cycle, in every cycle as many step lengths and power fractions as burn steps, one node
    more than burn steps, and step lengths that sum to availability x cycle length."""
    import copy
    from ..index import FuncInfo
    from ..minieval import MiniEval, Raised

    class _Settings(dict):
        pass

    class _H(MiniEval):
        def __init__(self, mod, depth=0):
            super().__init__()
            self.mod, self.depth = mod, depth

        def _call(self, tgt, e, env):
            if self.depth > 12:
                raise AnalysisError(f"cycle-history evaluation: call depth exceeded at `{norm(e)[:50]}`")
            a = tgt.node.args
            if a.vararg or a.kwarg or a.kwonlyargs or any(isinstance(x, ast.Starred) for x in e.args) or any(k.arg is None for k in e.keywords):
                raise AnalysisError(f"cycle-history evaluation: call `{norm(e)[:50]}` outside the fragment")
            ps = tgt.params()
            bound = {}
            for p, d in zip(ps[len(ps) - len(a.defaults):], a.defaults):
                bound[p] = _H(tgt.module, self.depth + 1)._ev(d, {})
            if len(e.args) > len(ps):
                raise Raised(f"TypeError: {tgt.name}() takes {len(ps)} arguments")
            for p, x in zip(ps, e.args):
                bound[p] = self._ev(x, env)
            for k in e.keywords:
                if k.arg not in ps:
                    raise Raised(f"TypeError: {tgt.name}() got an unexpected keyword argument {k.arg}")
                bound[k.arg] = self._ev(k.value, env)
            if set(bound) != set(ps):
                raise Raised(f"TypeError: {tgt.name}() missing arguments {sorted(set(ps) - set(bound))}")
            return _H(tgt.module, self.depth + 1).run(tgt.node, bound)[0]

        def _ev(self, e, env):
            if isinstance(e, ast.Subscript) and not isinstance(e.slice, ast.Slice):
                v, k = self._ev(e.value, env), self._ev(e.slice, env)
                if isinstance(v, dict):
                    if k in v:
                        return v[k]
                    if isinstance(v, _Settings):
                        raise AnalysisError(f"cycle-history evaluation: the setting `{k}` is read, which the histories of R15.19 do not define")
                    raise Raised(f"KeyError: {k!r}")
                if isinstance(v, (list, tuple, str)) and isinstance(k, int) and not isinstance(k, bool):
                    if -len(v) <= k < len(v):
                        return v[k]
                    raise Raised(f"IndexError: index {k} of a sequence of {len(v)}")
                raise AnalysisError(f"cycle-history evaluation: subscript `{norm(e)[:60]}` outside the fragment")
            if isinstance(e, ast.Compare) and len(e.ops) == 1 and isinstance(e.ops[0], (ast.In, ast.NotIn)):
                a, b = self._ev(e.left, env), self._ev(e.comparators[0], env)
                if isinstance(b, (dict, list, tuple)) or (isinstance(a, str) and isinstance(b, str)):
                    return (a in b) == isinstance(e.ops[0], ast.In)
                raise AnalysisError(f"cycle-history evaluation: membership `{norm(e)[:60]}` outside the fragment")
            if isinstance(e, ast.Call):
                f = e.func
                if isinstance(f, ast.Attribute) and f.attr in ("keys", "values", "items", "get", "count", "replace", "strip") and not e.keywords:
                    recv = self._ev(f.value, env)
                    args = [self._ev(x, env) for x in e.args]
                    if isinstance(recv, dict):
                        if f.attr in ("keys", "values", "items") and not args:
                            return {"keys": list(recv), "values": list(recv.values()), "items": [(k, v) for k, v in recv.items()]}[f.attr]
                        if f.attr == "get" and 1 <= len(args) <= 2:
                            if isinstance(recv, _Settings) and args[0] not in recv:
                                raise AnalysisError(f"cycle-history evaluation: the setting `{args[0]}` is read, which the histories of R15.19 do not define")
                            return recv.get(*args)
                    if isinstance(recv, str) and f.attr in ("count", "replace", "strip") and all(isinstance(x, str) for x in args):
                        return getattr(recv, f.attr)(*args)
                    raise AnalysisError(f"cycle-history evaluation: call `{norm(e)[:60]}` outside the fragment")
                d = dotted(f)
                tgt = idx.resolve_name(self.mod, d) if d else None
                if isinstance(tgt, FuncInfo) and tgt.cls is None:
                    return self._call(tgt, e, env)
            return super()._ev(e, env)

    m = idx.module(UT)
    helpers = {n: idx.func(f"{UT}.{n}") for n in ("getBurnSteps", "getStepLengths", "getPowerFractions", "getNodesPerCycle", "getCycleLengths", "getAvailabilityFactors")}

    def evaluate(name, cs):
        f = helpers[name]
        try:
            return _H(m).run(f.node, {f.params()[0]: _Settings(copy.deepcopy(cs))})[0]
        except Raised as ex:
            return f"raises {ex}"

    def close(a, b):
        return isinstance(a, (int, float)) and abs(a - b) <= 1e-9 * max(1.0, abs(b))

    ZERO_STEPS = ("armi/utils/__init__.py _getStepAndCycleLengths: with the simple input `nCycles: 3, burnSteps: 0` the step lengths are `[[]]` - ONE cycle - so getBurnSteps gives [0] and "
                  "getNodesPerCycle [1] for a three-cycle run: Operator.burnSteps raises ValueError and getCumulativeNodeNum(2, 0, cs) is 1 instead of 2 (defect of today's tree, reported; not decided here)")
    for hname, cs, defect in _cycle_histories():
        steps, fracs, days = _history_reference(cs)
        nc = cs["nCycles"]
        if not (len(steps) == len(fracs) == len(days) == nc):
            raise AnalysisError(f"R15.19: history {hname} is not a history of {nc} cycles")
        got = {n: evaluate(n, cs) for n in helpers}
        verdicts = []
        g = got["getBurnSteps"]
        verdicts.append(("getBurnSteps", g == steps,
                         f"getBurnSteps gives {g!r}, the history has {steps} burn steps per cycle: the node loop of a cycle runs over the wrong number of time nodes"))
        g = got["getStepLengths"]
        shape = isinstance(g, list) and [len(x) if isinstance(x, list) else None for x in g] == steps
        verdicts.append(("getStepLengths", shape and all(close(sum(x), d) for x, d in zip(g, days) if x),  # a cycle without burn steps has no step to carry its days
                         f"getStepLengths gives {g!r}; per cycle there must be {steps} step lengths, summing (where there are any) to availability x cycle length = {days}"))
        g = got["getPowerFractions"]
        nfr = [len(x) if isinstance(x, list) else None for x in g] if isinstance(g, list) else g
        firstbad = next((c for c in range(nc) if not isinstance(nfr, list) or c >= len(nfr) or nfr[c] != steps[c]), None)
        verdicts.append(("getPowerFractions", g == fracs,
                         (f"getPowerFractions gives {nfr} power fractions per cycle for {steps} burn steps (cycle {firstbad}): burn steps and power fractions of that cycle do not match one to one - a burn step is left "
                          "without its power fraction and Operator refuses the history as inconsistent (ValueError), so none of its time nodes is visited" if firstbad is not None else f"getPowerFractions gives {g!r}, the history states {fracs}")))
        g = got["getNodesPerCycle"]
        verdicts.append(("getNodesPerCycle", g == [s + 1 for s in steps], f"getNodesPerCycle gives {g!r}; a run visits burn steps + 1 = {[s + 1 for s in steps]} nodes per cycle, and the cumulative numbering counts with this list"))
        ln, av = got["getCycleLengths"], got["getAvailabilityFactors"]
        okl = isinstance(ln, list) and isinstance(av, list) and len(ln) == len(av) == nc and all(close(a * b, d) for a, b, d in zip(ln, av, days))
        verdicts.append(("getCycleLengths*getAvailabilityFactors", okl, f"cycle lengths {ln!r} x availability factors {av!r} are not the days at power {days} that the step lengths of each cycle sum to"))
        for hn, ok, msg in verdicts:
            key = f"{hname}:{hn}"
            at = helpers[hn.split("*")[0]]
            if ok:
                r.ok(key, at)
            elif defect is not None and hn in defect:
                r.undecided(key, at, ZERO_STEPS)
            else:
                r.violate(key, at, f"history `{hname}`: {msg}")


def run(idx, chk):
    chk.explanation = (
        "C15: the operator's main, cycle and node loops, _interactAll, the six interactAllX entry points, getActiveInterfaces, the tight "
        "coupling loop and the node-numbering helpers are checked for loop shape, once-per-iteration unconditional calls on every path, "
        "state strings / hook arguments agreement and shared definitions. Equality with a reference schedule for every configuration and "
        "restart state are NOT decided."
    )
    chk.undecided_clauses = ["equality with a reference schedule for every configuration", "restart state"]
    chk.run_rule("R15.1", "_mainOperate: BOL once, cycles startCycle..nCycles via _cycleLoop, break only on halt, EOL once on every exit", lambda r: r1_main(idx, r), floor=7, necessary="shape of the run")
    chk.run_rule("R15.2", "_cycleLoop: BOC first, halt only after BOC, every burn step one node, exactly one final node, EOC, True", lambda r: r2_cycle(idx, r), floor=10, necessary="'visits every time node once, in order'")
    chk.run_rule("R15.3", "_interactAll calls the hook of every active interface exactly once, unconditionally, in order, with the event's arguments", lambda r: r3_hook_unconditional(idx, r), floor=5,
                 necessary="'exactly the interfaces that are enabled are called, once each'")
    chk.run_rule("R15.4", "each interactAllX uses one state string for selection and hooks and passes the documented arguments", lambda r: r4_strings(idx, r), floor=24, necessary="hooks receive the current cycle and node")
    chk.run_rule("R15.5", "getActiveInterfaces filters self.interfaces in stack order with enabled/bolForce and the name checks; EOL reverse-flagged last, reversed; error hooks unfiltered", lambda r: r5_selection(idx, r), floor=10,
                 necessary="selection and order of hooks")
    chk.run_rule("R15.6", "tight coupling: capped loop, break only on convergence, skipped for exempt cycles, node written afterwards regardless", lambda r: r6_coupling(idx, r), floor=9, necessary="coupling iterations and the per-node write")
    chk.run_rule("R15.8", "Interface.enabled/bolForce are sibling toggles of identical shape; addInterface sets all three flags", lambda r: r8_toggles(idx, r), floor=3,
                 necessary="'enabled (or forced at beginning-of-life)' must reflect what the stack was configured with")
    chk.run_rule("R15.7", "(cycle,node) <-> cumulative numbering share getNodesPerCycle = burnSteps+1 and are inverse affine forms; equal steps sum to length x availability", lambda r: r7_node_arithmetic(idx, r), floor=14,
                 necessary="numbering must follow the order a run visits nodes")
    chk.run_rule("R15.9", "tight coupling: the measure compared one-sidedly with the tolerance is a magnitude (abs / norm) in every branch", lambda r: r9_convergence_measure(idx, r), floor=3,
                 necessary="coupled iterations run until every coupler has converged")
    chk.run_rule("R15.10", "every division by burn steps / availability factor in the step-length arithmetic excludes zero on its path", lambda r: r10_zero_divisors(idx, r), floor=3,
                 necessary="step lengths are defined for ANY cycle history the settings admit (the schema admits 0 for both)")
    chk.run_rule("R15.11", "numeric settings read by the cycle-history helpers are compared with None, never evaluated for truth", lambda r: r11_settings_not_truth_tested(idx, r), floor=8,
                 necessary="step lengths sum to availability x cycle length for every admitted history, including availability 0")
    chk.run_rule("R15.12", "no local of the operator package is read after a loop that is its only place of assignment", lambda r: r12_defined_after_zero_iterations(idx, r), floor=20,
                 necessary="every event is delivered for every admitted history, including a coupling cap of zero iterations")
    chk.run_rule("R15.13", "addInterface honours index 0; detailed cycle lengths and availability factors are real-valued", lambda r: r13_positions_and_lengths(idx, r), floor=5,
                 necessary="interfaces are called in stack order; step lengths sum to availability x cycle length")
    chk.run_rule("R15.14", "the coupler stores a copy of the previous iteration's value", lambda r: r14_previous_value_is_a_snapshot(idx, r), floor=1,
                 necessary="the coupled iteration at a node runs until the couplers have really converged or the cap is reached")
    chk.run_rule("R15.15", "cumulative days -> step lengths: successive differences, argument untouched (evaluated on six lists)", lambda r: r15_cumulative_days_evaluated(idx, r), floor=1,
                 necessary="step lengths of a cycle sum to availability x cycle length every time the history is resolved")
    chk.run_rule("R15.16", "arguments stand at the parameter they are named after; sibling calls forward the same pass-through parameters", lambda r: r16_pairing(idx, r), floor=1,
                 necessary="(cycle, node) reach every hook in that order; exclusions are forwarded")
    chk.run_rule("R15.17", "a tight coupler is built whenever one is defined; its numeric entries are never tested for truth", lambda r: r17_zero_tolerance_is_a_tolerance(idx, r), floor=2,
                 necessary="the coupled iteration of a node runs until every defined coupler has converged or the cap is reached")
    chk.run_rule("R15.18", "couplingIsActive answers from the tightCoupling setting alone", lambda r: r18_coupling_switch(idx, r), floor=2,
                 necessary="every enabled interface gets its coupled interaction at every node when coupling is on")
    chk.run_rule("R15.19", "cycle-history helpers evaluated on eight histories: per cycle as many step lengths and power fractions as burn steps, burn steps + 1 nodes, steps sum to availability x length",
                 lambda r: r19_history_evaluated(idx, r), floor=40,
                 necessary="'every time node from the start node to the last' of every cycle history (simple and detailed, R shorthand, default power fractions) has its step length and power fraction; "
                           "nodes are numbered in the order a run visits them; step lengths sum to availability times cycle length")
