"""C09 - CCCC files round-trip: reader/writer symmetry of the rw* primitives, record framing,
read-what-you-write at every rw* call site, call conformance, guard satisfiability and key tables,
API completeness.  Decides structural necessary conditions only (DESIGN.md section 3, C09)."""
from __future__ import annotations

import ast
import string
import struct

from ..astutil import (call_attr, get_arg, iter_calls, iter_stores, propagate, same_expr, single_assign_env,
                       walk_local, const_str)
from ..exprnf import ExprEval, Poly
from ..flow import Flow, path_conditions
from ..index import AnalysisError, AnchorMissing, dotted, norm

CCCC = "armi.nuclearDataIO.cccc.cccc"
PKG = "armi.nuclearDataIO.cccc."
PRIMS = ["rwInt", "rwLong", "rwFloat", "rwDouble", "rwString"]
RW = {"rwInt", "rwBool", "rwLong", "rwFloat", "rwDouble", "rwString", "rwList", "rwMatrix", "rwDoubleMatrix",
      "rwIntMatrix", "rwImplicitlyTypedMap"}

# R09.4 - sites where argument and result are deliberately different storage (one reason each).
# key = (module file, function, normalised call text)
VIEW_EXCEPTIONS = {
    ("dlayxs.py", "DlayxsIO._rwSpectra", "fileData.rwList(self.metadata['dummy2'], 'string', len(self.metadata['dummy2']), 4)"):
        "padding record: write-only branch (dummy2 already present), the read branch two lines below fills it",
    ("dlayxs.py", "DlayxsIO._rwYield", "yieldData.rwMatrix(delayNeutronsPerFission, self.metadata['nkfam'][ii], self.metadata['numEnergyGroups'])"):
        "transposed view on both sides (argument transposed before, result transposed back)",
    ("isotxs.py", "_IsotxsNuclideIO._rw7DRecord", "record.rwFloat(xs)"):
        "write-only branch of the banded scatter matrix (scatter is not None); the read branch collects dataVals",
    ("nhflux.py", "NhfluxStream._rwFluxMoments3D", "record.rwDoubleMatrix(contents[:, :nMom].T, self._metadata['nintxy'], nMom)"):
        "transposed slice in, result transposed back into the same slice on the next line",
    ("nhflux.py", "NhfluxStream._rwFluxMoments3D", "record.rwDoubleMatrix(contents[:, nMom:].T, self._metadata['nintxy'], self._metadata['nMoms'])"):
        "transposed slice in, result transposed back into the same slice on the next line",
    ("pmatrx.py", "PmatrxIO._rwIsotopes", "record.rwList(self._lib.nuclideLabels, 'string', numNucs, 8)"):
        "nuclideLabels is a derived property of the library; the read result drives nuclide creation",
}


def _cccc_modules(idx):
    return sorted(
        (m for n, m in idx.modules.items() if n.startswith(PKG) and n != CCCC and "." not in n[len(PKG):]),
        key=lambda m: m.name,
    )


# ------------------------------------------------------------------------------------------------
def _size_expr(idx, cls, node):
    """Fold a byte-count expression to (coef_of_length, const)."""
    if isinstance(node, ast.Name) and node.id == "length":
        return (1, 0)
    if isinstance(node, ast.BinOp) and isinstance(node.op, ast.Mult):
        a, b = _size_expr(idx, cls, node.left), _size_expr(idx, cls, node.right)
        if a[0] and b[0]:
            raise AnalysisError("quadratic size")
        return (a[0] * b[1] + b[0] * a[1], a[1] * b[1])
    if isinstance(node, ast.BinOp) and isinstance(node.op, ast.Add):
        a, b = _size_expr(idx, cls, node.left), _size_expr(idx, cls, node.right)
        return (a[0] + b[0], a[1] + b[1])
    v = idx.fold(cls.module, node, cls=cls)
    if not isinstance(v, int):
        raise AnalysisError(f"size `{norm(node)}` does not fold to an int")
    return (0, v)


def _fmt_size(fmt_node):
    """struct format -> (coef_of_length, const) in bytes; handles '%ds' % length."""
    if isinstance(fmt_node, ast.Constant) and isinstance(fmt_node.value, str):
        return fmt_node.value, (0, struct.calcsize(fmt_node.value))
    if (isinstance(fmt_node, ast.BinOp) and isinstance(fmt_node.op, ast.Mod) and const_str(fmt_node.left) == "%ds"
            and isinstance(fmt_node.right, ast.Name) and fmt_node.right.id == "length"):
        return "%ds", (1, 0)
    raise AnalysisError(f"struct format `{norm(fmt_node)}` outside the fragment")


def _prim_facts(idx, cls, meth):
    """Facts about one binary primitive: struct fmt, size moved, counter incremented and by how much."""
    f = cls.methods.get(meth)
    if f is None:
        return None
    facts = {"func": f, "fmt": None, "fmt_size": None, "io_size": None, "counter": {}, "kind": None}
    for c in iter_calls(f.node):
        d = dotted(c.func)
        if d in ("struct.unpack", "struct.pack"):
            facts["kind"] = d.split(".")[1]
            facts["fmt"], facts["fmt_size"] = _fmt_size(c.args[0])
            facts["fmt_node"] = c
            if d == "struct.unpack":
                rd = c.args[1]
                if isinstance(rd, ast.Call) and dotted(rd.func) == "self._stream.read":
                    facts["io_size"] = _size_expr(idx, cls, rd.args[0])
    for s in iter_stores(f.node):
        if s.kind == "aug" and s.chain in ("self.numBytes", "self.byteCount") and isinstance(s.stmt.op, ast.Add):
            facts["counter"][s.attr] = _size_expr(idx, cls, s.stmt.value)
    return facts


def _rendered_width(fmt: str):
    """Width of the text produced by str.format(fmt) for one numeric field, when it is fixed:
    (const, coef_of_length)."""
    width = 0
    coef = 0
    for lit, field, spec, conv in string.Formatter().parse(fmt):
        width += len(lit)
        if field is None:
            continue
        spec = spec or ""
        if "{length}" in spec:
            coef += 1
            spec = spec.replace(".{length}", "").replace("{length}", "")  # width, optionally with an equal precision (cut to the field)
            if spec.strip("<>^=+- ") not in ("",):
                raise AnalysisError(f"format spec `{spec}` outside fragment")
            continue
        # [[fill]align][sign][#][0][width][,][.precision][type]
        import re

        m = re.fullmatch(r"(?:(.)?([<>=^]))?([+\- ])?(#)?(0)?(\d+)?([,_])?(?:\.(\d+))?([a-zA-Z%])?", spec)
        if not m:
            raise AnalysisError(f"format spec `{spec}` not understood")
        sign, w, prec, typ = m.group(3), m.group(6), m.group(8), m.group(9)
        if w:
            width += int(w)
        elif typ in ("E", "e") and prec is not None and sign == "+":
            width += 1 + 1 + 1 + int(prec) + 4  # sign d . ppp E+xx   (nominal: two exponent digits)
        else:
            raise AnalysisError(f"format spec `{spec}` has no fixed width")
    return (width, coef)


def _float_width_range(fmt: str):
    """[min, max] number of characters str.format(fmt) renders for ANY Python float: a `+.pE` field is
    1+1+1+p+4 wide for |exponent| < 100, one more for three-digit exponents (1e-100, 1e+100 ...) and
    only sign+3 for inf/nan; an explicit width is a minimum, not a maximum."""
    import re

    lo = hi = 0
    for lit, field, spec, conv in string.Formatter().parse(fmt):
        lo += len(lit)
        hi += len(lit)
        if field is None:
            continue
        m = re.fullmatch(r"(?:(.)?([<>=^]))?([+\- ])?(#)?(0)?(\d+)?([,_])?(?:\.(\d+))?([a-zA-Z%])?", spec or "")
        if m and m.group(9) in (None, "d") and m.group(8) is None:
            # an integer field: the records hold 32-bit integers (struct 'i'): up to 10 digits, plus a sign
            sign, w = m.group(3), int(m.group(6) or 0)
            s_ = 1 if sign in ("+", " ") else 0
            lo += max(s_ + 1, w)
            hi += max(1 + 10, w)
            continue
        if not m or m.group(9) not in ("E", "e") or m.group(8) is None:
            raise AnalysisError(f"float format spec `{spec}` outside the analysed fragment (only [sign][width].precE)")
        sign, w, prec = m.group(3), int(m.group(6) or 0), int(m.group(8))
        s = 1 if sign in ("+", " ") else 0  # negative numbers always carry a sign: max counts it
        flo = min(s + 3, s + 1 + 1 + prec + 4)  # inf / nan
        fhi = 1 + 1 + 1 + prec + 5  # sign d . ppp E+xxx
        lo += max(flo, w)
        hi += max(fhi, w)
    return lo, hi


def _counter_total(idx, cls, meth, seen=()):
    """(length-coef, bytes) added to byteCount by cls.meth, following self.rw* delegation inside the class."""
    f = cls.methods.get(meth)
    if f is None or meth in seen:
        return None if f is None else (0, 0)
    tot = (0, 0)
    for s in iter_stores(f.node):
        if s.kind == "aug" and s.chain == "self.byteCount" and isinstance(s.stmt.op, ast.Add):
            k = _size_expr(idx, cls, s.stmt.value)
            tot = (tot[0] + k[0], tot[1] + k[1])
    for c in iter_calls(f.node):
        if isinstance(c.func, ast.Attribute) and dotted(c.func.value) == "self" and c.func.attr in PRIMS and c.func.attr != meth:
            sub = _counter_total(idx, cls, c.func.attr, seen + (meth,))
            if sub:
                tot = (tot[0] + sub[0], tot[1] + sub[1])
    return tot


def _ascii_float_text_range(idx, cls, f, depth=0):
    """Interval [min, max] of the length of the text appended to self.data by an ascii float writer.
    Fragment: text = FMT.format(v) | helper call; if len(text) > K: text = FMT2.format(v); text.rjust(K)/ljust(K)."""
    env = {}

    def fold_int(n):
        v = idx.fold(cls.module, n, cls=cls)
        if isinstance(v, int):
            return v
        raise AnalysisError(f"{f.qualname}: `{norm(n)}` is not a constant width")

    def rng(e):
        if isinstance(e, ast.Name) and e.id in env:
            return env[e.id]
        if isinstance(e, ast.Call) and isinstance(e.func, ast.Attribute):
            if e.func.attr == "format":
                fv, strip = e.func.value, None
                if isinstance(fv, ast.Call) and isinstance(fv.func, ast.Attribute) and fv.func.attr in ("strip", "lstrip", "rstrip") and not fv.args:
                    fv, strip = fv.func.value, fv.func.attr
                fmt = idx.fold(cls.module, fv, cls=cls)
                if isinstance(fmt, str) and strip:
                    fmt = getattr(fmt, strip)()
                if not isinstance(fmt, str):
                    raise AnalysisError(f"{f.qualname}: format string of `{norm(e)[:60]}` does not fold")
                return _float_width_range(fmt)
            if e.func.attr in ("rjust", "ljust", "center") and e.args:
                lo, hi = rng(e.func.value)
                k = fold_int(e.args[0])
                return max(lo, k), max(hi, k)
            if dotted(e.func.value) == "self" and depth < 3:
                g = cls.resolve(e.func.attr)
                if g is not None:
                    return _ascii_float_text_range(idx, cls, g, depth + 1)
        raise AnalysisError(f"{f.qualname}: text expression `{norm(e)[:60]}` outside the analysed fragment")

    def len_guard(test):
        """(name, operator as if len(name) stood on the left, bound) for `len(name) OP K` written either way round"""
        if not (isinstance(test, ast.Compare) and len(test.ops) == 1):
            return None
        a, b, op = test.left, test.comparators[0], test.ops[0]
        is_len = lambda x: isinstance(x, ast.Call) and dotted(x.func) == "len" and x.args and isinstance(x.args[0], ast.Name)
        if is_len(a):
            return a.args[0].id, op, fold_int(b)
        if is_len(b):
            mirror = {ast.Lt: ast.Gt, ast.Gt: ast.Lt, ast.LtE: ast.GtE, ast.GtE: ast.LtE, ast.Eq: ast.Eq, ast.NotEq: ast.NotEq}
            return (b.args[0].id, mirror[type(op)](), fold_int(a)) if type(op) in mirror else None
        return None

    result = None

    def block(stmts):
        nonlocal result
        for st in stmts:
            if isinstance(st, ast.Expr) and isinstance(st.value, ast.Constant):
                continue
            if isinstance(st, ast.Assign) and len(st.targets) == 1 and isinstance(st.targets[0], ast.Name):
                env[st.targets[0].id] = rng(st.value)
            elif isinstance(st, ast.If) and not st.orelse and len_guard(st.test):
                nm, op, k = len_guard(st.test)
                if nm not in env or not isinstance(op, (ast.Gt, ast.NotEq)):
                    raise AnalysisError(f"{f.qualname}: guard `{norm(st.test)}` outside the analysed fragment")
                lo, hi = env[nm]
                before = dict(env)
                block(st.body)
                taken = env[nm]
                # not taken: len <= k (Gt) or len == k (NotEq)
                nt = (min(lo, k), min(hi, k)) if isinstance(op, ast.Gt) else (k, k)
                env.update(before)
                env[nm] = (min(nt[0], taken[0]), max(nt[1], taken[1]))
            elif isinstance(st, ast.Raise):
                return
            elif isinstance(st, ast.AugAssign):
                continue  # numBytes accounting
            elif isinstance(st, ast.Expr) and isinstance(st.value, ast.Call) and call_attr(st.value) == "append" and dotted(st.value.func.value) == "self.data":
                result = rng(st.value.args[0])
            elif isinstance(st, ast.Return):
                if depth and st.value is not None:
                    result = rng(st.value)
                return
            else:
                raise AnalysisError(f"{f.qualname}: statement `{norm(st)[:60]}` outside the analysed fragment")

    block(f.node.body)
    if result is None:
        raise AnalysisError(f"{f.qualname}: no text appended to self.data / returned")
    return result


def r1_primitive_symmetry(idx, r):
    rd = idx.cls(CCCC + ".BinaryRecordReader")
    wr = idx.cls(CCCC + ".BinaryRecordWriter")
    for p in PRIMS:
        a, b = _prim_facts(idx, rd, p), _prim_facts(idx, wr, p)
        if a is None or b is None:
            raise AnchorMissing(f"binary primitive {p} missing on reader or writer")
        if a["fmt"] is None or b["fmt"] is None:
            raise AnalysisError(f"{p}: struct.pack/unpack call not found")
        r.require(a["fmt"] == b["fmt"], f"binary:{p}:format", b["func"], node=b.get("fmt_node"),
                  msg=f"reader unpacks `{a['fmt']}` but writer packs `{b['fmt']}`")
        r.require(a["io_size"] == a["fmt_size"], f"binary:{p}:reader-read-size", a["func"], node=a.get("fmt_node"),
                  msg=f"reader consumes {a['io_size']} (length-coef, bytes) but the format `{a['fmt']}` is {a['fmt_size']}")
        wc = b["counter"]
        r.require(wc.get("numBytes") == b["fmt_size"] and "byteCount" not in wc, f"binary:{p}:writer-count", b["func"],
                  msg=f"writer must add the packed size {b['fmt_size']} of `{b['fmt']}` to numBytes (the framing count); it updates {wc}")
        rc = a["counter"]
        r.require(rc.get("byteCount") == a["fmt_size"] and "numBytes" not in rc, f"binary:{p}:reader-count", a["func"],
                  msg=f"reader must add the consumed size {a['fmt_size']} to byteCount; it updates {rc}")
    # rwBool goes through rwInt on both sides
    base = idx.cls(CCCC + ".IORecord")
    fb = base.methods.get("rwBool")
    if fb is None:
        raise AnchorMissing("IORecord.rwBool")
    uses_int = any(call_attr(c) == "rwInt" for c in iter_calls(fb.node))
    r.require(uses_int, "binary:rwBool:via-rwInt", fb, msg="rwBool must encode through rwInt on both sides")
    # the flag written is the TRUTH of the value: numpy booleans (flags computed from arrays) are not `bool` instances and
    # must not be written as 0. Evaluated over a small domain with the writer's rwInt modelled as the identity.
    from ..minieval import MiniEval, Raised

    class _W(MiniEval):
        def _ev(self, e, env):
            if isinstance(e, ast.Call) and dotted(e.func) == "self.rwInt" and len(e.args) == 1:
                return self._ev(e.args[0], env)
            return super()._ev(e, env)
    pv = [q for q in fb.params() if q != "self"][0]
    wrong = []
    for label, v, want in (("True", True, True), ("False", False, False), ("a truthy non-bool (numpy.bool_(True), 1)", 1, True), ("a falsy non-bool (numpy.bool_(False), 0)", 0, False)):
        try:
            got, _ = _W().run(fb.node, {pv: v})
        except Raised:
            got = "raise"
        if got != want and got != "raise":
            wrong.append(f"{label} is written as {got!r}")
    r.require(not wrong, "binary:rwBool:truth-of-any-value", fb, msg="; ".join(wrong) + ": a header flag set from numpy data is stored as 0 and the optional record it announces is silently dropped")
    for c in (rd, wr):
        f = c.resolve("rwBool")
        ok = f is fb or any(dotted(x.func) == "IORecord.rwBool" for x in iter_calls(f.node))
        r.require(ok, f"binary:rwBool:{c.name}", f, msg="rwBool override does not delegate to IORecord.rwBool")

    # ASCII: field width the writer renders == characters the reader consumes
    ard = idx.cls(CCCC + ".AsciiRecordReader")
    awr = idx.cls(CCCC + ".AsciiRecordWriter")

    def reader_len(meth):
        f = ard.resolve(meth)
        tot = (0, 0)
        for c in iter_calls(f.node):
            if dotted(c.func) == "self._stream.read":
                k, c0 = _size_expr(idx, ard, c.args[0])
                tot = (tot[0] + c0, tot[1] + k)
        return f, tot

    def writer_fmt(meth, depth=0):
        f = awr.resolve(meth)
        for c in iter_calls(f.node):
            if isinstance(c.func, ast.Attribute) and c.func.attr == "format":
                return f, idx.fold(awr.module, c.func.value, cls=awr), c
        for c in iter_calls(f.node):  # a formatting helper of the same class
            if depth < 2 and isinstance(c.func, ast.Attribute) and dotted(c.func.value) == "self" and awr.resolve(c.func.attr) is not None and c.func.attr not in PRIMS:
                try:
                    return writer_fmt(c.func.attr, depth + 1)
                except AnalysisError:
                    pass
        raise AnalysisError(f"AsciiRecordWriter.{meth}: no format call")

    for meth in ("rwInt", "rwFloat", "rwString"):
        fr, rl = reader_len(meth)
        fw, fmt, node = writer_fmt(meth)
        w = _rendered_width(fmt)
        r.require(w == rl, f"ascii:{meth}:width", fw, node=node,
                  msg=f"writer renders {w} (chars, length-coef) with `{fmt}` but reader consumes {rl}")
    # a string longer than its field: the binary writer cuts it (struct 'Ns'), so the ascii writer must cut it too (precision = width), or the
    # ascii record is longer than the reader consumes and every later field is misread
    fws, fmts, nodes = writer_fmt("rwString")
    cut = any(sp and "{length}" in sp and ".{length}" in sp for _l, _f, sp, _c in string.Formatter().parse(fmts))
    r.require(cut, "ascii:rwString:cut-to-the-field-width", fws, node=nodes,
              msg=f"`{fmts}` pads a short string to the field width but does not cut a long one (no `.{{length}}` precision): a 10-character label in an 8-character field shifts the rest of the "
                  "record, while the binary writer truncates it")
    # every float (three-digit exponents, inf, nan included) must render to exactly the reader's field width
    for meth in ("rwFloat", "rwDouble"):
        fr, rl = reader_len("rwFloat")
        fw = awr.resolve(meth)
        rng = _ascii_float_text_range(idx, awr, fw)
        r.require(rng == (rl[0], rl[0]), f"ascii:{meth}:width-for-every-float", fw,
                  msg=f"the writer renders a float into between {rng[0]} and {rng[1]} characters (three-digit exponents such as 1e-100 take one more, "
                      f"inf/nan fewer) but the reader always consumes {rl[0]}: every later field of the record is misread")
    # a double needs 17 significant digits (`.16E`) to read back as the same binary64; every format the double writer can reach keeps them
    def precisions(f, depth=0):
        import re
        out = []
        for c in iter_calls(f.node):
            if isinstance(c.func, ast.Attribute) and c.func.attr == "format":
                fv = c.func.value
                if isinstance(fv, ast.Call) and isinstance(fv.func, ast.Attribute) and fv.func.attr in ("strip", "lstrip", "rstrip") and not fv.args:
                    fv = fv.func.value
                try:
                    fmt = idx.fold(awr.module, fv, cls=awr)
                except AnalysisError:
                    fmt = None
                if isinstance(fmt, str):
                    for m_ in re.finditer(r"\{[^{}]*:[^{}]*?\.(\d+)[eE]\}", fmt):
                        out.append((int(m_.group(1)), c))
            elif isinstance(c.func, ast.Attribute) and dotted(c.func.value) == "self" and depth < 3:
                g = awr.resolve(c.func.attr)
                if g is not None and g is not f:
                    out += precisions(g, depth + 1)
        return out
    fw = awr.resolve("rwDouble")
    ps_ = precisions(fw)
    if not ps_:
        raise AnalysisError("AsciiRecordWriter.rwDouble: no exponent format found")
    for n_, (p_, c_) in enumerate(ps_):
        r.require(p_ >= 16, f"ascii:rwDouble:format{n_}:17-significant-digits", fw, node=c_,
                  msg=f"`{norm(c_)[:70]}` renders a double with {p_ + 1} significant digits; 17 are needed for the value read back to be the value written")
    # the same for integers: a 32-bit integer has up to ten digits and a sign
    fr, rl = reader_len("rwInt")
    fw = awr.resolve("rwInt")
    rng = _ascii_float_text_range(idx, awr, fw)
    r.require(rng == (rl[0], rl[0]), "ascii:rwInt:width-for-every-int32", fw,
              msg=f"the writer renders an integer into between {rng[0]} and {rng[1]} characters (ten-digit values such as 1000000000 with their sign exceed the field) "
                  f"but the reader always consumes {rl[0]}: every later field of the record is misread")
    # byte accounting: stream code computes 'what is left in this record' from numBytes - byteCount
    users = []
    for m in _cccc_modules(idx):
        for f in m.all_funcs():
            if f.cls is not None and f.cls.name in ("IORecord", "BinaryRecordReader", "BinaryRecordWriter", "AsciiRecordReader", "AsciiRecordWriter"):
                continue
            for n in walk_local(f.node):
                if isinstance(n, ast.Attribute) and n.attr == "byteCount" and isinstance(n.ctx, ast.Load):
                    users.append(f"{m.relpath.rsplit('/', 1)[-1]}:{f.qualname}")
    if users:
        for p in ("rwInt", "rwFloat", "rwDouble", "rwString"):
            need = _prim_facts(idx, awr, p)["counter"].get("numBytes") if awr.methods.get(p) else None
            got = _counter_total(idx, ard, p)
            r.require(need is not None and got == need, f"ascii:{p}:reader-count", ard.resolve(p),
                      msg=f"{users[0]} reads record.byteCount to find how much of the record is left; the ascii writer counts {need} for {p} "
                          f"but the ascii reader adds {got} to byteCount")
    # rwDouble (ascii) same text form as rwFloat on both sides
    fwd, fmtd, noded = writer_fmt("rwDouble")
    _, fmtf, _ = writer_fmt("rwFloat")
    r.require(fmtd == fmtf, "ascii:rwDouble:format", fwd, node=noded, msg="ascii double and float formats differ but the reader parses both with rwFloat")
    frd = ard.resolve("rwDouble")
    r.require(any(call_attr(c) == "rwFloat" for c in iter_calls(frd.node)), "ascii:rwDouble:reader", frd,
              msg="ascii reader rwDouble must parse like rwFloat")


# ------------------------------------------------------------------------------------------------
def r2_framing(idx, r):
    wr = idx.cls(CCCC + ".BinaryRecordWriter")
    close = wr.methods.get("close")
    if close is None:
        raise AnchorMissing("BinaryRecordWriter.close")
    env = single_assign_env(close.node)

    def is_count(e):
        e = propagate(e, env)
        return isinstance(e, ast.Call) and dotted(e.func) == "self._getPackedNumBytes"

    def events(n):
        if isinstance(n, ast.Call) and dotted(n.func) == "self._stream.write" and n.args and is_count(n.args[0]):
            return ["count"]
        if isinstance(n, ast.Call) and dotted(n.func) in ("self._write_buffer_to_stream", "self._stream.write"):
            return ["payload"]
        return []

    def assume(t):
        return True if norm(t) == "self._hasRecordBoundaries" else None

    fl = Flow(close.node, events, assume=assume).run()
    ok = True
    why = ""
    for e in fl.normal_exits():
        c = e.state.get("count", (0, 0))
        if c != (2, 2):
            ok, why = False, f"count written {c} times (min,max) on a path to the exit at line {e.line}; expected exactly 2"
    for nid, st in fl.before.items():
        pass
    # ordering: the payload write happens with exactly one count written
    payload_nodes = [n for n in iter_calls(close.node) if "payload" in events(n) and "count" not in events(n)]
    for n in payload_nodes:
        st = fl.state_before(n) or {}
        if st.get("count", (0, 0)) != (1, 1):
            ok, why = False, f"payload written when the count has been written {st.get('count', (0, 0))} times; expected once before, once after"
    r.require(ok and bool(payload_nodes), "binary-writer:close:count-payload-count", close, msg=why or "no payload write found")
    g = wr.methods.get("_getPackedNumBytes")
    okg = g is not None and any(
        dotted(c.func) == "struct.pack" and const_str(c.args[0]) == "i" and norm(c.args[1]) == "self.numBytes" for c in iter_calls(g.node))
    r.require(okg, "binary-writer:packed-count", g or close, msg="_getPackedNumBytes must be struct.pack('i', self.numBytes)")

    rd = idx.cls(CCCC + ".BinaryRecordReader")
    op, cl = rd.methods.get("open"), rd.methods.get("close")
    if op is None or cl is None:
        raise AnchorMissing("BinaryRecordReader.open/close")
    ok_open = any(s.chain == "self.numBytes" and isinstance(s.value, ast.Call) and dotted(s.value.func) == "self.rwInt" for s in iter_stores(op.node))
    r.require(ok_open, "binary-reader:open:reads-count", op, msg="open() must read the leading count into numBytes with rwInt")
    # close: reads count again, raises when different
    envc = single_assign_env(cl.node)
    raised = False
    from ..flow import path_conditions as _pc
    for n in walk_local(cl.node):
        if isinstance(n, ast.Raise):  # some raise stands under "the trailing count differs from the leading one", however that is written
            for t, pol in _pc(cl.node, n):
                t = propagate(t, envc)
                while isinstance(t, ast.UnaryOp) and isinstance(t.op, ast.Not):
                    t, pol = t.operand, not pol
                if isinstance(t, ast.Compare) and len(t.ops) == 1 and isinstance(t.ops[0], (ast.NotEq, ast.Eq)) and pol == isinstance(t.ops[0], ast.NotEq):
                    sides = {norm(t.left), norm(t.comparators[0])}
                    if "self.numBytes" in sides and any("self.rwInt" in s for s in sides):
                        raised = True
    r.require(raised, "binary-reader:close:checks-trailing-count", cl, msg="close() must re-read the count and raise when it differs from the leading one")

    # AsciiRecordWriter.close: count, data, count, newline
    aw = idx.cls(CCCC + ".AsciiRecordWriter").methods.get("close")
    if aw is None:
        raise AnchorMissing("AsciiRecordWriter.close")
    seq = []
    for st in aw.node.body:
        for c in (x for x in walk_local(st) if isinstance(x, ast.Call)) if not isinstance(st, ast.Expr) else [st.value]:
            if isinstance(c, ast.Call) and dotted(c.func) == "self._stream.write":
                a = norm(c.args[0])
                seq.append("count" if "self.numBytes" in a else ("data" if "self.data" in a else ("nl" if a == "'\\n'" else "?")))
    r.require(seq == ["count", "data", "count", "nl"], "ascii-writer:close:sequence", aw, msg=f"ascii record must be count,data,count,newline; found {seq}")

    # IORecord.__exit__ closes on normal exit and converts failures to BufferError
    ex = idx.cls(CCCC + ".IORecord").methods.get("__exit__")
    if ex is None:
        raise AnchorMissing("IORecord.__exit__")

    def ev2(n):
        if isinstance(n, ast.Call) and dotted(n.func) == "self.close":
            return ["close"]
        return []

    def as2(t):
        return False if norm(t) == "exc_type is not None" else (True if norm(t) == "exc_type is None" else None)

    f2 = Flow(ex.node, ev2, assume=as2, raises=lambda c: dotted(c.func) == "self.close").run()
    missing = [e for e in f2.normal_exits() if e.state.get("close", (0, 0))[0] < 1]
    r.require(not missing and bool(f2.normal_exits()), "record:__exit__:closes", ex, msg="a normal exit of the with-block does not call close()")
    hnd = [h for n in walk_local(ex.node) if isinstance(n, ast.Try) for h in n.handlers]
    reraises = bool(hnd) and all(any(isinstance(x, ast.Raise) and x.exc is not None and "BufferError" in norm(x.exc) for x in ast.walk(h)) for h in hnd)
    r.require(reraises, "record:__exit__:failure-is-loud", ex, msg="a failing close() must surface as BufferError, not be swallowed")


# ------------------------------------------------------------------------------------------------
def _rw_sites(idx):
    for m in _cccc_modules(idx):
        par = m.parents()
        for f in m.all_funcs():
            for c in iter_calls(f.node):
                if call_attr(c) in RW and isinstance(c.func, ast.Attribute):
                    yield m, f, c, par


def _alias_env(fnode):
    """single-assignment locals; for chained `a = X[...] = expr` the local aliases the storage X[...]."""
    env = single_assign_env(fnode)
    counts = {}
    for s in iter_stores(fnode, include_nested=False):
        if isinstance(s.node, ast.Name):
            counts[s.attr] = counts.get(s.attr, 0) + 1
    params = set(a.arg for a in fnode.args.args)
    for n in walk_local(fnode):
        if isinstance(n, ast.Assign) and len(n.targets) > 1:
            names = [t for t in n.targets if isinstance(t, ast.Name)]
            others = [t for t in n.targets if not isinstance(t, ast.Name)]
            if names and others:
                for nm in names:
                    if counts.get(nm.id) == 1 and nm.id not in params:
                        env[nm.id] = others[0]
    return env


def _is_storage(e):
    """An expression naming a place that can be read and written: name/attribute/subscript chains."""
    if isinstance(e, ast.Name):
        return True
    if isinstance(e, ast.Attribute):
        return _is_storage(e.value)
    if isinstance(e, ast.Subscript):
        return _is_storage(e.value)
    return False


def r3_r4_sites(idx, r3, r4):
    n_strict = 0
    for m, f, c, par in _rw_sites(idx):
        base = m.relpath.rsplit("/", 1)[-1]
        key = f"{base}:{f.qualname}:{norm(c)[:110]}"
        # ---- R09.3 receiver bound by `with ...createRecord(...) as rec` or a parameter
        recv = c.func.value
        okrec = False
        if isinstance(recv, ast.Name):
            n = c
            while n is not f.node:
                n = par[n]
                if isinstance(n, (ast.With, ast.AsyncWith)):
                    for it in n.items:
                        if (isinstance(it.optional_vars, ast.Name) and it.optional_vars.id == recv.id
                                and isinstance(it.context_expr, ast.Call) and call_attr(it.context_expr) == "createRecord"):
                            okrec = True
            if not okrec and recv.id in f.params():
                # parameter: every caller in the package must pass a with-bound record
                okrec = _param_bound_by_with(idx, m, f, recv.id)
        r3.require(okrec, key, f, node=c, msg=f"`{norm(recv)}` is not bound by `with <stream>.createRecord(...) as {norm(recv)}` (field written outside a framed record)")

        # ---- R09.4 same storage in and out
        meth = call_attr(c)
        env = _alias_env(f.node)
        if meth == "rwImplicitlyTypedMap":
            cont = get_arg(c, 1, "contents")
            r4.require(cont is not None and _is_storage(propagate(cont, env)), key, f, node=c,
                       msg="rwImplicitlyTypedMap fills `contents` in place: it must be the container itself")
            continue
        if not c.args:
            r4.violate(key, f, "rw* call without a value argument", node=c)
            continue
        arg = propagate(c.args[0], env)
        p = par[c]
        tgt = None
        if isinstance(p, ast.Assign) and len(p.targets) == 1 and p.value is c:
            tgt = propagate(p.targets[0], {k: v for k, v in env.items() if not isinstance(p.targets[0], ast.Name)})
        exc = VIEW_EXCEPTIONS.get((base, f.qualname, norm(c)))
        if exc:
            r4.ok(key, f, node=c, msg="frozen exception: " + exc)
            continue
        if tgt is not None and same_expr(tgt, arg):
            r4.ok(key, f, node=c)
            n_strict += 1
            continue
        # get-then-store   d[k] = rec.rwT(d.get(k, ...))
        if (tgt is not None and isinstance(tgt, ast.Subscript) and isinstance(arg, ast.Call) and call_attr(arg) == "get"
                and isinstance(arg.func, ast.Attribute) and same_expr(arg.func.value, tgt.value) and arg.args
                and same_expr(arg.args[0], tgt.slice)):
            r4.ok(key, f, node=c, msg="get-then-store on the same key")
            continue
        if not _is_storage(arg):
            r4.ok(key, f, node=c, msg="derived header/dummy value (writer emits a computed value)")
            continue
        if tgt is None:
            r4.violate(key, f, f"the value read for `{norm(c.args[0])}` is dropped: the reader never fills what the writer emits", node=c)
        else:
            r4.violate(key, f, f"writer emits `{norm(arg)}` but the reader stores the field into `{norm(tgt)}`", node=c)
    # the same discipline one level up: `storage[A] = self._rwHelper(storage[B])` - a stream's own record helper receives and returns one slice
    n_h = 0
    for m in _cccc_modules(idx):
        for f in m.all_funcs():
            for st_ in walk_local(f.node):
                if not (isinstance(st_, ast.Assign) and len(st_.targets) == 1 and isinstance(st_.value, ast.Call) and (dotted(st_.value.func) or "").startswith("self._rw") and len(st_.value.args) == 1 and not st_.value.keywords):
                    continue
                tgt, arg = st_.targets[0], st_.value.args[0]
                if not (isinstance(tgt, ast.Subscript) and isinstance(arg, ast.Subscript) and norm(tgt.value) == norm(arg.value)):
                    continue
                n_h += 1
                r4.require(same_expr(tgt, arg), f"{m.relpath.rsplit('/', 1)[-1]}:{f.qualname}:helper:{norm(st_.value.func)}", f, node=st_,
                           msg=f"the helper is handed `{norm(arg)}` but its result is stored into `{norm(tgt)}`: the writer emits another slice than the reader fills (and the write path "
                               "overwrites the caller's data with it)")
    if n_h < 2:
        raise AnalysisError(f"only {n_h} slice-in/slice-out record helpers found")
    r4.check.extra["c09_strict_sites"] = n_strict


def _param_bound_by_with(idx, m, f, pname):
    pos = f.params().index(pname) - (1 if f.cls is not None else 0)
    found = False
    for g in m.all_funcs():
        par = m.parents()
        for c in iter_calls(g.node):
            if call_attr(c) == f.name and c is not None and g is not f:
                a = get_arg(c, pos, pname)
                if not isinstance(a, ast.Name):
                    return False
                okc = False
                n = c
                while n is not g.node:
                    n = par[n]
                    if isinstance(n, (ast.With, ast.AsyncWith)):
                        for it in n.items:
                            if (isinstance(it.optional_vars, ast.Name) and it.optional_vars.id == a.id and isinstance(it.context_expr, ast.Call)
                                    and call_attr(it.context_expr) == "createRecord"):
                                okc = True
                if not okc and a.id in g.params():
                    okc = _param_bound_by_with(idx, m, g, a.id)
                if not okc:
                    return False
                found = True
    # subclasses in other modules may call it too (gamiso -> isotxs); same rule there
    return found or any(call_attr(c) == f.name for mm in _cccc_modules(idx) for g in mm.all_funcs() for c in iter_calls(g.node))


# ------------------------------------------------------------------------------------------------
def r5_call_conformance(idx, r):
    base = idx.cls(CCCC + ".IORecord")
    sigs = {}
    for name in RW:
        f = base.resolve(name) or idx.cls(CCCC + ".BinaryRecordReader").resolve(name)
        if f is None:
            raise AnchorMissing(f"IORecord.{name}")
        a = f.node.args
        npos = len(a.args) - 1
        ndef = len(a.defaults)
        sigs[name] = (npos - ndef, None if a.vararg else npos, [x.arg for x in a.args[1:]])
    # the *shape arguments of the matrix primitives are each fed to range(): they must be integers
    rwm = base.resolve("_rwMatrix")
    if rwm is None or not rwm.node.args.vararg:
        raise AnchorMissing("IORecord._rwMatrix(contents, func, *shape)")
    va = rwm.node.args.vararg.arg
    ranged = any(isinstance(g, ast.comprehension) and isinstance(g.iter, ast.Name) and g.iter.id == va for g in ast.walk(rwm.node)) and any(
        isinstance(c, ast.Call) and dotted(c.func) == "range" for c in ast.walk(rwm.node))
    if not ranged:
        raise AnalysisError("_rwMatrix no longer iterates range(n) for n in *shape; revisit R09.5's shape rule")
    matrix_meths = {n for n in RW if (base.resolve(n) is not None and base.resolve(n).node.args.vararg is not None)}
    for m, f, c, par in _rw_sites(idx):
        meth = call_attr(c)
        lo, hi, names = sigs[meth]
        n = len(c.args) + len(c.keywords)
        base_key = f"{m.relpath.rsplit('/', 1)[-1]}:{f.qualname}:{norm(c)[:110]}"
        if n < lo or (hi is not None and n > hi):
            r.violate(base_key, f, f"{meth} takes {lo}..{hi if hi is not None else 'n'} arguments ({', '.join(names)}), call passes {n}", node=c)
            continue
        if meth in matrix_meths:
            env = single_assign_env(f.node)
            badshape = [a for a in c.args[1:] if isinstance(propagate(a, env), (ast.Tuple, ast.List, ast.Dict, ast.Set))]
            if badshape:
                r.violate(base_key, f, f"{meth}(contents, *shape): every shape argument is passed to range(); `{norm(badshape[0])[:60]}` is a tuple/list, not an integer "
                          "(the record can be neither read nor written: TypeError)", node=c)
                continue
        if meth == "rwList":
            ct = get_arg(c, 1, "containedType")
            cts = const_str(ct) if ct is not None else None
            if cts not in ("int", "float", "double", "string"):
                r.violate(base_key, f, f"containedType must be one of int/float/double/string, got `{norm(ct) if ct is not None else None}`", node=c)
                continue
            if cts == "string" and get_arg(c, 3, "strLength") is None:
                r.violate(base_key, f, "string lists need strLength", node=c)
                continue
        r.ok(base_key, f, node=c)


# ------------------------------------------------------------------------------------------------
def _interval_sat(test):
    """For a comparison chain / conjunction over ONE variable and integer constants decide
    satisfiability over the integers.  Returns None when the test is outside the fragment."""
    conj = test.values if isinstance(test, ast.BoolOp) and isinstance(test.op, ast.And) else [test]
    lo, hi = -10**9, 10**9
    var = None
    ne = set()
    for t in conj:
        if not isinstance(t, ast.Compare):
            return None
        terms = [t.left] + list(t.comparators)
        for a, op, b in zip(terms, t.ops, terms[1:]):
            ca = a.value if isinstance(a, ast.Constant) and isinstance(a.value, int) and not isinstance(a.value, bool) else None
            cb = b.value if isinstance(b, ast.Constant) and isinstance(b.value, int) and not isinstance(b.value, bool) else None
            if isinstance(a, ast.UnaryOp) and isinstance(a.op, ast.USub) and isinstance(a.operand, ast.Constant):
                ca = -a.operand.value
            if isinstance(b, ast.UnaryOp) and isinstance(b.op, ast.USub) and isinstance(b.operand, ast.Constant):
                cb = -b.operand.value
            if (ca is None) == (cb is None):
                return None
            v = norm(b if ca is not None else a)
            if var is None:
                var = v
            elif var != v:
                return None
            c = ca if ca is not None else cb
            o = type(op)
            if ca is not None:  # c op x  ->  x op' c
                o = {ast.Lt: ast.Gt, ast.LtE: ast.GtE, ast.Gt: ast.Lt, ast.GtE: ast.LtE}.get(o, o)
            if o is ast.Lt:
                hi = min(hi, c - 1)
            elif o is ast.LtE:
                hi = min(hi, c)
            elif o is ast.Gt:
                lo = max(lo, c + 1)
            elif o is ast.GtE:
                lo = max(lo, c)
            elif o is ast.Eq:
                lo, hi = max(lo, c), min(hi, c)
            elif o is ast.NotEq:
                ne.add(c)
            else:
                return None
    if var is None:
        return None
    return any(x not in ne for x in range(lo, min(hi, lo + len(ne) + 1) + 1)) if lo <= hi else False


def r6_guards_and_tables(idx, r):
    mods = _cccc_modules(idx) + [idx.module(CCCC), idx.module("armi.nuclearDataIO.nuclearFileMetadata")]
    # (a) every integer-interval guard is satisfiable
    for m in mods:
        for f in m.all_funcs():
            for n in walk_local(f.node):
                if isinstance(n, (ast.If, ast.While, ast.IfExp)):
                    sat = _interval_sat(n.test)
                    if sat is None:
                        continue
                    key = f"{m.relpath.rsplit('/', 1)[-1]}:{f.qualname}:guard:{norm(n.test)}"
                    r.require(sat, key, f, node=n.test, msg=f"guard `{norm(n.test)}` can never be true: the records it selects are never read or written")
    # (b) key tables that drive rw loops have no duplicates
    for m in _cccc_modules(idx):
        for f in m.all_funcs():
            for n in walk_local(f.node):
                it = None
                if isinstance(n, ast.For) and any(isinstance(c, ast.Call) and call_attr(c) in RW for c in walk_local(n)):
                    it = n.iter
                elif isinstance(n, ast.Call) and call_attr(n) == "rwImplicitlyTypedMap" and n.args:
                    it = n.args[0]
                if it is None:
                    continue
                try:
                    vals = idx.fold(m, propagate(it, single_assign_env(f.node)), cls=f.cls)
                except AnalysisError:
                    continue
                if not isinstance(vals, (list, tuple)) or not all(isinstance(v, str) for v in vals):
                    continue
                dup = sorted({v for v in vals if list(vals).count(v) > 1})
                key = f"{m.relpath.rsplit('/', 1)[-1]}:{f.qualname}:table:{norm(it)[:60]}"
                r.require(not dup, key, f, node=it, msg=f"key table iterated by an rw loop repeats {dup}: the second field overwrites the first on read and a field is never stored")


# ------------------------------------------------------------------------------------------------
MODES = {"readBinary": "rb", "readAscii": "r", "writeBinary": "wb", "writeAscii": "w"}


def r7_api(idx, r):
    stream = idx.cls(CCCC + ".Stream")
    # Stream.readBinary etc. use the right mode
    for name, mode in MODES.items():
        f = stream.methods.get(name)
        if f is None:
            raise AnchorMissing(f"Stream.{name}")
        lits = {const_str(a) for c in iter_calls(f.node) for a in c.args if const_str(a) is not None}
        r.require(lits == {mode}, f"Stream.{name}:mode", f, msg=f"{name} must open with mode '{mode}', uses {sorted(lits)}")
    fm = stream.attrs.get("_fileModes")
    if not isinstance(fm, ast.Dict):
        raise AnchorMissing("Stream._fileModes")
    table = {const_str(k): dotted(v) for k, v in zip(fm.keys, fm.values)}
    expect_kind = {"rb": ("struct.unpack", True), "wb": ("struct.pack", False), "r": (None, True), "w": (None, False)}
    for mode, (fn, reads) in expect_kind.items():
        cn = table.get(mode)
        c = idx.module(CCCC).classes.get(cn) if cn else None
        if c is None:
            r.violate(f"_fileModes:{mode}", (idx.module(CCCC).relpath, fm.lineno), f"mode {mode} has no record class")
            continue
        f = c.resolve("rwInt")
        calls = {dotted(x.func) for x in iter_calls(f.node)}
        does_read = "self._stream.read" in calls
        binary = "struct.unpack" in calls or "struct.pack" in calls
        r.require(does_read == reads and binary == (fn is not None), f"_fileModes:{mode}", f,
                  msg=f"mode '{mode}' is mapped to {cn}, whose rwInt {'reads' if does_read else 'writes'} {'binary' if binary else 'text'}")
    # per-format modules export the four entry points bound to one stream class / right mode
    for m in _cccc_modules(idx):
        has_stream = any(c.is_subclass_of(stream) for c in m.classes.values())
        if not has_stream:
            continue
        for name, mode in MODES.items():
            key = f"{m.relpath.rsplit('/', 1)[-1]}:{name}"
            if name in m.consts:
                d = dotted(m.consts[name])
                r.require(d is not None and d.split(".")[-1] == name, key, (m.relpath, m.consts[name].lineno),
                          msg=f"module-level {name} is bound to `{norm(m.consts[name])}`")
            elif name in m.functions:
                f = m.functions[name]
                called = {call_attr(c) for c in iter_calls(f.node)}
                lits = {const_str(a) for c in iter_calls(f.node) for a in list(c.args) + [k.value for k in c.keywords] if const_str(a) in MODES.values()}
                okf = (name in called) or lits == {mode} or any(x in called for x in ("_read", "_write")) and lits == {mode}
                r.require(okf, key, f, msg=f"{name} must delegate to the stream's {name} or open with mode '{mode}' (modes used: {sorted(lits)}, calls: {sorted(x for x in called if x)})")
            else:
                r.undecided(key, (m.relpath, 1), f"module does not export {name}")


def r8_header_locals(idx, r):
    """Contradiction rule: a header-derived count bound under the same local name in two methods of
    one stream class (array allocation in one, loop bound in another) must have one definition."""
    import collections

    for m in _cccc_modules(idx):
        for c in m.classes.values():
            defs = collections.defaultdict(list)
            for f in c.methods.values():
                for k, v in single_assign_env(f.node).items():
                    if len(k) < 3 or isinstance(v, ast.Constant):
                        continue
                    if any(isinstance(x, ast.Call) and (call_attr(x) or "").startswith("rw") for x in ast.walk(v)):
                        continue
                    defs[k].append((f, v))
            for k, lst in sorted(defs.items()):
                if len(lst) < 2 or not any("metadata" in norm(v).lower() for _, v in lst):
                    continue
                ref_f, ref_v = next((f, v) for f, v in lst if "metadata" in norm(v).lower())
                for f, v in lst:
                    if v is ref_v:
                        continue
                    r.require(norm(v) == norm(ref_v), f"{m.relpath.rsplit('/', 1)[-1]}:{c.name}:{k}:{f.name}", f, node=v,
                              msg=f"`{k}` is `{norm(v)}` here but `{norm(ref_v)}` in {ref_f.name}: the amount of data allocated/announced and the amount read or written differ")


def _fresh_mutable(v):
    if isinstance(v, (ast.List, ast.Dict, ast.Set, ast.ListComp, ast.DictComp)):
        return True
    if isinstance(v, ast.BinOp) and isinstance(v.op, ast.Mult) and (isinstance(v.left, ast.List) or isinstance(v.right, ast.List)):
        return True
    if isinstance(v, ast.Call) and dotted(v.func) in ("list", "dict", "np.zeros", "np.empty", "np.array", "numpy.zeros", "collections.OrderedDict"):
        return True
    return False


def r9_no_shared_placeholder(idx, r):
    """A fresh mutable object bound to a local and then stored into two different storage locations
    makes the fields alias each other: what is read into one overwrites the other."""
    n = 0
    for m in _cccc_modules(idx):
        for f in m.all_funcs():
            env = single_assign_env(f.node)
            fresh = {k for k, v in env.items() if _fresh_mutable(v)}
            uses = {}
            for s in iter_stores(f.node):
                if s.value is None or s.kind not in ("assign", "subscript") or isinstance(s.node, ast.Name):
                    continue
                for x in ast.walk(s.value):
                    # the local itself is stored (directly, or as the fallback of `a or local` / conditional expression)
                    if isinstance(x, ast.Name) and x.id in fresh and _value_position(s.value, x):
                        uses.setdefault(x.id, set()).add(norm(s.node))
            for k in sorted(fresh):
                locs = uses.get(k, set())
                n += 1
                r.require(len(locs) <= 1, f"{m.relpath.rsplit('/', 1)[-1]}:{f.qualname}:{k}", f, node=env[k],
                          msg=f"one mutable object `{k} = {norm(env[k])}` is stored into {len(locs)} different fields {sorted(locs)}; they alias each other")


def _value_position(value, name):
    """True when `name` can BE the stored value (not merely an index/argument inside it)."""
    if value is name:
        return True
    if isinstance(value, ast.BoolOp):
        return any(_value_position(v, name) for v in value.values)
    if isinstance(value, ast.IfExp):
        return _value_position(value.body, name) or _value_position(value.orelse, name)
    return False


BLOCKED_RECORDS = [("pwdint", "PwdintStream._rw2DRecord"), ("rtflux", "RtfluxStream._rw3DRecord"), ("rzflux", "RzfluxStream._rw2DRecord")]


def r10_block_bandwidth(idx, r):
    """getBlockBandwidth splits nintj rows into nblok blocks: rows per block must be the CEILING of
    nintj/nblok (so that nblok blocks cover every row) and consecutive blocks must be contiguous."""
    from ..exprnf import ExprEval, Poly

    f = idx.func(CCCC + ".getBlockBandwidth")
    m_, n_, b_ = f.params()[:3]
    env = single_assign_env(f.node)
    x = env.get("x")
    if x is None:
        raise AnalysisError("getBlockBandwidth: rows-per-block `x` not found")
    t = norm(x)
    ceil_idioms = {f"({n_} - 1) // {b_} + 1", f"({n_} + {b_} - 1) // {b_}", f"-(-{n_} // {b_})", f"math.ceil({n_} / {b_})", f"int(math.ceil({n_} / {b_}))", f"1 + ({n_} - 1) // {b_}"}
    r.require(t in ceil_idioms, "rows-per-block-is-ceiling", f, node=x, msg=f"rows per block `{t}` must be ceil({n_}/{b_}); with a floor the last rows of the record are never written nor read when {n_} is not a multiple of {b_}")
    E = ExprEval(env={"x": Poly.atom("x"), m_: Poly.atom("m")}, opaque=True)
    lo, hi = env.get("jLow"), env.get("jHigh")
    oklo = lo is not None and E.ev(lo) == (Poly.atom("m") - 1) * Poly.atom("x") + 1
    okhi = hi is not None and isinstance(hi, ast.Call) and dotted(hi.func) == "min" and {norm(a) for a in hi.args} == {n_, f"{m_} * x"}
    r.require(oklo and okhi, "blocks-contiguous", f, msg=f"block m spans rows (m-1)x+1 .. min(n, m x): jLow=`{norm(lo) if lo else None}`, jHigh=`{norm(hi) if hi else None}`")
    ret = next((n for n in walk_local(f.node) if isinstance(n, ast.Return)), None)
    r.require(ret is not None and norm(ret.value) == "(jLow - 1, jHigh - 1)", "zero-based-bounds", f, node=ret, msg="returned bounds are the zero-based (low, high) rows")
    users = 0
    for m in _cccc_modules(idx):
        for g in m.all_funcs():
            for c in iter_calls(g.node):
                if (dotted(c.func) or "").endswith("getBlockBandwidth"):
                    users += 1
                    r.require(len(c.args) == 3, f"{m.relpath.rsplit('/', 1)[-1]}:{g.qualname}:bandwidth-call", g, node=c, msg="getBlockBandwidth(m, nintj, nblok)")
    # the record loops that split a dimension into NBLOK blocks (frozen from the tree the rule was confirmed on): each takes its bounds from
    # getBlockBandwidth - a hand-rolled width (floor division) drops the last rows whenever the dimension is not a multiple of NBLOK
    for mod, qual in BLOCKED_RECORDS:
        g = next((x for x in idx.module(CCCC.rsplit(".", 1)[0] + "." + mod).all_funcs() if x.qualname == qual), None)
        if g is None:
            raise AnchorMissing(f"{mod}:{qual}")
        r.require(any((dotted(c.func) or "").endswith("getBlockBandwidth") for c in iter_calls(g.node)), f"{mod}:{qual}:block-bounds-from-getBlockBandwidth", g,
                  msg=f"{qual} no longer takes its block bounds from cccc.getBlockBandwidth: the CCCC blocking rule (ceiling) is replaced by a local computation, and the records and the rows they cover disagree with it")


# ------------------------------------------------------------------------------------------------
def r11_allocation(idx, r):
    """Array storage filled element-wise from a record (`self.A[i, j] = rec.rwT(self.A[i, j])`) must get
    the file's dimensions before it is indexed: in read mode the header has only just been read, so the
    stream class must (re)bind that storage from an allocation outside __init__."""
    done = set()
    for m, f, c, par in _rw_sites(idx):
        if not c.args or f.cls is None:
            continue
        env = _alias_env(f.node)
        a = propagate(c.args[0], env)
        if not isinstance(a, ast.Subscript) or not isinstance(a.slice, ast.Tuple):
            continue
        if all(isinstance(e, ast.Constant) for e in a.slice.elts) or any(isinstance(e, ast.Constant) and isinstance(e.value, str) for e in a.slice.elts):
            continue  # dictionary key
        base = a.value
        chain = dotted(base)
        if not chain:
            continue
        key = f"{m.relpath.rsplit('/', 1)[-1]}:{f.cls.name}:{chain}"
        if key in done:
            continue
        done.add(key)
        if not chain.startswith("self."):
            local = chain.split(".")[0]
            bound = any(isinstance(s.node, ast.Name) and s.attr == local for s in iter_stores(f.node, include_nested=False))
            if bound:
                r.ok(key, f, node=c, msg="local array bound in the same function")
                continue
            chains = []
            if local in f.params() and "." not in chain:
                pos = f.params().index(local) - 1
                for g in f.cls.methods.values():
                    for cc in iter_calls(g.node):
                        if call_attr(cc) == f.name and isinstance(cc.func, ast.Attribute) and dotted(cc.func.value) == "self":
                            arg = get_arg(cc, pos, local)
                            while isinstance(arg, ast.Subscript):
                                arg = arg.value
                            if arg is not None and dotted(arg).startswith("self."):
                                chains.append(dotted(arg))
                            else:
                                chains.append(None)
            if not chains or None in chains:
                r.undecided(key, f, f"`{chain}` is not rooted at self, not bound locally and not a parameter fed from self-rooted storage", node=c)
                continue
            chain_list = sorted(set(chains))
        else:
            chain_list = [chain]
        for chain in chain_list:
            _alloc_check(r, f, c, key + ("" if len(chain_list) == 1 and chain_list[0] in key else f"<-{chain}"), chain)


def _alloc_check(r, f, c, key, chain):
    if True:
        # search the class (and its bases inside the cccc package) for a re-binding outside __init__
        found = None
        for k in f.cls.mro():
            if not k.module.name.startswith("armi.nuclearDataIO"):
                continue
            for name, g in k.methods.items():
                if name == "__init__":
                    continue
                for st in iter_stores(g.node):
                    if st.kind == "assign" and st.chain == chain and isinstance(st.value, ast.Call):
                        found = (g, st)
        r.require(found is not None, key, f, node=c,
                  msg=f"`{chain}` is indexed with file-derived loop bounds but is only ever bound in __init__ (before the header is read): "
                      "reading a file cannot size it")
        # what is read with an integer primitive is a 32-bit integer: the allocated array must be able to hold it
        meth = call_attr(c)
        is_int = meth in ("rwInt", "rwIntMatrix") or (meth == "rwList" and len(c.args) > 1 and isinstance(c.args[1], ast.Constant) and c.args[1].value == "int")
        if found is not None and is_int and isinstance(found[1].value, ast.Call):
            dt = next((k.value for k in found[1].value.keywords if k.arg == "dtype"), None)
            small = dt is not None and norm(dt).split(".")[-1].strip("'\"") in ("int8", "int16", "uint8", "uint16", "i1", "i2", "u1", "u2", "bool", "bool_")
            r.require(not small, key + ":holds-int32", found[0], node=found[1].stmt,
                      msg=f"`{chain}` is allocated with dtype `{norm(dt) if dt is not None else ''}` but filled from 4-byte integer fields: a value the file format allows (e.g. 40000) "
                          "cannot be read back (OverflowError) although armi writes it")


# ------------------------------------------------------------------------------------------------
def r12_keyed_read_before_write(idx, r):
    """On reading, the argument of an rw* call is evaluated before anything was stored. If it indexes a
    plain dict that the data class creates empty (`self.x = {}`) with a file-derived key, reading raises
    KeyError; the tolerant forms are `.get(key)` or a pre-filled / defaulting mapping."""
    empty_dicts = {}
    for c in idx.all_classes():
        if not c.module.name.startswith("armi.nuclearDataIO"):
            continue
        init = c.methods.get("__init__")
        if init is None:
            continue
        for st in iter_stores(init.node):
            if st.kind == "assign" and st.chain.startswith("self.") and st.chain.count(".") == 1:
                v = st.value
                if (isinstance(v, ast.Dict) and not v.keys) or (isinstance(v, ast.Call) and dotted(v.func) == "dict" and not v.args and not v.keywords):
                    empty_dicts.setdefault(st.attr, []).append(c)
    if not empty_dicts:
        raise AnchorMissing("no data class under armi.nuclearDataIO creates an empty dict attribute")

    def bad_loads(expr):
        for n in ast.walk(expr):
            if isinstance(n, ast.Subscript) and isinstance(n.ctx, ast.Load) and isinstance(n.value, ast.Attribute) and n.value.attr in empty_dicts:
                if not isinstance(n.slice, ast.Constant):
                    yield n

    n_sites = 0
    for m, f, c, par in _rw_sites(idx):
        if not c.args:
            continue
        arg = propagate(c.args[0], _alias_env(f.node))
        if isinstance(arg, ast.Name):
            # re-assigned local: take the definition in the nearest preceding sibling statement
            st = c
            while st in par and not (isinstance(st, ast.stmt) and any(st in getattr(par[st], fld, []) for fld in ("body", "orelse", "finalbody") if isinstance(getattr(par[st], fld, None), list))):
                st = par[st]
            if st in par:
                for fld in ("body", "orelse", "finalbody"):
                    sibs = getattr(par[st], fld, None)
                    if isinstance(sibs, list) and st in sibs:
                        for prev in reversed(sibs[: sibs.index(st)]):
                            if isinstance(prev, ast.Assign) and any(isinstance(t, ast.Name) and t.id == arg.id for t in prev.targets):
                                arg = prev.value
                                break
                            if any(isinstance(t, ast.Name) and t.id == arg.id and isinstance(t.ctx, ast.Store) for t in ast.walk(prev)):
                                break
        exprs = [(f, arg)]
        # one level of getter helpers:  x = self._getFoo(k); x = rec.rwT(x, ...)
        for sub in ast.walk(arg):
            if isinstance(sub, ast.Call) and isinstance(sub.func, ast.Attribute) and dotted(sub.func.value) == "self" and f.cls is not None:
                g = f.cls.resolve(sub.func.attr)
                if g is not None and g.cls is not None and g.cls.module.name.startswith("armi.nuclearDataIO"):
                    for st in walk_local(g.node):
                        if isinstance(st, ast.Return) and st.value is not None:
                            exprs.append((g, st.value))
        for g, e in exprs:
            for n in bad_loads(e):
                n_sites += 1
                key = f"{m.relpath.rsplit('/', 1)[-1]}:{g.qualname}:{norm(n)[:70]}"
                r.violate(key, g, f"`{norm(n)}` is evaluated before the value is read from the file; `{n.value.attr}` starts as an empty dict "
                          f"({empty_dicts[n.value.attr][0].name}.__init__), so reading raises KeyError - use .get()", node=n)
    r.ok("scan", idx.module(CCCC), msg=f"{len(empty_dicts)} empty-dict attributes, all rw arguments and their getter helpers scanned")
    for a, cs in sorted(empty_dicts.items()):
        r.ok(f"empty-dict:{cs[0].name}.{a}", cs[0].methods["__init__"])


# ------------------------------------------------------------------------------------------------
def r13_banded_scatter(idx, r):
    """ISOTXS/GAMISO scatter records hold, per row g, a band of columns stored backwards. The writer emits
    reversed(scatter[g, lo:hi]); the reader must attach the values it reads to exactly the columns hi-1, hi-2, ..., lo
    (in that order) and read hi-lo of them. Compared as exact polynomials in (g, JJ, JBAND)."""
    f = idx.method("armi.nuclearDataIO.cccc.isotxs._IsotxsNuclideIO", "_rw7DRecord")
    if f is None:
        raise AnchorMissing("_IsotxsNuclideIO._rw7DRecord")
    branch = next((n for n in walk_local(f.node) if isinstance(n, ast.If) and norm(n.test) in ("scatter is None",) and n.orelse), None)
    if branch is None:
        raise AnchorMissing("_rw7DRecord: `if scatter is None: ... else: ...` inside the row loop")
    par = {}
    for n in ast.walk(f.node):
        for ch in ast.iter_child_nodes(n):
            par[ch] = n
    body = par[branch].body if hasattr(par[branch], "body") else []
    E = ExprEval()
    for st in body:
        if st is branch:
            break
        if isinstance(st, ast.Assign) and len(st.targets) == 1 and isinstance(st.targets[0], ast.Name):
            E.env[st.targets[0].id] = E.ev(st.value)
    ext = next((c for st in branch.body for c in ast.walk(st) if isinstance(c, ast.Call) and call_attr(c) == "extend" and c.args and isinstance(c.args[0], ast.Call) and dotted(c.args[0].func) == "range"), None)
    nread = next((st for st in branch.body if isinstance(st, ast.For) and isinstance(st.iter, ast.Call) and dotted(st.iter.func) == "range" and any(call_attr(c) in RW for c in ast.walk(st) if isinstance(c, ast.Call))), None)
    wr = next((st for st in branch.orelse if isinstance(st, ast.For)), None)
    if ext is None or nread is None or wr is None:
        raise AnalysisError("_rw7DRecord: reader index range / read loop / writer loop not found")
    it = wr.iter
    rev = isinstance(it, ast.Call) and dotted(it.func) == "reversed"
    sl = None
    for n in ast.walk(it):
        if isinstance(n, ast.Subscript) and isinstance(n.slice, ast.Tuple) and len(n.slice.elts) == 2 and isinstance(n.slice.elts[1], ast.Slice):
            sl = n.slice.elts[1]
    if sl is None or sl.lower is None or sl.upper is None or sl.step is not None:
        raise AnalysisError(f"_rw7DRecord: writer column slice `{norm(it)[:60]}` outside the fragment")
    lo, hi = E.ev(sl.lower), E.ev(sl.upper)
    ra = ext.args[0].args
    if len(ra) != 3:
        raise AnalysisError("_rw7DRecord: reader range must have start, stop, step")
    a, b, stp = E.ev(ra[0]), E.ev(ra[1]), E.ev(ra[2])
    one = Poly.const(1)
    if rev:
        ok = stp == Poly.const(-1) and a == hi - one and b == lo - one
        want = f"range({hi - one}, {lo - one}, -1)"
    else:
        ok = stp == one and a == lo and b == hi
        want = f"range({lo}, {hi})"
    r.require(ok, "reader-columns=writer-slice", f, node=ext,
              msg=f"the writer emits columns {'reversed ' if rev else ''}[{lo} : {hi}) of row g but the reader attaches the values to range({a}, {b}, {stp}); they agree only if "
                  f"these are equal ({want}) - e.g. only when the in-group position JJ is 1")
    cnt = E.ev(nread.iter.args[0]) if len(nread.iter.args) == 1 else None
    r.require(cnt is not None and cnt == hi - lo, "reader-count=writer-count", f, node=nread, msg=f"the reader takes {cnt} values per row, the writer emits {hi - lo}")
    ip = next((c for st in branch.body for c in ast.walk(st) if isinstance(c, ast.Call) and call_attr(c) == "append" and dotted(c.func.value) == "indptr"), None)
    if ip is not None:
        e2 = ExprEval(env=dict(E.env))
        got = e2.ev(ip.args[0])
        r.require(got == Poly.atom("len(indices)") + (hi - lo), "row-pointer", f, node=ip, msg=f"the CSR row pointer must advance by the band width: {got}")


# ------------------------------------------------------------------------------------------------
def r14_one_count_per_field(idx, r):
    """A container field that is read/written in several sibling records of one stream class (the 2-D, 3-D and 4-D
    geometry records of GEODST list the same mesh arrays) has ONE length: every site must size it with the same
    header counts."""
    by_field = {}
    for m, f, c, par in _rw_sites(idx):
        if not c.args or f.cls is None or call_attr(c) not in ("rwList", "rwMatrix", "rwDoubleMatrix", "rwIntMatrix"):
            continue
        a = propagate(c.args[0], _alias_env(f.node))
        ch = dotted(a)
        if not ch or not ch.startswith("self."):
            continue
        counts = tuple(norm(x) for x in (c.args[2:] if call_attr(c) == "rwList" else c.args[1:]))
        by_field.setdefault((m.relpath, f.cls.name, ch), []).append((f, c, counts))
    n = 0
    for (rel, cls, ch), sites in sorted(by_field.items()):
        if len({f.qualname for f, _, _ in sites}) < 2:
            continue
        n += 1
        kinds = {cnt for _, _, cnt in sites}
        key = f"{rel.rsplit('/', 1)[-1]}:{cls}:{ch}"
        if len(kinds) == 1:
            r.ok(key, sites[0][0], node=sites[0][1])
        else:
            f, c, cnt = sites[-1]
            r.violate(key, f, f"`{ch}` is sized with {sorted(kinds)} in different records of {cls}: one of them reads/writes the wrong number of entries "
                      f"(here `{norm(c)[:70]}`)", node=c)
    if n < 3:
        raise AnalysisError(f"only {n} fields shared between sibling records found")


# ------------------------------------------------------------------------------------------------
def r15_sibling_stream_classes(idx, r):
    """(a) NHFLUX comes in four sibling stream classes (real/adjoint x nodal/VARIANT). The two VARIANT classes must read
    into a VARIANT container (NHFLUX(variant=True)): inheriting the nodal default makes the file control record
    be parsed with the wrong layout. (b) Character fields are padded on the RIGHT by both writers; the readers may strip
    only that padding (rstrip) - leading blanks belong to the datum (DIF3D title words)."""
    m = idx.module("armi.nuclearDataIO.cccc.nhflux")
    if m is None:
        raise AnchorMissing("armi.nuclearDataIO.cccc.nhflux")
    var = [c for c in m.classes.values() if "Variant" in c.name and any("Stream" in b.name for b in c.mro() if b is not c)]
    if len(var) < 2:
        raise AnalysisError(f"{len(var)} VARIANT stream classes found in nhflux.py, expected NhfluxStreamVariant and NafluxStreamVariant")
    for c in var:
        g = c.resolve("_getDataContainer")
        rets = [x.value for x in walk_local(g.node) if isinstance(x, ast.Return) and x.value is not None] if g is not None else []
        ok = any(isinstance(v, ast.Call) and any(k.arg == "variant" and isinstance(k.value, ast.Constant) and k.value.value is True for k in v.keywords) for v in rets)
        r.require(ok, f"{c.name}:variant-container", g or c, msg=f"{c.name} reads into `{norm(rets[0]) if rets else '?'}` (from {g.cls.name if g is not None and g.cls else '?'}): a VARIANT file is then parsed "
                  "with the nodal layout (flags and counts of the file control record land in the wrong fields)")
    for cname in ("BinaryRecordReader", "AsciiRecordReader"):
        c = idx.cls(CCCC + "." + cname)
        f = c.resolve("rwString")
        strips = [x for x in iter_calls(f.node) if call_attr(x) in ("strip", "lstrip", "rstrip")]
        r.require(bool(strips) and all(call_attr(x) == "rstrip" for x in strips), f"{cname}.rwString:only-trailing-padding-stripped", f, node=strips[0] if strips else f.node,
                  msg="the reader strips leading blanks of a character field too; the writers pad on the right only, so a datum that starts with a blank (' U235', a DIF3D title word) "
                      "reads back different and re-writing it does not reproduce the file")
    for cname in ("BinaryRecordWriter", "AsciiRecordWriter"):
        c = idx.cls(CCCC + "." + cname)
        f = c.resolve("rwString")
        txt = norm(f.node)
        r.require("ljust" in txt or ":<" in txt, f"{cname}.rwString:pads-right", f, msg="character fields must be left-aligned / padded on the right")


def r16_compxs_scatter_column(idx, r):
    """COMPXS stores one scattering column per group as NUP up-scatter rows, the in-group term and NDN down-scatter rows, highest row first.
    The writer flattens rows [lo, hi) of the column and reverses them; on reading, the row numbers attached to the values must be that very
    sequence - for every (group, NUP, NDN), evaluated exhaustively on a small box (the expressions are affine in the three integers)."""
    from ..minieval import MiniEval
    CX = "armi.nuclearDataIO.cccc.compxs"
    w = idx.func(CX + "._flattenScatteringVector")
    rd = idx.method(CX + "._CompxsRegionIO", "_rwScatteringMatrix")
    call = next((c for c in iter_calls(rd.node) if dotted(c.func) == "_flattenScatteringVector"), None)
    if call is None or len(call.args) != len(w.params()):
        raise AnchorMissing("_rwScatteringMatrix: _flattenScatteringVector(column, group, numUp, numDown)")
    # the writer is executed on a column whose entry k IS the row number k: what it returns is the sequence of rows it emits
    st_ = [s_ for s_ in iter_stores(rd.node) if s_.attr == "indicesj" and s_.value is not None]
    add = next((c for c in iter_calls(rd.node) if call_attr(c) == "addColumnData"), None)
    if len(st_) != 1 or add is None or norm(add.args[1]) != "indicesj" or norm(add.args[0]) != "dataj":
        raise AnchorMissing("_rwScatteringMatrix: indicesj = ...; sparseMat.addColumnData(dataj, indicesj)")
    names = [norm(a) for a in call.args[1:]]  # reader-side names of (group, numUp, numDown)
    if not all(n.isidentifier() for n in names):
        raise AnalysisError("_rwScatteringMatrix: plain names expected as arguments of _flattenScatteringVector")
    rexpr = propagate(st_[0].value, {k: v for k, v in single_assign_env(rd.node).items() if k not in names})
    ev = MiniEval()
    bad = None
    n = 0
    for g in range(0, 6):
        for up in range(0, 4):
            for dn in range(0, min(g, 3) + 1):
                wargs = dict(zip(w.params(), (list(range(0, g + up + 3)), g, up, dn)))
                want, _ = MiniEval().run(w.node, wargs)
                want = list(want)
                got = ev._ev(rexpr, dict(zip(names, (g, up, dn))))
                n += 1
                if list(got) != want and bad is None:
                    bad = (g, up, dn, list(got), want)
    r.require(bad is None, "compxs:scatter-column:rows-read=rows-written", rd, node=st_[0].stmt,
              msg=(f"for group {bad[0]} with {bad[1]} up- and {bad[2]} down-scatter groups the writer emits rows {bad[4]} but the reader labels the values {bad[3]}: scattering cross "
                   "sections are attached to the wrong source groups") if bad else "")
    cnt = next((c for c in iter_calls(rd.node) if call_attr(c) == "rwList" and len(c.args) >= 3), None)
    if cnt is not None:
        ok = all(ev._ev(cnt.args[2], dict(zip(names, v))) == v[1] + 1 + v[2] for v in ((2, 0, 0), (3, 2, 1), (5, 3, 3)))
        r.require(ok, "compxs:scatter-column:count", rd, node=cnt, msg="the column holds NUP + 1 + NDN values")
    if n < 50:
        raise AnalysisError("compxs scatter column: evaluation box too small")


# precision of the real-valued fields of each format as confirmed by reading the stream modules (and the CCCC / DIF3D file descriptions they
# cite): a format is written in ONE precision; the listed exception stores both on purpose
FILE_PRECISION = {
    "compxs": "double", "dif3d": "double", "fixsrc": "double", "nhflux": "double", "rtflux": "double",
    "dlayxs": "float", "gamiso": "float", "isotxs": "float", "labels": "float", "pmatrx": "float", "pwdint": "float", "rzflux": "float",
}
MIXED_PRECISION_OK = {"geodst": "CCCC GEODST keeps mesh boundaries in double words (MULT) and volumes/bucklings in single precision"}


def r17_one_precision_per_format(idx, r):
    """The reader and the writer of a field are the same statement, so a field stored in the wrong precision reads back 'consistently' - just not
    as the value that was written (0.1 -> 0.10000000149).  Every real field of a format must use the precision of that format."""
    n = 0
    for m in _cccc_modules(idx):
        base = m.name.rsplit(".", 1)[-1]
        if base in MIXED_PRECISION_OK:
            r.ok(f"{base}:mixed-by-format", (m.relpath, 1), msg=MIXED_PRECISION_OK[base])
            continue
        sites = []
        for f in m.all_funcs():
            for c in iter_calls(f.node):
                a = call_attr(c)
                if not isinstance(c.func, ast.Attribute):
                    continue
                if a in ("rwFloat", "rwMatrix"):
                    sites.append(("float", f, c))
                elif a in ("rwDouble", "rwDoubleMatrix"):
                    sites.append(("double", f, c))
                elif a == "rwList" and len(c.args) >= 2 and isinstance(c.args[1], ast.Constant) and c.args[1].value in ("float", "double"):
                    sites.append((c.args[1].value, f, c))
        if not sites:
            continue
        want = FILE_PRECISION.get(base)
        if want is None:
            raise AnalysisError(f"{m.relpath}: real-valued fields found but the format's precision is not in the confirmed table")
        for prec, f, c in sites:
            n += 1
            if prec != want:
                r.violate(f"{base}:{f.qualname}:{norm(c.args[0])[:50] if c.args else call_attr(c)}:precision", f, f"`{norm(c)[:80]}` stores a {prec} in a {want}-precision format: the value read back is not the "
                          f"value written ({'17' if want == 'double' else '9'} significant digits are needed, {'9' if prec == 'float' else '17'} are kept) and the record has another length than the format prescribes", node=c)
        r.ok(f"{base}:{want}", (m.relpath, 1))
    if n < 60:
        raise AnalysisError(f"only {n} real-valued rw sites found")


GEODST_RECORD_OF_IGOM = {**{g: "_rw2DRecord" for g in (1, 2, 3)}, **{g: "_rw3DRecord" for g in range(6, 12)}, **{g: "_rw4DRecord" for g in range(12, 19)}}


def r18_dispatch_tables(idx, r):
    """(a) GEODST: the mesh record that follows the specifications is chosen by the geometry code IGOM (CCCC-IV, repeated in the method's own
    documentation): 1-3 one-dimensional, 6-11 two-dimensional, 12-18 three-dimensional, anything else none.  The if/elif chain is evaluated
    for every code 0..18 and compared with that table.  (b) PMATRX: the records of ONE nuclide are sized by the counts of that nuclide's own
    heading record; a key the nuclide-level reader itself reads must not be taken from the file-level metadata."""
    from ..minieval import MiniEval
    f = idx.method("armi.nuclearDataIO.cccc.geodst.GeodstStream", "readWrite")
    gv = next((s_.attr for s_ in iter_stores(f.node) if isinstance(s_.node, ast.Name) and s_.value is not None and "'IGOM'" in norm(s_.value)), None)
    chain = next((x for x in f.node.body if isinstance(x, ast.If) and gv is not None and any(isinstance(y, ast.Name) and y.id == gv for y in ast.walk(x.test))
                  and any(isinstance(c, ast.Call) and (dotted(c.func) or "").startswith("self._rw") for c in ast.walk(x))), None)
    if gv is None or chain is None:
        raise AnchorMissing("GeodstStream.readWrite: dispatch on IGOM")
    ev = MiniEval()
    bad = []
    for g in range(0, 19):  # the codes the format defines (0 = point, 1-3, 6-18); 4 and 5 are not assigned
        cur, got = chain, None
        while cur is not None:
            if ev._truth(ev._ev(cur.test, {gv: g})):
                got = next((dotted(c.func).split(".")[-1] for st_ in cur.body for c in ast.walk(st_) if isinstance(c, ast.Call) and (dotted(c.func) or "").startswith("self._rw")), None)
                break
            cur = cur.orelse[0] if len(cur.orelse) == 1 and isinstance(cur.orelse[0], ast.If) else None
        if got != GEODST_RECORD_OF_IGOM.get(g):
            bad.append((g, got, GEODST_RECORD_OF_IGOM.get(g)))
    r.require(not bad, "geodst:mesh-record-by-geometry-code", f, node=chain,
              msg=f"geometry code {bad[0][0]} selects {bad[0][1]} but the format prescribes {bad[0][2]}: the mesh record of that geometry is neither written nor read" if bad else "")
    n = 0
    for m in _cccc_modules(idx):
        for c in m.classes.values():
            own = set()
            for fn in c.methods.values():
                for s_ in iter_stores(fn.node):
                    if s_.kind == "subscript" and s_.chain == "self._metadata" and isinstance(s_.value, ast.Call) and call_attr(s_.value) in RW and isinstance(s_.node.slice, ast.Constant):
                        own.add(s_.node.slice.value)
            if not own:
                continue
            for fn in c.methods.values():
                for x in walk_local(fn.node):
                    if isinstance(x, ast.Subscript) and isinstance(x.ctx, ast.Load) and isinstance(x.slice, ast.Constant) and x.slice.value in own \
                            and isinstance(x.value, ast.Attribute) and x.value.attr == "_metadata" and norm(x.value.value) != "self" and norm(x.value.value).startswith("self._"):
                        n += 1
                        r.violate(f"{c.name}.{fn.name}:{x.slice.value}:own-heading-count", fn, f"`{norm(x)}` takes `{x.slice.value}` from the enclosing file's metadata although {c.name} reads that key from its "
                                  "own heading record: a nuclide whose count differs from the file-wide one is read and written with the wrong number of records", node=x)
    r.ok("nuclide-level-counts-scanned", f)


def r19_whole_record_flushed(idx, r):
    """(a) A record is buffered field by field and flushed in slices of io.DEFAULT_BUFFER_SIZE fields: whatever the number of fields, the
    slices written must cover all of them exactly once (the byte counts announce the whole record).  The flush loop of every record writer
    is executed here for record lengths around one and two buffer sizes.  (b) LABELS: the half-height / extrapolation record exists when
    EITHER transverse direction has half heights."""
    from ..minieval import MiniEval
    B = 8192
    n = 0
    for cname in ("BinaryRecordWriter", "AsciiRecordWriter"):
        c = idx.cls(CCCC + "." + cname)
        f = c.methods.get("close") if c is not None else None
        w = c.resolve("_write_buffer_to_stream") if c is not None else None
        if f is None:
            raise AnchorMissing(f"{cname}.close")
        if not any(dotted(x.func) == "self._write_buffer_to_stream" for x in iter_calls(f.node)):
            whole = any(isinstance(x, ast.Call) and call_attr(x) == "join" and x.args and norm(x.args[0]) == "self.data" for x in ast.walk(f.node))
            r.require(whole, f"{cname}.close:every-field-flushed-once", f, msg="a writer that does not flush in slices writes the joined buffer in one piece")
            n += 1
            continue
        if w is None:
            raise AnchorMissing(f"{cname}._write_buffer_to_stream")
        sl = next((x for x in ast.walk(w.node) if isinstance(x, ast.Subscript) and norm(x.value) == "self.data" and isinstance(x.slice, ast.Slice)), None)
        if sl is None or norm(sl.slice.lower) != w.params()[1] or norm(sl.slice.upper) not in (f"{w.params()[1]} + io.DEFAULT_BUFFER_SIZE", f"io.DEFAULT_BUFFER_SIZE + {w.params()[1]}"):
            raise AnalysisError(f"{cname}._write_buffer_to_stream: expected self.data[i : i + io.DEFAULT_BUFFER_SIZE]")

        class _Subst(ast.NodeTransformer):
            def __init__(self, L):
                self.L = L

            def visit_Call(self, node):
                if dotted(node.func) == "len" and node.args and norm(node.args[0]) == "self.data":
                    return ast.copy_location(ast.Constant(self.L), node)
                return self.generic_visit(node)

            def visit_Attribute(self, node):
                if norm(node) == "io.DEFAULT_BUFFER_SIZE":
                    return ast.copy_location(ast.Constant(B), node)
                if norm(node) == "self._hasRecordBoundaries":
                    return ast.copy_location(ast.Constant(False), node)
                return self.generic_visit(node)
        import copy as _copy
        bad = None
        for L in (0, 1, B - 1, B, B + 1, 2 * B - 1, 2 * B, 2 * B + 5, 9000):
            starts = []

            def hook(call, args, starts=starts):
                d = dotted(call.func) or ""
                if d == "self._write_buffer_to_stream" and args is not None:
                    starts.append(args[0])
                    return True
                if d.startswith(("self._stream.", "self._getPackedNumBytes", "runLog.")):
                    return True
                return None
            fn = _Subst(L).visit(_copy.deepcopy(f.node))
            MiniEval(call_hook=hook).run(fn, {})
            covered = sorted(x for s0 in starts for x in range(s0, min(s0 + B, L)))
            if covered != list(range(L)):
                bad = (L, starts)
                break
        n += 1
        r.require(bad is None, f"{cname}.close:every-field-flushed-once", f,
                  msg=(f"a record of {bad[0]} fields is flushed from positions {bad[1]} in slices of {B}: fields are {'missing' if len(set(x for s0 in bad[1] for x in range(s0, min(s0 + B, bad[0])))) < bad[0] else 'written twice'}, "
                       "while the leading and trailing byte counts still announce the full record") if bad else "")
    lb = idx.method(PKG + "labels.LabelsStream", "readWrite") or idx.method("armi.nuclearDataIO.cccc.labels.LabelsStream", "readWrite")
    call3 = next((c for c in iter_calls(lb.node) if dotted(c.func) == "self._rw3DRecord"), None)
    if call3 is None:
        raise AnchorMissing("LabelsStream.readWrite: self._rw3DRecord()")
    t = next((tt for tt, p in path_conditions(lb.node, call3) if p and "numHalfHeights" in norm(tt)), None)
    ev = MiniEval()
    tab = {}
    if t is not None:
        class _S2(ast.NodeTransformer):
            def __init__(self, a, b):
                self.a, self.b = a, b

            def visit_Subscript(self, node):
                k = norm(node)
                if k == "self._metadata['numHalfHeightsDirection1']":
                    return ast.copy_location(ast.Constant(self.a), node)
                if k == "self._metadata['numHalfHeightsDirection2']":
                    return ast.copy_location(ast.Constant(self.b), node)
                return node
        import copy as _copy
        for a in (0, 3):
            for b in (0, 2):
                tab[(a, b)] = bool(ev._truth(ev._ev(_S2(a, b).visit(_copy.deepcopy(t)), {})))
    r.require(t is not None and tab == {(0, 0): False, (3, 0): True, (0, 2): True, (3, 2): True}, "labels:half-height-record-when-either-direction-has-some", lb, node=call3,
              msg=f"the 3D record is transferred for (NHTS1, NHTS2) -> {tab}: with half heights in one direction only the record (half heights and extrapolation distances) is neither written nor read")
    if n < 2:
        raise AnalysisError("record writers not found")


def r20_numbered_fields_and_family_lookup(idx, r):
    """(a) CCCC records come in numbered families (direction 1 / direction 2, ...): a field whose name ends in a digit is read and written with
    the count that carries the same digit.  Swapping the counts keeps every fixture with equal counts intact and cuts (or over-reads) the list
    otherwise.  (b) DLAYXS stores decay constants and emission spectra per precursor FAMILY, file wide; a nuclide lists the family numbers it
    uses, in any order and possibly shared with other nuclides.  The per-nuclide tables are therefore filled by looking up each family number
    (`table[family - 1]`), never by slicing a block that starts at the first family."""
    import re
    n = 0
    for m in idx.modules.values():
        if not m.name.startswith("armi.nuclearDataIO.cccc.") or ".tests" in m.name:
            continue
        for f in m.all_funcs():
            for s_ in iter_stores(f.node):
                if s_.value is None or not isinstance(s_.value, ast.Call) or not (call_attr(s_.value) or "").startswith("rw") or not s_.attr:
                    continue
                d = re.search(r"(\d)$", s_.attr)
                if not d:
                    continue
                keys = [x.value for a in s_.value.args[1:] for x in ast.walk(a) if isinstance(x, ast.Constant) and isinstance(x.value, str)] + \
                       [x.attr for a in s_.value.args[1:] for x in ast.walk(a) if isinstance(x, ast.Attribute)]
                digits = {re.search(r"(\d)$", k).group(1) for k in keys if re.search(r"[A-Za-z](\d)$", k)}
                if not digits:
                    continue
                n += 1
                r.require(digits == {d.group(1)}, f"{f.qualname}:{s_.attr}:count-of-the-same-number", f, node=s_.stmt,
                          msg=f"`{s_.attr}` is read/written with the count(s) numbered {sorted(digits)}: when the two counts differ the list is cut short or runs into the next field")
    if n < 4:
        raise AnchorMissing("numbered record fields with numbered counts (LABELS 3D record)")
    f = idx.method("armi.nuclearDataIO.cccc.dlayxs.DlayxsIO", "readWrite")
    loops = [x for x in walk_local(f.node) if isinstance(x, ast.For) and "nuclideFamily" in norm(x.iter)]
    fam = {y.id for x in loops for y in ast.walk(x.target) if isinstance(y, ast.Name)}
    tables = [x for x in walk_local(f.node) if isinstance(x, ast.Subscript) and isinstance(x.ctx, ast.Load) and isinstance(x.value, ast.Subscript)
              and norm(x.value.value).endswith("metadata") and isinstance(x.value.slice, ast.Constant) and x.value.slice.value in ("precursorDecayConstants", "delayEmissionSpectrum")]
    if not tables:
        # the tables may be bound to locals first
        env = {s_.node.id: s_.value for s_ in iter_stores(f.node) if s_.kind == "assign" and isinstance(s_.node, ast.Name) and s_.value is not None and "metadata" in norm(s_.value)}
        tables = [x for x in walk_local(f.node) if isinstance(x, ast.Subscript) and isinstance(x.ctx, ast.Load) and isinstance(x.value, ast.Name) and x.value.id in env]
    if not tables:
        raise AnchorMissing("DlayxsIO.readWrite: look-ups in the file-wide precursor tables")
    for t in tables:
        used = {y.id for y in ast.walk(t.slice) if isinstance(y, ast.Name)}
        r.require(bool(used & fam), f"dlayxs:{norm(t.value)[-30:]}:looked-up-per-family", f, node=t,
                  msg=f"`{norm(t)[:80]}` does not index the file-wide table by a family number of the nuclide: a nuclide whose families are not one consecutive ascending block gets the constants of other families")


def r22_record_loops_cover_the_allocated_axis(idx, r):
    """A record family that is read/written plane by plane (`for k in range(N): data[:, :, k] = rec.rw...(data[:, :, k], ...)`) runs over the
    whole axis it fills: the loop bound is the extent the same function allocates for that axis.  A bound taken from a sibling count (coarse
    instead of fine mesh) leaves the trailing planes unwritten and unread."""
    n = 0
    for m in _cccc_modules(idx):
        for f in m.all_funcs():
            alloc = {}
            for s_ in iter_stores(f.node):
                if s_.kind == "assign" and s_.chain and s_.value is not None and isinstance(s_.value, ast.Call) and (dotted(s_.value.func) or "").split(".")[-1] in ("zeros", "empty", "ones") and s_.value.args \
                        and isinstance(s_.value.args[0], ast.Tuple):
                    alloc[s_.chain] = [norm(x) for x in s_.value.args[0].elts]
            if not alloc:
                continue
            for loop in [x for x in walk_local(f.node) if isinstance(x, ast.For) and isinstance(x.target, ast.Name) and isinstance(x.iter, ast.Call) and dotted(x.iter.func) == "range" and len(x.iter.args) == 1]:
                v = loop.target.id
                for st in iter_stores(loop):
                    if st.kind != "subscript" or not isinstance(st.node.slice, ast.Tuple):
                        continue
                    base = norm(st.node.value)
                    if base not in alloc or len(alloc[base]) != len(st.node.slice.elts):
                        continue
                    for axis, ix in enumerate(st.node.slice.elts):
                        if isinstance(ix, ast.Name) and ix.id == v:
                            n += 1
                            r.require(norm(loop.iter.args[0]) == alloc[base][axis], f"{m.relpath.rsplit('/', 1)[-1]}:{f.qualname}:{base.split('.')[-1]}:axis{axis}-fully-covered", f, node=loop,
                                      msg=f"the loop runs over range({norm(loop.iter.args[0])}) but axis {axis} of {base} is allocated with extent {alloc[base][axis]}: the planes beyond the loop bound are neither written nor read")
    if n < 2:
        raise AnchorMissing("plane-by-plane record loops over an axis allocated in the same function")


def r21_pairing(idx, r):
    from ..pairing import pairing_rule
    pairing_rule(idx, r, ["armi.nuclearDataIO.cccc"], 100)


def r23_blocked_axis_and_mode_tests(idx, r):
    """(a) a sub-blocked record loop asks getBlockBandwidth for the bounds of the axis it then slices with them: the extent handed over is the
    extent that axis was allocated with (NINTJ for `[:, jL:jU + 1, k]`), not a sibling one - on a non-square plane the rows beyond the smaller
    extent are never written nor read.  (b) whether a stream is reading is asked as `"r" in self._fileMode` (modes are r, rb, w, wb): an
    equality test against one spelling makes the other encoding behave like a writer."""
    n = 0
    for mod, qual in BLOCKED_RECORDS:
        f = next(x for x in idx.module(CCCC.rsplit(".", 1)[0] + "." + mod).all_funcs() if x.qualname == qual)
        env = single_assign_env(f.node)
        alloc = {}
        for s_ in iter_stores(f.node):
            if s_.kind == "assign" and s_.chain and isinstance(s_.value, ast.Call) and (dotted(s_.value.func) or "").split(".")[-1] in ("zeros", "empty", "ones") and s_.value.args and isinstance(s_.value.args[0], ast.Tuple):
                alloc[s_.chain] = [norm(propagate(x, env)) for x in s_.value.args[0].elts]
        for c in iter_calls(f.node):
            if not (dotted(c.func) or "").endswith("getBlockBandwidth") or len(c.args) != 3:
                continue
            asg = next((x for x in walk_local(f.node) if isinstance(x, ast.Assign) and x.value is c and isinstance(x.targets[0], ast.Tuple)), None)
            if asg is None:
                continue
            lo = norm(asg.targets[0].elts[0])
            for sub in [x for x in walk_local(f.node) if isinstance(x, ast.Subscript) and isinstance(x.slice, ast.Tuple) and norm(x.value) in alloc]:
                for axis, ix in enumerate(sub.slice.elts):
                    if isinstance(ix, ast.Slice) and ix.lower is not None and norm(ix.lower) == lo and len(alloc[norm(sub.value)]) == len(sub.slice.elts):
                        n += 1
                        r.require(norm(propagate(c.args[1], env)) == alloc[norm(sub.value)][axis], f"{mod}:{qual}:bounds-of-the-sliced-axis", f, node=c,
                                  msg=f"`{norm(c)}` splits an extent of {norm(propagate(c.args[1], env))} but the bounds slice axis {axis} of {norm(sub.value)}, allocated with {alloc[norm(sub.value)][axis]}")
                        break
                else:
                    continue
                break
    if n < 2:
        raise AnchorMissing("sub-blocked record loops that slice an array allocated in the same function")
    k = 0
    for m in _cccc_modules(idx):
        for x in ast.walk(m.tree):
            if isinstance(x, ast.Compare) and any("_fileMode" in norm(e) for e in [x.left] + x.comparators) and isinstance(x.ops[0], (ast.Eq, ast.NotEq, ast.In, ast.NotIn)):
                k += 1
                r.require(isinstance(x.ops[0], (ast.In, ast.NotIn)), f"{m.relpath.rsplit('/', 1)[-1]}:{norm(x)[:40]}:mode-asked-by-membership", (m.relpath, x.lineno, ""),
                          msg=f"`{norm(x)}` compares the file mode with one spelling: the other encoding (ascii vs binary) takes the wrong branch - e.g. an ASCII read attaches no nuclide to the library")
    if k < 3:
        raise AnchorMissing("file-mode tests in the cccc package")


def run(idx, chk):
    chk.explanation = (
        "C09: static reader/writer agreement for CCCC records: struct formats, byte counters and ASCII field widths of "
        "every rw* primitive compared between reader and writer classes; framing sequence of close(); every rw* call "
        "site in armi/nuclearDataIO/cccc/*.py checked to pass in and store back the same storage inside a framed "
        "record; arity/type literals; integer guards satisfiable; key tables duplicate-free; API/mode table. "
        "Byte-for-byte equality of files and float precision are NOT decided."
    )
    chk.undecided_clauses = ["float formatting precision", "byte-for-byte identity of rewritten fixtures", "banded scatter index arithmetic (_rw7DRecord)"]
    chk.run_rule("R09.1", "reader and writer of every rw* primitive use the same struct format, size and counter (binary) / field width (ascii)",
                 lambda r: r1_primitive_symmetry(idx, r), floor=25,
                 necessary="a record whose frame count or field width differs between writer and reader cannot be read back")
    chk.run_rule("R09.2", "records are framed count-payload-count; the reader checks the trailing count; __exit__ closes loudly",
                 lambda r: r2_framing(idx, r), floor=7, necessary="framing is what 'identical leading and trailing byte counts' states")
    r3 = chk.rule("R09.3", "every rw* call is made on a record bound by `with <stream>.createRecord() as rec`", floor=150,
                  necessary="a field emitted outside a framed record is not inside any counted payload")
    r4 = chk.rule("R09.4", "every rw* call stores its result into the same storage it passed in (read-what-you-write)", floor=150,
                  necessary="if the reader fills another place than the writer emits, writing what was read does not reproduce the file")
    try:
        if not chk.only_rule or chk.only_rule in ("R09.3", "R09.4"):
            r3_r4_sites(idx, r3, r4)
        else:
            r3.floor = r4.floor = 0
    except AnalysisError as e:
        r4.error(str(e))
    chk.run_rule("R09.5", "arity and containedType literal of every rw* call match IORecord's signatures", lambda r: r5_call_conformance(idx, r), floor=150,
                 necessary="a call that does not fit the signature raises as soon as the optional record is present")
    chk.run_rule("R09.6", "integer guards selecting records are satisfiable; key tables driving rw loops have no duplicates",
                 lambda r: r6_guards_and_tables(idx, r), floor=12,
                 necessary="an unsatisfiable guard drops a record for every header value; a duplicate key loses a field")
    chk.run_rule("R09.7", "each format exports read/write x binary/ascii bound to the right mode and record class", lambda r: r7_api(idx, r), floor=30,
                 necessary="a mode mapped to the wrong record class reads text as binary or vice versa")
    chk.run_rule("R09.10", "sub-blocked records: rows per block is the ceiling of rows/blocks and blocks are contiguous", lambda r: r10_block_bandwidth(idx, r), floor=5,
                 necessary="every row announced by the header is inside some block of the record")
    chk.run_rule("R09.8", "a header-derived count bound to the same local name in two methods of a stream class has one definition", lambda r: r8_header_locals(idx, r), floor=4,
                 necessary="allocation/announcement and loop bound must agree or data is dropped from the record")
    chk.run_rule("R09.9", "no fresh mutable placeholder object is stored into two different fields of the container", lambda r: r9_no_shared_placeholder(idx, r), floor=10,
                 necessary="aliased fields cannot both hold what was read")
    chk.run_rule("R09.11", "array storage filled element-wise from a record is allocated with the file's dimensions outside __init__", lambda r: r11_allocation(idx, r), floor=6,
                 necessary="reading returns what was written only if the container is sized from the header that was just read")
    chk.run_rule("R09.12", "no rw* argument indexes a dict that is still empty when the file is being read", lambda r: r12_keyed_read_before_write(idx, r), floor=2,
                 necessary="the same code reads and writes: an argument that can only be evaluated once the data exists makes the file unreadable")
    chk.run_rule("R09.13", "banded scatter record: the reader's column indices and count per row equal the writer's reversed slice (exact algebra in g, JJ, JBAND)", lambda r: r13_banded_scatter(idx, r), floor=2,
                 necessary="reader and writer of one record are different branches here; they must address the same matrix entries")
    chk.run_rule("R09.14", "a field listed in several sibling records of one stream is sized by the same header counts in each", lambda r: r14_one_count_per_field(idx, r), floor=3,
                 necessary="reading back what was written for every geometry type: the sibling records differ only in dimension")
    chk.run_rule("R09.15", "sibling stream classes: VARIANT streams read into VARIANT containers; character fields are padded right and only right-stripped", lambda r: r15_sibling_stream_classes(idx, r), floor=6,
                 necessary="reading a file produced by the writer returns data equal to what was written, for every stream class and for strings with leading blanks")
    chk.run_rule("R09.16", "COMPXS scattering column: the row numbers attached on reading are the rows the writer flattened, in the same order (exhaustive on a box)", lambda r: r16_compxs_scatter_column(idx, r), floor=2,
                 necessary="reading what was written returns the same matrix")
    chk.run_rule("R09.17", "every real-valued field of a format is stored in that format's one precision (frozen per format)", lambda r: r17_one_precision_per_format(idx, r), floor=12,
                 necessary="a double written is the double read back")
    chk.run_rule("R09.18", "GEODST mesh record chosen per geometry code as the format prescribes (all codes 0..18); nuclide records sized by the nuclide's own heading", lambda r: r18_dispatch_tables(idx, r), floor=2,
                 necessary="every record the format prescribes for a file is written and read")
    chk.run_rule("R09.19", "the flush loop of each record writer covers every buffered field exactly once (lengths around 1-2 buffers); LABELS 3D record present when either direction has half heights", lambda r: r19_whole_record_flushed(idx, r), floor=3,
                 necessary="the payload written is the payload the byte counts announce; every record the format prescribes is transferred")
    chk.run_rule("R09.20", "a numbered field uses the count of the same number; DLAYXS precursor data are looked up per family number", lambda r: r20_numbered_fields_and_family_lookup(idx, r), floor=6,
                 necessary="every value of the data model is written to and read from the field that holds it")
    chk.run_rule("R09.21", "arguments stand at the parameter they are named after; sibling calls forward the same pass-through parameters", lambda r: r21_pairing(idx, r), floor=1,
                 necessary="record helpers receive (value, type, shape) in that order")
    chk.run_rule("R09.22", "a plane-by-plane record loop covers the whole axis the function allocates", lambda r: r22_record_loops_cover_the_allocated_axis(idx, r), floor=2,
                 necessary="every value of the data model is written and read back")
    chk.run_rule("R09.23", "block bounds are computed for the axis they slice; the reading/writing mode is asked by membership", lambda r: r23_blocked_axis_and_mode_tests(idx, r), floor=5,
                 necessary="every value is written and read back in both encodings")
