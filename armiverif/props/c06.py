"""C06 - database snapshots: ownership of the success flag, the error path reaching the file, one
group per (cycle, node, label), refusal to overwrite, history identity, merge/split copying,
name resolution inside safeMove/safeCopy.  Structural necessary conditions only."""
from __future__ import annotations

import ast
import builtins
import string

from ..astutil import call_attr, const_str, get_arg, iter_calls, iter_stores, propagate, single_assign_env, walk_local
from ..flow import Flow, always_exits, path_conditions
from ..index import AnalysisError, AnchorMissing, dotted, norm

DB = "armi.bookkeeping.db.database"
DBI = "armi.bookkeeping.db.databaseInterface.DatabaseInterface"
OP = "armi.operators.operator.Operator"


def r1_flag(idx, r):
    n = 0
    for f in idx.all_funcs():
        for s in iter_stores(f.node):
            if s.kind in ("subscript", "subscript-aug") and s.chain and s.chain.endswith(".attrs") and const_str(s.node.slice) == "successfulCompletion":
                n += 1
                key = f"flag-writer:{f.qualname}"
                if f.qualname == "Database.open":
                    r.require(norm(s.value) == "False", key, f, node=s.stmt, msg="a freshly opened database must be marked NOT successfully completed")
                elif f.qualname == "Database.close":
                    r.require(norm(s.value) == f.params()[1], key, f, node=s.stmt, msg="close() must record exactly its argument")
                else:
                    r.violate(key, f, "only Database.open/close may write the successfulCompletion attribute", node=s.stmt)
        for c in iter_calls(f.node):
            if call_attr(c) == "update" and isinstance(c.func, ast.Attribute) and norm(c.func.value).endswith(".attrs") and f.qualname != "Database.splitDatabase":
                r.violate(f"attrs-update:{f.qualname}", f, "bulk update of file attributes can overwrite successfulCompletion", node=c)
    if n < 2:
        raise AnalysisError("successfulCompletion writers not found")
    cl = idx.method(DB + ".Database", "close")
    dflt = cl.node.args.defaults
    r.require(bool(dflt) and norm(dflt[-1]) == "False", "close-default-False", cl, msg="close() without argument must mean 'not successful'")
    # who may call close(<possibly true>)
    for f in idx.all_funcs():
        for c in iter_calls(f.node):
            if call_attr(c) != "close" or not isinstance(c.func, ast.Attribute):
                continue
            arg = get_arg(c, 0, "completedSuccessfully")
            if arg is None:
                continue
            recv = norm(c.func.value)
            if recv in ("plt",) or recv.endswith("Reader") or recv.endswith("Writer") or recv.endswith("Record"):
                continue
            key = f"close-arg:{f.qualname}:{norm(c)}"
            if norm(arg) == "False":
                r.ok(key, f, node=c)
            elif f.qualname == "DatabaseInterface.closeDB":
                r.ok(key, f, node=c, msg="end-of-life finalisation")
            elif f.qualname == "Database.__exit__":
                r.require(norm(arg) == "all((i is None for i in (type, value, traceback)))", key, f, node=c, msg="context-manager exit may report success only when no exception is in flight")
            else:
                r.violate(key, f, f"`{norm(c)}` can mark a database as successfully completed outside end-of-life finalisation", node=c)
    # who may call closeDB
    for f in idx.all_funcs():
        for c in iter_calls(f.node):
            if call_attr(c) == "closeDB":
                ok = f.qualname in ("DatabaseInterface.interactEOL", "OperatorSnapshots._mainOperate")
                r.require(ok, f"closeDB-caller:{f.qualname}", f, node=c, msg="closeDB() marks the run successful; only end-of-life code may call it")
    ie = idx.method(DBI, "interactError")
    closes = [c for c in iter_calls(ie.node) if call_attr(c) == "close"]
    r.require(bool(closes) and all(norm(get_arg(c, 0, "completedSuccessfully") or ast.Constant(False)) == "False" for c in closes), "interactError-closes-False", ie, msg="the error path must close with False")
    dl = idx.method(DB + ".Database", "__del__")
    r.require(all(norm(get_arg(c, 0, "completedSuccessfully") or ast.Constant(False)) == "False" for c in iter_calls(dl.node) if call_attr(c) == "close"), "__del__-closes-False", dl, msg="garbage collection must not mark success")


def r2_error_path(idx, r):
    run = idx.method("armi.cases.case.Case", "run")
    w = next((n for n in walk_local(run.node) if isinstance(n, ast.With) and any(norm(it.context_expr) == "o" for it in n.items)), None)
    ops = [c for c in iter_calls(run.node) if norm(c) == "o.operate()"]
    inw = w is not None and all(any(x is c for x in ast.walk(w)) for c in ops)
    r.require(bool(ops) and inw, "Case.run:operate-inside-with", run, node=w, msg="o.operate() must run inside `with o:` so that Operator.__exit__ sees the failure")
    ex = idx.method(OP, "__exit__")
    call = next((c for c in iter_calls(ex.node) if dotted(c.func) == "self.interactAllError"), None)
    conds = [norm(t) for t, p in path_conditions(ex.node, call) if p] if call is not None else None
    r.require(call is not None and conds == ["any([exception_type, exception_value, stacktrace])"], "Operator.__exit__:error-hooks", ex, node=call, msg=f"interactAllError must be called whenever exception info is present; conditions {conds}")
    rets = [n for n in walk_local(ex.node) if isinstance(n, ast.Return) and n.value is not None and norm(n.value) not in ("None", "False")]
    r.require(not rets, "Operator.__exit__:does-not-swallow", ex, msg="the failure must propagate")
    ia = idx.method(OP, "interactAllError")
    loop = next((n for n in ia.node.body if isinstance(n, ast.For)), None)
    ok = loop is not None and norm(loop.iter) == "self.interfaces" and any(call_attr(c) == "interactError" for c in iter_calls(loop)) and not any(isinstance(x, (ast.If, ast.Try, ast.Break, ast.Continue)) for x in walk_local(loop))
    r.require(ok, "interactAllError:all-interfaces", ia, msg="every interface (no enabled/deferred filter) must get interactError")
    ie = idx.method(DBI, "interactError")

    def ev(n):
        if isinstance(n, ast.Call) and call_attr(n) == "writeToDB" and len(n.args) == 2 and const_str(n.args[1]) == "error" and norm(n.args[0]) == "self.r":
            return ["snapshot"]
        if isinstance(n, ast.Call) and call_attr(n) == "close" and "_db" in norm(n.func):
            return ["closed"]
        return []
    fl = Flow(ie.node, ev, handler_from_entry=False).run()
    wr = next((c for c in iter_calls(ie.node) if ev(c) == ["snapshot"]), None)
    cl = next((c for c in iter_calls(ie.node) if ev(c) == ["closed"]), None)
    if wr is None or cl is None:
        r.violate("interactError:snapshot-then-close", ie, "the error hook must write the state at the failure (label 'error') and close the file")
    else:
        c1 = [norm(t) for t, p in path_conditions(ie.node, wr)]
        c2 = [norm(t) for t, p in path_conditions(ie.node, cl)]
        r.require(not c1 and not c2 and wr.lineno < cl.lineno, "interactError:snapshot-then-close", ie, node=wr,
                  msg=f"the 'error' snapshot and the close must both be unconditional, in that order (snapshot under {c1}, close under {c2})")
    cls = idx.method(DB + ".Database", "close")

    def ev2(n):
        if isinstance(n, ast.Assign) and "successfulCompletion" in norm(n.targets[0]):
            return ["attr"]
        if isinstance(n, ast.Call) and norm(n.func) == "self.h5db.flush":
            return ["flush"]
        if isinstance(n, ast.Call) and norm(n.func) == "self.h5db.close":
            return ["close"]
        if isinstance(n, ast.Call) and dotted(n.func) == "safeMove":
            return ["move"]
        return []

    def assume(t):
        return True if norm(t) == "self._permission == 'w'" else None
    fl = Flow(cls.node, ev2, assume=assume).run()
    for e in fl.normal_exits():
        if e.kind == "return" and e.node is not None:
            conds = [norm(t) for t, p in path_conditions(cls.node, e.node) if p]
            r.require(conds == ["self.h5db is None"] and not any(v[1] for v in e.state.values()), f"Database.close:early-return@{e.line}", cls, node=e.node, msg="the only early return is for a database that is not open")
        else:
            st = e.state
            r.require(all(st.get(k, (0, 0)) == (1, 1) for k in ("attr", "flush", "close", "move")), "Database.close:write-mode-sequence", cls, msg=f"in write mode close() must set the flag, flush, close and move the file, each exactly once: {st}")
    order = [ev2(n)[0] for n in walk_local(cls.node) if isinstance(n, (ast.Call, ast.Assign)) and ev2(n)]
    r.require(order == ["attr", "flush", "close", "move"], "Database.close:order", cls, msg=f"order must be flag, flush, close, move; found {order}")
    mv = next((c for c in iter_calls(cls.node) if dotted(c.func) == "safeMove"), None)
    r.require(mv is not None and [norm(a) for a in mv.args] == ["self._fullPath", "self._fileName"], "Database.close:move-args", cls, node=mv, msg="the file must be moved from the fast path to the working directory name")
    op = idx.method(DB + ".Database", "open")
    r.require(any(norm(s.value) == "os.path.join(context.getFastPath(), filePath)" for s in iter_stores(op.node) if s.attr == "filePath"), "Database.open:fast-path", op, msg="write mode opens under the fast path (close moves it back)")


def r3_group_names(idx, r):
    g = idx.func(DB + ".getH5GroupName")
    ret = next(n for n in walk_local(g.node) if isinstance(n, ast.Return))
    fmt = const_str(ret.value.func.value) if isinstance(ret.value, ast.Call) and call_attr(ret.value) == "format" else None
    if fmt is None:
        raise AnalysisError("getH5GroupName: format string not found")
    args = [norm(a) for a in ret.value.args]
    r.require(args[:2] == ["cycle", "timeNode"] and "statePointName" in args[2], "format-args", g, node=ret, msg=f"group name must be built from (cycle, timeNode, label): {args}")
    pieces = list(string.Formatter().parse(fmt))
    lits = [p[0] for p in pieces]
    specs = [p[2] for p in pieces if p[1] is not None]
    pat = idx.cls(DB + ".Database").attrs.get("timeNodeGroupPattern")
    ptxt = const_str(pat.args[0]) if isinstance(pat, ast.Call) else None
    if ptxt is None:
        raise AnchorMissing("Database.timeNodeGroupPattern")
    import re._parser as sp

    parsed = list(sp.parse(ptxt))
    seq = []
    for op, av in parsed:
        o = str(op)
        if o == "LITERAL":
            seq.append(("lit", chr(av)))
        elif o == "SUBPATTERN":
            inner = av[3]
            nd = sum(1 for io, ia in inner if str(io) == "IN" and any(str(x[0]) == "CATEGORY" and "DIGIT" in str(x[1]) for x in ia))
            seq.append(("digits", nd))
        elif o == "AT":
            seq.append(("at", str(av)))
        else:
            seq.append((o, None))
    want = [("at", "AT_BEGINNING"), ("lit", lits[0]), ("digits", 2), ("lit", lits[1]), ("digits", 2)]
    okw = seq[:5] == want and specs[:2] == ["0>2", "0>2"] and specs[2] == ""
    r.require(okw, "format-vs-pattern", g, node=ret, msg=f"name format {fmt!r} (specs {specs}) and pattern {ptxt!r} must agree: two zero-padded 2-digit fields after the same literals (so that name order is chronological)")
    # every group key used with h5db is produced by getH5GroupName (or derived from an existing group / inputs)
    m = idx.module(DB)
    n = 0
    for f in m.all_funcs():
        if f.cls is None or f.cls.name != "Database":
            continue
        env = single_assign_env(f.node)
        for c in iter_calls(f.node):
            if call_attr(c) == "create_group" and norm(c.func.value) == "self.h5db":
                n += 1
                k = propagate(c.args[0], env)
                r.require(isinstance(k, ast.Call) and dotted(k.func) == "getH5GroupName", f"group-key:{f.qualname}:create_group", f, node=c, msg=f"time-node groups must be named by getH5GroupName; got `{norm(k)}`")
        for x in walk_local(f.node):
            if isinstance(x, ast.Subscript) and norm(x.value) == "self.h5db":
                k = propagate(x.slice, env)
                kt = norm(k)
                okk = (isinstance(k, ast.Call) and dotted(k.func) == "getH5GroupName") or kt.startswith(("'inputs", "h5ts.name", "offsetGroupName", "name", "timeGroupName", "groupName")) or const_str(k) is not None
                n += 1
                r.require(okk, f"group-key:{f.qualname}:{kt[:40]}", f, node=x, msg=f"`{norm(x)}`: time-node groups must be addressed through getH5GroupName")
    for fn in ("genTimeSteps", "genTimeStepGroups"):
        f = idx.method(DB + ".Database", fn)
        loop = next((x for x in walk_local(f.node) if isinstance(x, ast.For) and "self.h5db" in norm(x.iter)), None)
        r.require(loop is not None and norm(loop.iter).startswith("sorted("), f"{fn}:sorted", f, node=loop, msg="snapshots must be listed in sorted (chronological) order")
        r.require(any(dotted(c.func) == "self.timeNodeGroupPattern.match" for c in iter_calls(f.node)), f"{fn}:pattern", f, msg="only groups matching the time-node pattern are snapshots")
    gs = idx.method(DB + ".Database", "genTimeSteps")
    ys = [x for x in walk_local(gs.node) if isinstance(x, ast.Yield)]
    env = {k: v for k, v in single_assign_env(gs.node).items() if k != "match"}
    r.require(len(ys) == 1 and norm(propagate(ys[0].value, env)) == "(int(match.groups()[0]), int(match.groups()[1]))", "genTimeSteps:cycle-node-order", gs, msg="(cycle, node) must be (group 1, group 2) of the pattern")
    gh = idx.method(DB + ".Database", "getH5Group")
    nm = next((s for s in iter_stores(gh.node) if s.attr == "groupName"), None)
    r.require(nm is not None and norm(nm.value) == "getH5GroupName(r.p.cycle, r.p.timeNode, statePointName)", "getH5Group:key", gh, msg="a snapshot's group is keyed by the reactor's current cycle, node and the label")


def r4_no_overwrite(idx, r):
    wp = idx.method(DB + ".Database", "_writeParams")

    def ev(n):
        if isinstance(n, ast.If) and isinstance(n.test, ast.Compare) and isinstance(n.test.ops[0], ast.In) and norm(n.test.left) == "paramDef.name" and norm(n.test.comparators[0]) == "g" and always_exits(n.body) \
                and any(isinstance(x, ast.Raise) for x in n.body):
            return ["checked"]
        return []
    fl = Flow(wp.node, ev).run()
    cd = [c for c in iter_calls(wp.node) if call_attr(c) == "create_dataset" and norm(c.func.value) == "g"]
    r.require(bool(cd) and all((fl.state_before(c) or {}).get("checked", (0, 0))[0] >= 1 for c in cd), "_writeParams:exists-check-dominates", wp, node=cd[0] if cd else None,
              msg="creating a parameter dataset must be dominated by the `already in group -> raise` test")
    hs = [h for n in walk_local(wp.node) if isinstance(n, ast.Try) for h in n.handlers if any(call_attr(c) == "create_dataset" for c in iter_calls(ast.Module(body=n.body, type_ignores=[])))]
    r.require(bool(hs) and all(any(isinstance(x, ast.Raise) for x in ast.walk(h)) for h in hs), "_writeParams:failure-propagates", wp, msg="a failed dataset write must raise")
    lw = idx.method("armi.bookkeeping.db.layout.Layout", "writeToDB")
    r.require(not [s for s in iter_stores(lw.node) if s.kind in ("del", "subscript-del")], "Layout.writeToDB:never-deletes", lw, msg="the layout writer must never delete")
    first = next((n for n in lw.node.body if isinstance(n, ast.If)), None)
    r.require(first is not None and norm(first.test) == "'layout/type' in h5group" and isinstance(first.body[0], ast.Return), "Layout.writeToDB:idempotent", lw, msg="an existing layout is left untouched")
    wt = idx.method(DB + ".Database", "writeToDB")
    calls = [norm(c.func) for c in iter_calls(wt.node)]
    r.require("self.getH5Group" in calls and "layout.writeToDB" in calls and "self._writeParams" in calls, "writeToDB:sequence", wt, msg="a snapshot = group + layout + parameters of every object type")
    loop = next((n for n in wt.node.body if isinstance(n, ast.For)), None)
    r.require(loop is not None and "groupedComps.values()" in norm(propagate(loop.iter, single_assign_env(wt.node))) and not any(isinstance(x, ast.If) for x in walk_local(loop)), "writeToDB:all-types", wt, node=loop, msg="parameters of every object type must be written")


def r5_history(idx, r):
    f = idx.method(DB + ".Database", "getHistories")
    st = [s for s in iter_stores(f.node) if s.kind == "subscript" and norm(s.node) == "compsByTypeThenSerialNum[c.__class__][c.p.serialNum]"]
    r.require(bool(st), "identity-by-serial", f, msg="objects are matched by serial number within their class")
    a1 = [c for c in iter_calls(f.node) if norm(c.func) == "indexInData.append"]
    a2 = [c for c in iter_calls(f.node) if norm(c.func) == "reorderedComps.append"]
    m = f.module
    par = m.parents()
    ok = len(a1) == 1 and len(a2) == 1 and par[par[a1[0]]] is par[par[a2[0]]]
    r.require(ok, "parallel-lists", f, node=a1[0] if a1 else None, msg="data indices and objects must be collected together (same block) so that position i of one corresponds to position i of the other")
    if ok:
        blk = par[par[a1[0]]]
        loop = blk
        while not isinstance(loop, ast.For):
            loop = par[loop]
        def _matched(t, pol):  # the condition says `d is not None` (the object of this row was asked for), however it is written
            while isinstance(t, ast.UnaryOp) and isinstance(t.op, ast.Not):
                t, pol = t.operand, not pol
            if not (isinstance(t, ast.Compare) and len(t.ops) == 1 and isinstance(t.ops[0], (ast.Is, ast.IsNot)) and {norm(t.left), norm(t.comparators[0])} == {"d", "None"}):
                return False
            return pol == isinstance(t.ops[0], ast.IsNot)
        from ..flow import path_conditions as _pc
        okz = norm(loop.iter) == "zip(layoutIndexInData, serialNumsForType)" and norm(a1[0].args[0]) == norm(loop.target.elts[0]) and any(_matched(t, p_) for t, p_ in _pc(f.node, a1[0]))
        r.require(okz, "index-from-layout", f, node=loop, msg="the data index of a matched object is the layout's indexInData of that row")
    # neither list is re-ordered afterwards without the other
    bad = []
    for c in iter_calls(f.node):
        d = dotted(c.func) or ""
        if d in ("sorted", "reversed", "np.sort", "np.argsort") and c.args and norm(c.args[0]) in ("indexInData", "reorderedComps"):
            bad.append(c)
        if call_attr(c) in ("sort", "reverse") and isinstance(c.func, ast.Attribute) and norm(c.func.value) in ("indexInData", "reorderedComps"):
            bad.append(c)
    for s in iter_stores(f.node):
        if isinstance(s.node, ast.Name) and s.attr in ("indexInData", "reorderedComps") and s.value is not None and not isinstance(s.value, ast.List):
            bad.append(s.stmt)
    r.require(not bad, "no-one-sided-reorder", f, node=bad[0] if bad else None, msg="re-ordering the data indices (or the objects) alone pairs values with the wrong objects")
    rd = next((n for n in walk_local(f.node) if isinstance(n, ast.Subscript) and norm(n) == "dataSet[indexInData]"), None)
    z = next((n for n in walk_local(f.node) if isinstance(n, ast.For) and norm(n.iter) == "zip(reorderedComps, data.tolist())"), None)
    r.require(rd is not None and z is not None, "read-and-pair", f, msg="values are read at the collected indices and paired with the collected objects")
    dflt = next((s for s in iter_stores(f.node) if s.attr == "data" and s.value is not None and "byNameAndType(paramName, compType).default" in norm(s.value)), None)
    conds = [(norm(t), p) for t, p in path_conditions(f.node, dflt.stmt)] if dflt is not None else []
    r.require(dflt is not None and ("paramName in h5GroupForType", False) in conds, "default-when-absent", f, msg="a parameter absent from a snapshot yields the definition's default")
    key = next((s for s in iter_stores(f.node) if s.kind == "subscript" and norm(s.node) == "histData[c][paramName][cycle, timeNode]"), None)
    r.require(key is not None, "keyed-by-step", f, msg="history entries are keyed by (cycle, node) of the snapshot")
    cyc = {s.attr: norm(s.value) for s in iter_stores(f.node) if s.attr in ("cycle", "timeNode") and s.value is not None}
    r.require(cyc == {"cycle": "int(h5TimeNodeGroup.attrs['cycle'])", "timeNode": "int(h5TimeNodeGroup.attrs['timeNode'])"}, "step-from-group-attrs", f, msg=f"(cycle, node) come from the group's own attributes: {cyc}")


def r6_merge_split(idx, r):
    f = idx.method(DB + ".Database", "mergeHistory")
    loop = next((n for n in f.node.body if isinstance(n, ast.For)), None)
    if loop is None:
        raise AnalysisError("mergeHistory loop not found")
    r.require(norm(loop.iter) == "zip(inputDB.genTimeSteps(), inputDB.genTimeStepGroups())", "merge:iterates-steps", f, node=loop.iter, msg="steps and groups must be walked together, in order")
    ret = next((n for n in walk_local(loop) if isinstance(n, ast.Return)), None)
    cp = next((c for c in iter_calls(loop) if norm(c.func) == "self.h5db.copy"), None)
    ok = ret is not None and cp is not None and ret.lineno < cp.lineno
    if ok:
        conds = [norm(t) for t, p in path_conditions(ast.Module(body=loop.body, type_ignores=[]), ret) if p]
        ok = conds == ["cyc == startCycle and tn == startNode"]
    r.require(ok, "merge:stops-before-start", f, node=ret, msg="the merge must stop BEFORE copying the (startCycle, startNode) step")
    r.require(cp is not None and [norm(a) for a in cp.args] == ["h5ts", "h5ts.name"] and not [t for t, p in path_conditions(ast.Module(body=loop.body, type_ignores=[]), cp) if p], "merge:copies-unchanged", f, node=cp,
              msg="each earlier step is copied under its own name, unconditionally")
    s = idx.method(DB + ".Database", "splitDatabase")
    cps = [c for c in iter_calls(s.node) if norm(c.func) == "dbIn.copy"]
    txt = [norm(c) for c in cps]
    r.require("dbIn.copy(groupName, dbOut)" in txt and "dbIn.copy(getH5GroupName(cycle, node), dbOut, name=offsetGroupName)" in txt, "split:copies", s, msg=f"non-time groups verbatim, kept steps under the offset name: {txt}")
    env = single_assign_env(s.node)
    off = [x for x in iter_stores(s.node) if x.attr == "offsetGroupName"]
    r.require(bool(off) and norm(propagate(off[0].value, env)) == "getH5GroupName(cycle - next(iter(sorted(keepTimeSteps)))[0], node)", "split:offset-name", s, msg="kept steps are renumbered from the first kept cycle")
    chk = any(isinstance(n, ast.If) and "issubset(timeSteps)" in norm(n.test) and any(isinstance(x, ast.Raise) for x in n.body) for n in walk_local(s.node))
    r.require(chk, "split:missing-steps-refused", s, msg="asking for steps that are not in the file must raise")
    loop = next((n for n in walk_local(s.node) if isinstance(n, ast.For) and norm(n.iter) == "keepTimeSteps"), None)
    r.require(loop is not None and not any(isinstance(x, (ast.If, ast.Continue, ast.Break)) for x in walk_local(loop)), "split:every-kept-step", s, node=loop, msg="every requested step is copied")


def _free_names(fnode, module, idx):
    """Names loaded in a function that resolve nowhere: not local, not module level (incl. star imports), not builtin."""
    bound = set()
    a = fnode.args
    for p in a.posonlyargs + a.args + a.kwonlyargs + ([a.vararg] if a.vararg else []) + ([a.kwarg] if a.kwarg else []):
        bound.add(p.arg)
    for n in ast.walk(fnode):
        if isinstance(n, ast.Name) and isinstance(n.ctx, (ast.Store, ast.Del)):
            bound.add(n.id)
        elif isinstance(n, (ast.Import, ast.ImportFrom)):
            for al in n.names:
                bound.add((al.asname or al.name).split(".")[0])
        elif isinstance(n, (ast.FunctionDef, ast.ClassDef)) and n is not fnode:
            bound.add(n.name)
        elif isinstance(n, ast.ExceptHandler) and n.name:
            bound.add(n.name)
        elif isinstance(n, (ast.Global, ast.Nonlocal)):
            bound.update(n.names)
    for n in ast.walk(fnode):
        if isinstance(n, (ast.FunctionDef, ast.AsyncFunctionDef, ast.Lambda)):
            aa = n.args
            for p in aa.posonlyargs + aa.args + aa.kwonlyargs + ([aa.vararg] if aa.vararg else []) + ([aa.kwarg] if aa.kwarg else []):
                bound.add(p.arg)
    out = []
    deco = {id(x) for d in getattr(fnode, "decorator_list", []) for x in ast.walk(d)}
    for n in ast.walk(fnode):
        if id(n) in deco:
            continue  # decorators are evaluated in the enclosing (class) scope
        if isinstance(n, ast.Name) and isinstance(n.ctx, ast.Load) and n.id not in bound and not hasattr(builtins, n.id):
            if idx.name_bound_in_module(module, n.id) is False:
                out.append(n)
    return out


def r7_names(idx, r):
    m = idx.module("armi.utils")
    for fn in ("safeCopy", "safeMove"):
        f = m.functions.get(fn)
        if f is None:
            raise AnchorMissing(f"armi.utils.{fn}")
        free = _free_names(f.node, m, idx)
        r.require(not free, f"{fn}:names-resolve", f, node=free[0] if free else None,
                  msg=f"`{free[0].id if free else ''}` resolves to nothing (not a local, module-level, star-imported or builtin name): evaluating it raises NameError on that path")
        rets = [n for n in walk_local(f.node) if isinstance(n, ast.Return)]
        if fn == "safeMove":
            r.require(any(n.value is not None and norm(n.value) == "dst" for n in rets), "safeMove:returns-destination", f, msg="safeMove must return the destination path (Database.close records it)")
    # the two database modules that persist the file
    for modname in (DB, "armi.bookkeeping.db.databaseInterface"):
        mod = idx.module(modname)
        for f in mod.all_funcs():
            free = _free_names(f.node, mod, idx)
            r.require(not free, f"{mod.relpath.rsplit('/', 1)[-1]}:{f.qualname}:names-resolve", f, node=free[0] if free else None, msg=f"`{free[0].id if free else ''}` resolves to nothing: NameError on that path")


def r8_every_node_written(idx, r):
    """Two cooperating sites write each time node exactly once: without tight coupling the DB
    interface's EveryNode hook, with tight coupling the operator after the coupling iterations."""
    en = idx.method(DBI, "interactEveryNode")
    w = next((c for c in iter_calls(en.node) if dotted(c.func) == "self.writeDBEveryNode"), None)
    conds = [(norm(t), p) for t, p in path_conditions(en.node, w)] if w is not None else None
    r.require(w is not None and conds == [("self.o.cs['tightCoupling']", False)], "interactEveryNode:writes-unless-coupled", en, node=w, msg=f"without tight coupling every node is written by the EveryNode hook; write happens under {conds}")
    tc = idx.method(OP, "_performTightCoupling")
    w2 = next((c for c in iter_calls(tc.node) if call_attr(c) == "writeDBEveryNode"), None)
    conds = sorted((norm(t), p) for t, p in path_conditions(tc.node, w2)) if w2 is not None else None
    r.require(w2 is not None and conds == sorted([("self.couplingIsActive()", True), ("writeDB", True)]), "performTightCoupling:writes-every-node", tc, node=w2,
              msg=f"with tight coupling the node must be written after the iterations for EVERY cycle (also those exempt from coupling); write happens under {conds}")
    ca = idx.method(OP, "couplingIsActive")
    ret = next((n for n in walk_local(ca.node) if isinstance(n, ast.Return)), None)
    key = idx.fold(ca.module, ret.value.slice) if ret is not None and isinstance(ret.value, ast.Subscript) and norm(ret.value.value) == "self.cs" else None
    r.require(key == "tightCoupling", "couplingIsActive:same-setting", ca, msg=f"both sites must key on the tightCoupling setting (operator uses {key!r})")
    wd = idx.method(DBI, "writeDBEveryNode")
    r.require(any(norm(c) == "self._db.writeToDB(self.r)" for c in iter_calls(wd.node)), "writeDBEveryNode:writes-reactor", wd, msg="the node write stores the reactor state (no label)")
    eol = idx.method(DBI, "interactEOL")
    seq = [norm(c) for c in iter_calls(eol.node) if norm(c) in ("self._db.writeToDB(self.r, 'EOL')", "self.closeDB()")]
    r.require(seq == ["self._db.writeToDB(self.r, 'EOL')", "self.closeDB()"], "interactEOL:EOL-state-then-close", eol, msg=f"end of life writes the EOL state and then finalises: {seq}")


def r9_identity_floor(idx, r):
    """Histories match objects by serial number. After loading a snapshot the global serial counter must not be below
    ANY serial number stored in it, or objects created afterwards reuse stored identities: it is raised to the maximum
    over the whole layout, not to one representative element."""
    f = idx.method("armi.bookkeeping.db.database.Database", "load")
    if f is None:
        raise AnchorMissing("Database.load")
    st = [s_ for s_ in iter_stores(f.node) if s_.attr == "GLOBAL_SERIAL_NUM" and s_.kind == "assign"]
    if not st:
        r.violate("load:serial-floor", f, "Database.load no longer raises GLOBAL_SERIAL_NUM: objects created after a load collide with stored identities")
        return
    v = st[0].value
    ok_max = isinstance(v, ast.Call) and dotted(v.func) == "max" and any("GLOBAL_SERIAL_NUM" in norm(a) for a in v.args)
    others = [a for a in (v.args if isinstance(v, ast.Call) else []) if "GLOBAL_SERIAL_NUM" not in norm(a)]

    def aggregate(e):
        while isinstance(e, ast.Call) and dotted(e.func) in ("int", "float") and e.args:
            e = e.args[0]
        if isinstance(e, ast.Call) and isinstance(e.func, ast.Attribute) and e.func.attr == "max" and "serialNum" in norm(e.func.value) and not isinstance(e.func.value, ast.Subscript):
            return True
        if isinstance(e, ast.Call) and dotted(e.func) in ("max", "np.max", "np.amax", "numpy.max") and e.args and "serialNum" in norm(e.args[0]) and not isinstance(e.args[0], ast.Subscript):
            return True
        return False
    r.require(ok_max and len(others) == 1 and aggregate(others[0]), "load:serial-floor", f, node=st[0].stmt,
              msg=f"`{norm(st[0].stmt)[:90]}`: the counter must become max(current, maximum over ALL stored serial numbers); a single element "
                  "(e.g. the last one stored) is not the maximum when a newer object is stored before an older one")


def r10_history_siblings(idx, r):
    """The two history readers (by identity, by location) walk the stored steps the same way: for EVERY step the layout of THAT step is
    read (indices into the data differ from step to step whenever objects were re-ordered), and a stored column with unset entries is
    converted back to None in both."""
    for name in ("getHistories", "getHistoriesByLocation"):
        f = idx.method(DB + ".Database", name)
        loop = next((n for n in walk_local(f.node) if isinstance(n, ast.For) and isinstance(n.iter, ast.Call) and dotted(n.iter.func) == "self.genTimeStepGroups"), None)
        if loop is None or not isinstance(loop.target, ast.Name):
            raise AnchorMissing(f"Database.{name}: loop over self.genTimeStepGroups(...)")
        body = ast.Module(body=loop.body, type_ignores=[])
        lay = [c for c in iter_calls(loop) if (dotted(c.func) or "").endswith("Layout") and any(k.arg == "h5group" and norm(k.value) == loop.target.id for k in c.keywords)]
        if len(lay) != 1:
            raise AnchorMissing(f"Database.{name}: Layout(..., h5group={loop.target.id}) inside the step loop")
        pos = [norm(t) for t, p in path_conditions(body, lay[0]) if p]
        r.require(not pos, f"{name}:layout-read-for-every-step", f, node=lay[0],
                  msg=f"the step's layout is only re-read when {pos}: otherwise the previous step's index table is used and, after objects were re-ordered (a shuffle), each object's "
                      "history entry is another object's value")
        conv = [s_ for s_ in iter_stores(loop) if isinstance(s_.value, ast.Call) and dotted(s_.value.func) == "replaceNonsenseWithNones" and s_.attr == "data"]
        okc = False
        for s_ in conv:
            conds = {(norm(t), p) for t, p in path_conditions(body, s_.stmt)}
            okc = okc or {("dataSet.attrs.get('nones', False)", True), ("paramName in h5GroupForType", True)} <= conds or \
                {("dataSet.attrs.get('nones', False)", True), ("paramName == 'location'", False)} <= conds and any("in h5GroupForType" in c for c, p in conds if p)
        r.require(okc, f"{name}:unset-entries-become-None", f, node=conv[0].stmt if conv else loop,
                  msg="a stored column flagged `nones` must be converted back with replaceNonsenseWithNones (as the sibling reader and Database._readParams do): otherwise the history returns "
                      "the placeholder (NaN / a huge integer) where the object had None")
    # the stored location of an object with several positions (pin lattices) is a LIST of index tuples: the location column is ragged and
    # cannot go through a plain np.array(...) (numpy refuses inhomogeneous shapes)
    for name in ("getHistories", "getHistoriesByLocation"):
        f = idx.method(DB + ".Database", name)
        env = single_assign_env(f.node)
        locnames = {s_.attr for s_ in iter_stores(f.node) if isinstance(s_.node, ast.Name) and s_.value is not None and "layout.location" in norm(s_.value)}
        locnames |= {norm(c.func.value) for c in iter_calls(f.node) if call_attr(c) == "append" and c.args and "layout.location" in norm(c.args[0]) and isinstance(c.func, ast.Attribute)}
        bad = []
        for c in iter_calls(f.node):
            if dotted(c.func) in ("np.array", "np.asarray", "numpy.array") and c.args and not any(k.arg == "dtype" and "object" in norm(k.value).lower() or k.arg == "dtype" and norm(k.value) in ("'O'", "np.dtype('O')") for k in c.keywords):
                a0 = norm(c.args[0])
                if "layout.location" in a0 or a0 in locnames:
                    bad.append(c)
        r.require(not bad, f"{name}:location-column-may-be-ragged", f, node=bad[0] if bad else None,
                  msg=f"`{norm(bad[0])[:60] if bad else ''}` builds a plain array from stored locations: as soon as one object of the layout has several positions (a pin lattice) numpy raises "
                      "'inhomogeneous shape', so the location history of ANY object of such a reactor is unavailable")
    # the interface dispatch and the tracker's own queries
    g = idx.method(DBI, "getHistories")
    byloc = [c for c in iter_calls(g.node) if dotted(c.func) == "self.database.getHistoriesByLocation"]
    ident = [c for c in iter_calls(g.node) if dotted(c.func) == "self.database.getHistories"]
    ok = len(byloc) == 1 and len(ident) == 1
    if ok:
        cb = {(norm(t), p) for t, p in path_conditions(g.node, byloc[0])}
        ci = {(norm(t), p) for t, p in path_conditions(g.node, ident[0])}
        ok = ("byLocation", True) in cb and ("byLocation", False) in ci
    r.require(ok, "interface-dispatch", g, msg="DatabaseInterface.getHistories answers by identity unless byLocation is true")
    n = 0
    ht = idx.modules.get("armi.bookkeeping.historyTracker")
    if ht is None:
        raise AnchorMissing("armi.bookkeeping.historyTracker")
    for f in ht.all_funcs():
        for c in iter_calls(f.node):
            if call_attr(c) in ("getHistories", "getHistory") and not norm(c.func).startswith("self.database"):
                n += 1
                bl = get_arg(c, 3, "byLocation")
                r.require(bl is None or norm(bl) == "False", f"tracker:{f.qualname}:{call_attr(c)}:by-identity", f, node=c,
                          msg="the history tracker follows blocks and assemblies (its results are keyed by the object): asking the database by location returns, for an assembly that "
                              "moved, the values of whatever sat at its present position")
    if n < 2:
        raise AnalysisError(f"historyTracker: only {n} database history queries found")
    # the live value may stand in for a step only while that step is the current one AND the database does not hold it yet
    gb = next((fn for fn in ht.all_funcs() if fn.name == "getBlockHistoryVal"), None)
    if gb is None:
        raise AnchorMissing("HistoryTrackerInterface.getBlockHistoryVal")
    live = [x for x in walk_local(gb.node) if isinstance(x, ast.Return) and x.value is not None and isinstance(x.value, ast.Subscript) and norm(x.value.value).endswith(".p")]
    if not live:
        raise AnchorMissing("getBlockHistoryVal: return block.p[paramName]")
    for x in live:
        txt = " and ".join(("" if p else "not ") + "(" + norm(t) + ")" for t, p in path_conditions(gb.node, x))
        r.require("_isCurrentTimeStep" in txt and "_databaseHasDataForTimeStep" in txt and "not self._databaseHasDataForTimeStep" in txt.replace("not (self._databaseHasDataForTimeStep", "not self._databaseHasDataForTimeStep"),
                  "tracker:live-value-only-while-the-step-is-unwritten", gb, node=x,
                  msg=f"the live parameter value is returned under `{txt}`: once the current step has been written, later changes of the live value must not be reported as that step's history")


def r11_load_preference(idx, r):
    """Without an explicit file, loadState prefers the database this run is writing over the reload database: a step written by this run
    must be returned as this run wrote it."""
    f = idx.method(DBI, "_getLoadDB")

    def ev(n):
        if isinstance(n, ast.Yield) and n.value is not None:
            if norm(n.value) == "self._db":
                return ["own"]
            if "reloadDBName" in norm(n.value):
                return ["reload"]
        return []
    fl = Flow(f.node, ev).run()
    own = [n for n in walk_local(f.node) if isinstance(n, ast.Yield) and n.value is not None and norm(n.value) == "self._db"]
    rel = [n for n in walk_local(f.node) if isinstance(n, ast.Yield) and n.value is not None and "reloadDBName" in norm(n.value)]
    if not own or not rel:
        raise AnchorMissing("DatabaseInterface._getLoadDB: yields of self._db and of Database(cs['reloadDBName'])")
    for y in own:
        st = fl.state_before(y)
        r.require(st is not None and st.get("reload", (0, 0))[1] == 0, "own-database-first", f, node=y,
                  msg="the reload database is offered before the database this run is writing: loadState() of a step this run re-computed returns the earlier run's snapshot")
    for y in rel:
        conds = [(norm(t), p) for t, p in path_conditions(f.node, y)]
        r.require((f"{f.params()[1]} is not None", False) in conds or (f"{f.params()[1]} is None", True) in conds, "reload-only-without-file", f, node=y, msg="the reload database is a fall-back only when no file was named")


def r12_label_forwarded(idx, r):
    """A snapshot is identified by (cycle, node, label).  DatabaseInterface.loadState looks for the database that HAS the labelled snapshot
    and must then load THAT snapshot: the label tested in hasTimeStep is the label handed to load."""
    f = idx.method(DBI, "loadState")
    has = [c for c in iter_calls(f.node) if call_attr(c) == "hasTimeStep"]
    ld = [c for c in iter_calls(f.node) if call_attr(c) == "load" and norm(c.func.value) == (norm(has[0].func.value) if has else "")]
    if len(has) != 1 or len(ld) != 1:
        raise AnchorMissing("DatabaseInterface.loadState: hasTimeStep(...) and load(...) on the same database")
    lab = get_arg(has[0], 2, "statePointName")
    lab2 = get_arg(ld[0], 2, "statePointName")
    r.require(lab is not None and lab2 is not None and norm(lab) == norm(lab2), "loadState:label-tested-is-label-loaded", f, node=ld[0],
              msg=f"the presence of snapshot label `{norm(lab) if lab is not None else None}` is tested but load() is given `{norm(lab2) if lab2 is not None else 'no label'}`: a request for a labelled "
                  "snapshot silently loads the un-labelled snapshot of the same (cycle, node)")
    for k in (0, 1):
        a, b = get_arg(has[0], k, None), get_arg(ld[0], k, None)
        r.require(a is not None and b is not None and norm(a) == norm(b), f"loadState:arg{k}-same", f, node=ld[0], msg="the (cycle, node) tested is the (cycle, node) loaded")


def r13_every_interface_reached(idx, r):
    """The database interface writes its snapshots from interaction hooks like any other interface: whatever an interface ahead of it in the
    stack returns, its hook must still be called at every event (shared with R15.3)."""
    from .c15 import r3_hook_unconditional
    r3_hook_unconditional(idx, r)


def r14_history_values_not_keys(idx, r):
    """A history is a mapping (cycle, node) -> value.  Code that wants the values must take them from .values() / .items(); iterating the
    mapping yields its KEYS, and `key[1]` is a node number, not the value at that step."""
    ht = idx.modules.get("armi.bookkeeping.historyTracker")
    n = 0
    for f in ht.all_funcs():
        hist = {s_.attr for s_ in iter_stores(f.node) if isinstance(s_.node, ast.Name) and s_.value is not None and isinstance(s_.value, ast.Subscript)
                and isinstance(s_.value.value, ast.Call) and call_attr(s_.value.value) in ("getHistory",)}
        for comp in [x for x in ast.walk(f.node) if isinstance(x, (ast.ListComp, ast.GeneratorExp)) or isinstance(x, ast.For)]:
            gens = comp.generators if not isinstance(comp, ast.For) else [comp]
            for g in gens:
                if isinstance(g.iter, ast.Name) and g.iter.id in hist:
                    n += 1
                    r.violate(f"{f.qualname}:{g.iter.id}:iterated-as-a-mapping", f, f"`{g.iter.id}` is the history mapping (cycle, node) -> value; iterating it directly yields the time-step keys, so what is returned are node "
                              "numbers instead of the values recorded at those steps", node=g.iter)
        if hist:
            r.ok(f"{f.qualname}:histories-read-through-values-or-items", f)
            n += 1
    if n < 1:
        raise AnchorMissing("historyTracker: a function that post-processes a history mapping")


def r15_restart_point_label_and_callers_list(idx, r):
    """(a) prepRestartRun merges the old database up to - not including - the restart point the user set: mergeHistory receives the values of
    the `startCycle` / `startNode` settings (the previous time node is what loadState gets, not what bounds the merge; for a restart at node 0
    "previous node + 1" is a node that does not exist, and the whole old file would be merged).  (b) Operator.loadState is a pass-through to
    DatabaseInterface.loadState: every parameter the two share is forwarded, the snapshot label included.  (c) getHistory / getHistories drop
    the current step from the list of steps they were given: they do so on a copy - the caller's list is not theirs to edit."""
    f = idx.method(DBI, "prepRestartRun")
    mh = [c for c in iter_calls(f.node) if call_attr(c) == "mergeHistory"]
    if len(mh) != 1:
        raise AnchorMissing("prepRestartRun: mergeHistory")
    env = single_assign_env(f.node)
    for pos, name in ((1, "startCycle"), (2, "startNode")):
        a = get_arg(mh[0], pos, name)
        v = propagate(a, env) if a is not None else None
        r.require(v is not None and norm(v) in (f"self.cs['{name}']", f'self.cs["{name}"]'), f"prepRestartRun:history-merged-up-to-{name}", f, node=mh[0],
                  msg=f"mergeHistory is bounded by `{norm(v) if v is not None else None}`, not by the `{name}` setting: steps at or after the restart point are copied from the old file "
                      "(for a restart at the first node of a cycle the bound is never met and everything, the EOL snapshot included, is merged)")
    op = idx.method("armi.operators.operator.Operator", "loadState")
    tgt = idx.method(DBI, "loadState")
    calls = [c for c in iter_calls(op.node) if call_attr(c) == "loadState"]
    if len(calls) != 1:
        raise AnchorMissing("Operator.loadState: the delegation")
    tp = tgt.params()[1:]
    for name in [p for p in op.params()[1:] if p in tp]:
        got = get_arg(calls[0], tp.index(name), name)
        r.require(got is not None and norm(got) == name, f"Operator.loadState:forwards-{name}", op, node=calls[0],
                  msg=f"`{norm(calls[0])}` does not hand `{name}` on: the caller's {name} is ignored (a labelled snapshot request loads the plain snapshot; a label never written is accepted)")
    n = 0
    for meth in ("getHistory", "getHistories"):
        g = idx.method(DBI, meth)
        for prm in [p for p in g.params()[1:] if p.lower().startswith("timestep")]:
            def ev(nd, prm=prm):
                if isinstance(nd, ast.Assign) and any(norm(t) == prm for t in nd.targets) and isinstance(nd.value, ast.Call) and dotted(nd.value.func) in ("copy.copy", "copy.deepcopy", "list", "sorted") \
                        or isinstance(nd, ast.Assign) and any(norm(t) == prm for t in nd.targets) and isinstance(nd.value, (ast.ListComp, ast.List)):
                    return ["own"]
                return []
            # the list is only edited when there is one: decide the paths on which the argument is not None
            fl = Flow(g.node, ev, assume=lambda t, prm=prm: True if norm(t) == f"{prm} is not None" else (False if norm(t) == f"{prm} is None" else None)).run()
            for c in iter_calls(g.node):
                if isinstance(c.func, ast.Attribute) and norm(c.func.value) == prm and c.func.attr in ("remove", "append", "pop", "extend", "insert", "sort", "clear", "reverse"):
                    n += 1
                    st = fl.state_before(c) or {}
                    r.require(st.get("own", (0, 0))[0] >= 1, f"{meth}:{prm}:edited-on-a-copy", g, node=c,
                              msg=f"`{norm(c)}` edits the list the caller passed in: a client that reuses one list of steps for several queries loses a step with every call and later histories come back incomplete")
    if n < 2:
        raise AnchorMissing("getHistory/getHistories: removal of the current step")


def r17_finalised_on_every_exit_and_live_answers(idx, r):
    """(a) the database is finalised (EOL snapshot, completion flag) by interactAllEOL, which _mainOperate reaches on every normal exit - also
    when an interface halts the run at the start of a cycle (rule R15.1, shared).  (b) the history tracker decides whether a step has been
    written by ASKING the database at that moment: `_databaseHasDataForTimeStep` keeps nothing on the tracker - a remembered set of steps is
    stale as soon as the database interface writes the next node, and the history then serves the live value for a step that is on file."""
    from .c15 import r1_main
    r1_main(idx, r)
    f = idx.method("armi.bookkeeping.historyTracker.HistoryTrackerInterface", "_databaseHasDataForTimeStep")
    selfreads = [x for x in walk_local(f.node) if isinstance(x, ast.Attribute) and isinstance(x.value, ast.Name) and x.value.id == "self" and x.attr not in ("getInterface", "o", "r", "cs")]
    selfwrites = [s_ for s_ in iter_stores(f.node) if s_.chain and s_.chain.startswith("self.")]
    asks = [c for c in iter_calls(f.node) if "database" in norm(c.func)]
    r.require(not selfreads and not selfwrites and bool(asks), "_databaseHasDataForTimeStep:asks-the-database-every-time", f, node=(selfreads[0] if selfreads else None),
              msg=f"the answer is taken from the tracker's own state ({sorted({norm(x) for x in selfreads})}): once filled it does not see the snapshots written afterwards")


def r16_pairing(idx, r):
    from ..pairing import pairing_rule
    pairing_rule(idx, r, ["armi.bookkeeping.db.databaseInterface", "armi.bookkeeping.db.database", "armi.bookkeeping.historyTracker", "armi.bookkeeping.snapshotInterface"], 40)


def r_borrowed_r06_18(idx, r):
    """clauses of C04/C15 a snapshot rests on: jagged offsets advance by what was appended (R04.6), free coordinates decode as floats (R04.3), the first cycle starts at the start node (R15.2)"""
    from ..report import Only
    from .c04 import r6_jagged, r3_location_codes
    from .c15 import r2_cycle
    r6_jagged(idx, Only(r, ["offset-step"]))
    r3_location_codes(idx, Only(r, ["decode-float"]))
    r2_cycle(idx, Only(r, ["starting-node"]))


def r_borrowed_r06_20(idx, r):
    """clause of C05 that loading a snapshot and a parameter history rest on (R05.2, per-dtype clause only): an unset value is stored as the
    placeholder NONE_MAP gives for the column's element type, and ALL readers of a stored column (database.unpackSpecialData for a load, the two
    history readers checked by R06.10, Layout for the grid indices) hand the column to layout.replaceNonsenseWithNones, whose if-chain picks by numpy class the placeholder
    it scans for.  For every type of NONE_MAP the FIRST branch of that chain whose numpy class covers the type's kind must scan for the very
    placeholder that was written (np.integer covers unsigned types too, so the order of the branches matters): otherwise an unset entry of
    such a column comes back as the placeholder (65533 for uint16) and a genuine value equal to the other placeholder comes back as None."""
    from ..report import Only
    from .c05 import r2_sentinels
    r2_sentinels(idx, Only(r, ["sentinel:"]))


def r19_nesting_count_and_zero_values(idx, r):
    """(a) the output database is a re-entrant context: every `__enter__` adds one to the open count on EVERY path (directly or by opening the
    file), because every `__exit__` takes one off and closes - marking the run successful - when the count reaches zero.  An `__enter__` on an
    already open file that does not count lets the matching `__exit__` of a mid-run `with self._db` close the output file for good.
    (b) the writer of dictionary-valued parameters (component number densities) marks an ABSENT key with NaN: `d.get(k, np.nan)`.  Taking the
    value through `or` treats a stored 0.0 as absent: the nuclide is missing after the load."""
    f = idx.method(DB + ".Database", "__enter__")

    def ev(nd):
        if isinstance(nd, ast.Call) and dotted(nd.func) == "self.open":
            return ["counted"]
        if isinstance(nd, ast.AugAssign) and norm(nd.target) == "self._openCount" and isinstance(nd.op, ast.Add):
            return ["counted"]
        return []
    fl = Flow(f.node, ev).run()
    bad = [e for e in fl.normal_exits() if e.state.get("counted", (0, 0)) != (1, 1)]
    r.require(not bad, "Database.__enter__:counts-once-on-every-path", f, node=bad[0].node if bad and bad[0].node is not None else f.node,
              msg="a path through __enter__ does not add exactly one to the open count: the matching __exit__ then closes a database that an outer user still holds open (and marks the run as completed)")
    g = idx.func("armi.bookkeeping.db.database.packSpecialData")
    gets = [c for c in ast.walk(g.node) if isinstance(c, ast.Call) and call_attr(c) == "get" and len(c.args) >= 1]
    if not gets:
        raise AnchorMissing("packSpecialData: d.get(k, np.nan)")
    ors = [x for x in ast.walk(g.node) if isinstance(x, ast.BoolOp) and isinstance(x.op, ast.Or) and any(v in gets for v in x.values)]
    for c in gets:
        r.require(len(c.args) == 2 and not any(c in x.values for x in ors), "packSpecialData:absent-key-marked-by-default-not-by-truth", g, node=c,
                  msg=f"`{norm(c)}` decides 'absent' by the truth of the value: a stored 0.0 (a nuclide at zero density) is written as the absent-key marker and is gone after the load")


def run(idx, chk):
    chk.explanation = (
        "C06: writers of the successfulCompletion flag and callers that can pass a true value; the chain Case.run -> Operator.__exit__ -> "
        "interactAllError -> DatabaseInterface.interactError -> Database.close checked for unconditional calls and the flag/flush/close/move "
        "sequence; group-name format vs pattern and every h5db key going through getH5GroupName; overwrite refusal dominating create_dataset; "
        "identity/pairing discipline in getHistories; merge/split copying; unresolved names in safeMove/safeCopy and the database modules. "
        "What a file contains after a fault at an arbitrary point, and HDF5 durability, are NOT decided."
    )
    chk.undecided_clauses = ["file contents after a fault at an arbitrary instruction", "isolation of snapshot values under later mutation", "HDF5 durability"]
    chk.run_rule("R06.1", "only Database.open/close write the success flag; only end-of-life code can close with a true value", lambda r: r1_flag(idx, r), floor=9, necessary="an aborted run must be marked not successfully completed")
    chk.run_rule("R06.2", "a failure inside operate() reaches every interface's interactError; the DB hook snapshots 'error' then closes(False); close() flags, flushes, closes, moves", lambda r: r2_error_path(idx, r), floor=10,
                 necessary="the file left behind holds the state at the failure and is in the working directory")
    chk.run_rule("R06.3", "one group per (cycle,node,label): single name producer agreeing with the pattern; listings sorted", lambda r: r3_group_names(idx, r), floor=15, necessary="every snapshot and nothing else is listed, chronologically")
    chk.run_rule("R06.4", "an existing dataset/layout is never overwritten; a snapshot writes layout and every type's parameters", lambda r: r4_no_overwrite(idx, r), floor=6, necessary="a snapshot returns the state as of that write")
    chk.run_rule("R06.5", "histories: objects matched by serial number within class; data indices and objects collected in lock-step and never re-ordered alone; default when absent", lambda r: r5_history(idx, r), floor=8,
                 necessary="the value of the same object, matched by identity even after it moved")
    chk.run_rule("R06.6", "mergeHistory stops before the start step and copies under the same name; splitDatabase copies every kept step (renumbered) and other groups verbatim", lambda r: r6_merge_split(idx, r), floor=7,
                 necessary="copies exactly the requested steps, unchanged")
    chk.run_rule("R06.8", "each time node is written exactly once by one of two cooperating sites (EveryNode hook xor post-coupling write), EOL state then close", lambda r: r8_every_node_written(idx, r), floor=5,
                 necessary="a completed run holds every node plus the end-of-life state")
    chk.run_rule("R06.7", "every name used in safeMove/safeCopy and the database modules resolves", lambda r: r7_names(idx, r), floor=60, necessary="a NameError on the file-move path loses the database")
    chk.run_rule("R06.9", "after a load the global serial counter is at least the maximum serial number of the whole layout", lambda r: r9_identity_floor(idx, r), floor=1,
                 necessary="'the same object, matched by identity': identities handed out after a load must not collide with stored ones")
    chk.run_rule("R06.10", "both history readers read every step's own layout and turn stored unset markers back into None; the tracker queries by identity", lambda r: r10_history_siblings(idx, r), floor=9,
                 necessary="a parameter history returns for each step the value (or None/default if unset) that the same object had at that step")
    chk.run_rule("R06.11", "without a named file, the database being written is preferred over the reload database", lambda r: r11_load_preference(idx, r), floor=2,
                 necessary="loading a snapshot returns the state as of that write")
    chk.run_rule("R06.12", "loadState loads exactly the (cycle, node, label) whose presence it tested", lambda r: r12_label_forwarded(idx, r), floor=3,
                 necessary="loading a snapshot returns the state as of that write")
    chk.run_rule("R06.13", "every interface's hook is called at every event whatever earlier interfaces return (the database writes from its hook)", lambda r: r13_every_interface_reached(idx, r), floor=3,
                 necessary="a completed run holds every node plus the end-of-life state")
    chk.run_rule("R06.14", "history mappings are read through .values()/.items(), never iterated as if they were the values", lambda r: r14_history_values_not_keys(idx, r), floor=1,
                 necessary="a parameter history returns for each step the value the object had at that step")
    chk.run_rule("R06.15", "the merge is bounded by the start settings; Operator.loadState forwards every shared parameter; the caller's list of steps is edited on a copy", lambda r: r15_restart_point_label_and_callers_list(idx, r), floor=6,
                 necessary="a restarted run holds exactly the steps before the restart point plus its own; a snapshot is found under the label asked for; histories hold every requested step")
    chk.run_rule("R06.16", "arguments stand at the parameter they are named after; sibling calls forward the same pass-through parameters", lambda r: r16_pairing(idx, r), floor=1,
                 necessary="(cycle, node, label) reach the reader in that order")
    chk.run_rule("R06.17", "interactAllEOL on every normal exit of the main loop (R15.1); the tracker asks the database whether a step is written", lambda r: r17_finalised_on_every_exit_and_live_answers(idx, r), floor=3,
                 necessary="a run that ends normally leaves a finalised file; histories return the written value of every written step")
    chk.run_rule("R06.18", "clauses of C04/C15 a snapshot rests on: jagged offsets advance by what was appended (R04.6), free coordinates decode as floats (R04.3), the first cycl", lambda r: r_borrowed_r06_18(idx, r), floor=3,
                 necessary="a snapshot holds the state of its step; a restart begins at the node asked for")
    chk.run_rule("R06.19", "__enter__ counts once on every path; an absent dictionary key is marked through get's default, never through `or`", lambda r: r19_nesting_count_and_zero_values(idx, r), floor=2,
                 necessary="the output file stays open until its outermost user leaves and is marked complete only then; every written value is in the snapshot")
    chk.run_rule("R06.20", "clause of C05 a loaded snapshot / a history rests on: for every element type of NONE_MAP the reader's first matching dtype branch scans for the placeholder that was written for None (R05.2)", lambda r: r_borrowed_r06_20(idx, r), floor=13,
                 necessary="loading a snapshot, and a parameter history, return the value that was written - None where the parameter was unset, and the number where it was set")
