"""C08 - symmetry and rotation agree with the geometry: exact lattice identities for third-core
images and index rotation, Cartesian orbits against exact 90-degree rotations / reflections of the
cell centre, consistency of the pieces of HexBlock.rotate, symmetry-line directions, first-third
classification shape.  Exact algebra of straight-line code; no enumeration of cells."""
from __future__ import annotations

import ast
from fractions import Fraction as F

from ..astutil import call_attr, iter_calls, iter_stores, propagate, single_assign_env, walk_local
from ..exprnf import SQRT3, ExprEval, Poly, Q3, Rat, RatEval, matmul, matvec, mat_eq, poly, rot, rot90
from ..flow import path_conditions, always_exits
from ..index import AnalysisError, AnchorMissing, FuncInfo, dotted, norm
from ..lattice import HEX, if_chain, unit_steps

I, J = Poly.atom("i"), Poly.atom("j")


def _lin(exprs, E):
    """2x2 integer matrix (as Poly consts) + offsets of a pair of affine forms in i, j."""
    rows, offs = [], []
    for e in exprs:
        p = E.ev(e) if isinstance(e, ast.AST) else e
        a, b = p.coeff("i", 1), p.coeff("j", 1)
        rest = p - a * I - b * J
        if a.const_value() is None or b.const_value() is None or rest.const_value() is None:
            raise AnalysisError(f"`{p}` is not affine in i, j")
        rows.append([a, b])
        offs.append(rest)
    return rows, offs


def r1_third_core(idx, r):
    U = unit_steps(idx)
    f = idx.method(HEX, "_getSymmetricIdenticalsThird")
    from ..astutil import returned_values
    from types import SimpleNamespace
    st = next((SimpleNamespace(value=v, stmt=nd) for v, nd in returned_values(f.node) if isinstance(v, ast.List) and len(v.elts) == 2), None)
    if st is None:
        raise AnalysisError("_getSymmetricIdenticalsThird: list of two images expected")
    E = ExprEval(env={"i": I, "j": J}, opaque=False)
    maps = []
    for t in st.value.elts:
        M, off = _lin(t.elts, E)
        if not all(o.iszero() for o in off):
            raise AnalysisError("third-core images must be linear")
        maps.append(M)
    for cu, Um in U.items():
        tag = "cornersUp" if cu else "flatsUp"
        angles = []
        for n, M in enumerate(maps, 1):
            lhs = matmul(Um, M)
            ang = [a for a in (2, 4) if mat_eq(lhs, matmul(rot(a), Um))]
            angles.append(ang[0] * 60 if ang else None)
            r.require(bool(ang), f"{tag}:image{n}-is-a-120-degree-rotation", f, node=st.stmt,
                      msg=f"image {n} `{norm(st.value.elts[n - 1])}` is neither the 120- nor the 240-degree rotation of the cell centre ({tag})")
        r.require(sorted(a for a in angles if a) == [120, 240], f"{tag}:both-rotations-present", f, node=st.stmt, msg=f"the two images must be the 120- and the 240-degree rotation; found {angles}")
    M1, M2 = maps
    ident = [[Poly.const(1), Poly.const(0)], [Poly.const(0), Poly.const(1)]]
    r.require(mat_eq(matmul(M1, M1), M2) and mat_eq(matmul(M2, M2), M1) and mat_eq(matmul(M1, M2), ident), "group-structure", f, msg="the images must form the rotation group of order 3 (M1^2 = M2, M2^2 = M1, M1.M2 = I)")
    centre = next((n for n in f.node.body if isinstance(n, ast.If) and norm(n.test) == "i == 0 and j == 0"), None)
    r.require(centre is not None and norm(centre.body[0]) == "return []" and centre.lineno < st.stmt.lineno, "centre-has-no-images", f, msg="the centre cell is its own orbit")
    r.require(any(norm(s) == "i, j = indices[:2]" for s in f.node.body), "index-order", f, msg="(i, j) are the first two indices")
    g = idx.method(HEX, "getSymmetricEquivalents")
    ch = if_chain(g.node)
    ok = len(ch) == 3 and norm(ch[0][0][-1][0]) == "self.symmetry.domain == geometry.DomainType.THIRD_CORE and self.symmetry.boundary == geometry.BoundaryType.PERIODIC" and norm(ch[0][1][0]) == "return self._getSymmetricIdenticalsThird(indices)" \
        and norm(ch[1][0][-1][0]) == "self.symmetry.domain == geometry.DomainType.FULL_CORE" and norm(ch[1][1][0]) == "return []" and any(isinstance(x, ast.Raise) for x in ch[2][1])
    r.require(ok, "dispatch", g, msg="third-core periodic -> the two images; full core -> none; anything else raises")
    ld = idx.method(HEX, "locatorInDomain")
    r.require("return self.isInFirstThird(locator, includeTopEdge=symmetryOverlap)" in norm(ld.node), "locatorInDomain", ld, msg="third-core domain membership is isInFirstThird with the overlap flag")


def r2_rotate_index(idx, r):
    U = unit_steps(idx)
    f = idx.method(HEX, "rotateIndex")
    buf = next((s for s in iter_stores(f.node) if s.attr == "buffer"), None)
    if buf is None or norm(buf.value) != "deque((i, j, -(i + j)))":
        raise AnalysisError(f"rotateIndex: cube-coordinate buffer not found ({norm(buf.value) if buf else None})")
    rotc = next((c for c in iter_calls(f.node) if norm(c.func) == "buffer.rotate"), None)
    if rotc is None or norm(rotc.args[0]) not in ("-rotations", "rotations"):
        raise AnalysisError("rotateIndex: buffer.rotate(+-rotations) expected")
    sgn = -1 if norm(rotc.args[0]) == "-rotations" else 1
    par = next((n for n in walk_local(f.node) if isinstance(n, ast.If) and isinstance(n.test, ast.BinOp) and isinstance(n.test.op, ast.Mod) and norm(n.test.left) == "rotations"
                and isinstance(n.test.right, ast.Constant)), None)
    neg = par is not None and sorted(norm(s) for s in par.body) == ["newI *= -1", "newJ *= -1"]
    modulus = par.test.right.value if par is not None else 2
    # the axial index first (independent of how the in-plane part is spelled): what IndexLocation receives as k must be the caller's k
    envk = dict(single_assign_env(f.node))
    for st_ in walk_local(f.node):
        if isinstance(st_, ast.Assign) and len(st_.targets) == 1 and isinstance(st_.targets[0], ast.Tuple) and isinstance(st_.value, ast.Tuple) and len(st_.targets[0].elts) == len(st_.value.elts):
            for t_, v_ in zip(st_.targets[0].elts, st_.value.elts):
                if isinstance(t_, ast.Name):
                    envk[t_.id] = v_
    for rt in [n for n in walk_local(f.node) if isinstance(n, ast.Return) and isinstance(n.value, ast.Call) and (dotted(n.value.func) or "").endswith("IndexLocation") and len(n.value.args) >= 3]:
        k3 = propagate(rt.value.args[2], {a: b for a, b in envk.items() if a != "k"})
        arith = any(isinstance(x, (ast.BinOp, ast.UnaryOp, ast.IfExp)) for x in ast.walk(k3))
        if norm(k3) in ("k", "int(k)", "loc[2]", "loc.k"):
            r.ok("axial-index-unchanged", f, node=rt)
        elif arith:
            r.violate("axial-index-unchanged", f, f"the rotated location's axial index is `{norm(k3)}`: a rotation about the axis must leave k alone (an odd number of steps would mirror the cell axially)", node=rt)
        else:
            raise AnalysisError(f"rotateIndex: axial index `{norm(k3)}` not understood")
    sel = {s.attr: norm(s.value) for s in iter_stores(f.node) if s.attr in ("newI", "newJ") and s.kind == "assign"}
    if sel != {"newI": "buffer[0]", "newJ": "buffer[1]"} or not neg:
        raise AnalysisError(f"rotateIndex: selection/parity shape not recognised ({sel}, parity block {neg})")
    cube = [I, J, -(I + J)]

    def M_of(k):
        # deque.rotate(n): element at position p moves to position p+n (mod 3)
        n = sgn * k
        out = [None, None, None]
        for p in range(3):
            out[(p + n) % 3] = cube[p]
        ni, nj = out[0], out[1]
        if k % modulus:
            ni, nj = -ni, -nj
        M, off = _lin([ni, nj], None)
        return M
    Ms = [M_of(k) for k in range(0, 7)]
    for cu, Um in U.items():
        tag = "cornersUp" if cu else "flatsUp"
        for k in range(1, 6):
            r.require(mat_eq(matmul(Um, Ms[k]), matmul(rot(k), Um)), f"{tag}:rotate{k}=+{60 * k}deg", f, node=rotc,
                      msg=f"rotating an index by {k} steps does not rotate its coordinates by +{60 * k} degrees (counter-clockwise) for {tag} grids")
    ident = Ms[0]
    r.require(mat_eq(Ms[6], ident), "six-steps-identity", f, msg="six sixty-degree steps must be the identity")
    r.require(all(mat_eq(matmul(Ms[a], Ms[b]), Ms[(a + b) % 6]) for a in range(6) for b in range(6)), "additive", f, msg="index rotations must compose additively")
    # the code depends on `rotations` only through deque.rotate on a length-3 buffer and rotations % 2: period lcm(3,2) = 6
    uses = {norm(n) for n in ast.walk(f.node) if isinstance(n, ast.Name) and n.id == "rotations"}
    others = [norm(p) for p in (n for n in ast.walk(f.node) if isinstance(n, (ast.BinOp, ast.UnaryOp, ast.Call)) and any(isinstance(x, ast.Name) and x.id == "rotations" for x in ast.iter_child_nodes(n)))]
    r.require(sorted(others) in (["-rotations", "rotations % 2"], ["rotations % 2"]), "period-6", f, msg=f"`rotations` may enter only through buffer.rotate and `% 2` (period lcm(3,2) = 6): {others}")
    ret = next((n for n in walk_local(f.node) if isinstance(n, ast.Return)), None)
    r.require(norm(ret.value) == "IndexLocation(newI, newJ, k, loc.grid)", "k-and-grid-preserved", f, node=ret, msg="the axial index and the grid are unchanged")
    r.require(any(isinstance(n, ast.Raise) for n in walk_local(f.node)) and "self._roughlyEqual(loc.grid) or loc.grid is None" in norm(f.node), "foreign-grid-refused", f, msg="an index of an inconsistent grid must be refused")
    # ring preserved: M_k maps the hex norm max(|i|,|j|,|i+j|) to itself because it permutes (i, j, -(i+j)) up to a global sign - by construction of M_of


def r3_cartesian(idx, r):
    f = idx.method("armi.reactor.grids.cartesian.CartesianGrid", "getSymmetricEquivalents")
    E = ExprEval(env={"i": I, "j": J}, opaque=False)
    rets = [n for n in walk_local(f.node) if isinstance(n, ast.Return) and isinstance(n.value, ast.List)]
    if len(rets) < 9:
        raise AnalysisError(f"Cartesian getSymmetricEquivalents: {len(rets)} list leaves found")
    for n in rets:
        conds = [(norm(t), p) for t, p in path_conditions(f.node, n)]
        ctx = {t: p for t, p in conds}
        if ctx.get("symmetry.domain == geometry.DomainType.FULL_CORE") is True:
            r.require(norm(n.value) == "[]", "full-core:no-images", f, node=n, msg="full core has no symmetric equivalents")
            continue
        if ctx.get("symmetry.domain == geometry.DomainType.QUARTER_CORE") is not True:
            continue
        through = ctx.get("symmetry.isThroughCenterAssembly")
        rotational = ctx.get("isRotational")
        if through is None:
            raise AnalysisError("leaf without through-centre context")
        subs = {}
        if ctx.get("i == 0 and j == 0"):
            subs = {"i": Poly.const(0), "j": Poly.const(0)}
        elif ctx.get("i == 0"):
            subs = {"i": Poly.const(0)}
        elif ctx.get("j == 0"):
            subs = {"j": Poly.const(0)}
        delta = Poly.const(0) if through else Poly.const(Q3(F(1, 2)))
        centre = [I.subs(subs) + delta, J.subs(subs) + delta]
        if rotational is None and norm(n.value) == "[]":
            r.require(bool(subs) and centre[0].iszero() and centre[1].iszero(), "centre:no-images", f, node=n, msg="only the centre cell of a through-centre grid is its own orbit")
            continue
        if rotational is None:
            raise AnalysisError("leaf without boundary-type context")
        group = [rot90(1), rot90(2), rot90(3)] if rotational else [[[Poly.const(-1), Poly.const(0)], [Poly.const(0), Poly.const(1)]], [[Poly.const(-1), Poly.const(0)], [Poly.const(0), Poly.const(-1)]],
                                                                   [[Poly.const(1), Poly.const(0)], [Poly.const(0), Poly.const(-1)]]]
        want = set()
        for g in group:
            img = matvec(g, centre)
            if img[0] == centre[0] and img[1] == centre[1]:
                continue  # on a symmetry line: image coincides with the cell
            want.add((repr(img[0] - delta), repr(img[1] - delta)))
        got = set()
        for t in n.value.elts:
            a, b = E.ev(t.elts[0]).subs(subs), E.ev(t.elts[1]).subs(subs)
            got.add((repr(a), repr(b)))
        key = f"quarter:{'through' if through else 'offset'}:{'periodic' if rotational else 'reflective'}:{'/'.join(k for k in ('i == 0 and j == 0', 'i == 0', 'j == 0') if ctx.get(k)) or 'general'}"
        r.require(got == want and len(n.value.elts) == len(want), key, f, node=n,
                  msg=f"`{norm(n.value)}` must be exactly the non-identity images of the cell centre under {'90-degree rotations' if rotational else 'the axis reflections'}: got {sorted(got)}, geometry says {sorted(want)}")
    ld = idx.method("armi.reactor.grids.cartesian.CartesianGrid", "locatorInDomain")
    r.require("return locator.i >= 0 and locator.j >= 0" in norm(ld.node), "quarter-domain", ld, msg="the quarter-core domain is i >= 0 and j >= 0")
    r.require(sum(1 for n in walk_local(f.node) if isinstance(n, ast.Raise)) >= 2, "unsupported-symmetries-raise", f, msg="unsupported symmetry conditions must raise")


def displacement_rotation(idx, r):
    """the displacement vector of a rotated block turns with the same counter-clockwise matrix, by the angle of THIS rotation (shared with C13)"""
    dp = idx.method("armi.reactor.blocks.HexBlock", "_rotateDisplacement")
    sx = {s.attr: s.value for s in iter_stores(dp.node) if s.chain in ("self.p.displacementX", "self.p.displacementY")}
    E = ExprEval(env={"dispx": Poly.atom("x"), "dispy": Poly.atom("y")}, calls=lambda n, ev: Poly.atom(dotted(n.func).split(".")[-1]) if dotted(n.func) in ("math.cos", "math.sin") and norm(n.args[0]) == dp.params()[1] else None, opaque=False)
    X, Y, C, S = Poly.atom("x"), Poly.atom("y"), Poly.atom("cos"), Poly.atom("sin")
    okd = "displacementX" in sx and "displacementY" in sx and E.ev(sx["displacementX"]) == X * C - Y * S and E.ev(sx["displacementY"]) == X * S + Y * C
    r.require(okd, "displacement:same-ccw-rotation", dp, msg="the displacement vector rotates with the same counter-clockwise matrix")
    ang = dp.params()[1]
    rebound = [s_ for s_ in iter_stores(dp.node) if isinstance(s_.node, ast.Name) and s_.attr == ang]
    r.require(not rebound, "displacement:angle-is-this-rotation", dp, node=rebound[0].stmt if rebound else None,
              msg=f"the angle applied to the displacement is re-assigned (`{norm(rebound[0].stmt) if rebound else ang}`) instead of being the angle of THIS rotation: from the second rotation of a block on, the displacement turns by the accumulated orientation, not by the step")
    hb = idx.method("armi.reactor.blocks.HexBlock", "rotate")
    cd = [c for c in iter_calls(hb.node) if dotted(c.func) == "self._rotateDisplacement"]
    r.require(len(cd) == 1 and len(cd[0].args) == 1 and norm(cd[0].args[0]) == hb.params()[1], "displacement:called-with-this-rotation", hb, node=cd[0] if cd else None,
              msg="HexBlock.rotate hands its own angle to _rotateDisplacement")


def r4_block_rotation(idx, r):
    rt = idx.method("armi.reactor.blocks.HexBlock", "rotate")
    rn = [s for s in iter_stores(rt.node) if s.attr == "rotNum"]
    r.require(len(rn) == 1 and norm(rn[0].value) == "round(rad % (2 * math.pi) / math.radians(60))", "rotNum-from-angle", rt, msg="the number of 60-degree steps is derived once from the angle")
    calls = [norm(c) for c in iter_calls(rt.node) if (dotted(c.func) or "").startswith("self._rotate")]
    r.require(calls == ["self._rotateChildLocations(rad, rotNum)", "self._rotateBoundaryParameters(rotNum)", "self._rotateDisplacement(rad)"], "helpers-share-angle", rt, msg=f"children, boundary data and displacement rotate by the same angle/steps: {calls}")
    ori = next((n for n in walk_local(rt.node) if isinstance(n, ast.AugAssign) and norm(n.target) == "self.p.orientation[2]"), None)
    r.require(ori is not None and isinstance(ori.op, ast.Add) and norm(ori.value) in ("rotNum * 60", "60 * rotNum"), "orientation-advances", rt, node=ori, msg="the orientation advances by rotNum x 60 degrees")
    cl = idx.method("armi.reactor.blocks.HexBlock", "_rotateChildLocations")
    env = single_assign_env(cl.node)
    rm = env.get("rotationMatrix")
    okm = rm is not None and norm(rm) == "np.array([[math.cos(radians), -math.sin(radians)], [math.sin(radians), math.cos(radians)]])"
    r.require(okm, "child:ccw-matrix", cl, msg="free coordinates rotate with the counter-clockwise matrix [[cos,-sin],[sin,cos]] of the same angle")
    xy = [s for s in iter_stores(cl.node) if s.attr == "newXY"]
    r.require(len(xy) == 1 and norm(xy[0].value) == "rotationMatrix.dot(oldCoords[:2])", "child:matrix-applied-from-left", cl, node=xy[0].stmt if xy else None,
              msg="new (x, y) = R . old (x, y); `old @ R` would be the transposed (clockwise) rotation")
    lr = env.get("locationRotator")
    r.require(lr is not None and norm(lr) == "functools.partial(self.spatialGrid.rotateIndex, rotations=rotNum)", "child:index-rotation-same-steps", cl, msg="index locators rotate through the grid's rotateIndex with the same number of steps")
    ch = if_chain(cl.node.body[1:] if isinstance(cl.node.body[0], ast.Expr) else cl.node.body)
    loop = next((n for n in cl.node.body if isinstance(n, ast.For)), None)
    ch = if_chain(loop.body)
    kinds = [norm(c[0][-1][0]) for c in ch]
    okk = kinds[:3] == ["isinstance(c.spatialLocator, grids.MultiIndexLocation)", "isinstance(c.spatialLocator, grids.CoordinateLocation)", "isinstance(c.spatialLocator, grids.IndexLocation)"] and any(isinstance(x, ast.Raise) for x in ch[-1][1])
    r.require(okk, "child:dispatch", cl, msg=f"multi-index before index locators (a subclass), unknown locator types raise: {kinds}")
    multi = ch[0][1]
    txt = [norm(s) for s in multi]
    r.require(txt == ["newLocations = list(map(locationRotator, c.spatialLocator))", "c.spatialLocator = grids.MultiIndexLocation(self.spatialGrid)", "c.spatialLocator.extend(newLocations)"], "child:every-sub-location", cl,
              msg="every sub-location of a multi-index locator rotates and the locator is rebuilt on the same grid")
    nl = next((s for s in iter_stores(cl.node) if s.attr == "newLocation"), None)
    r.require(nl is not None and norm(nl.value) == "grids.CoordinateLocation(newXY[0], newXY[1], oldCoords[2], self.spatialGrid)", "child:z-kept", cl, msg="the axial coordinate of a free location is kept")
    bp = idx.method("armi.reactor.blocks.HexBlock", "_rotateBoundaryParameters")
    pv = [c for c in iter_calls(bp.node) if dotted(c.func) == "iterables.pivot"]
    r.require(len(pv) == 1 and [norm(a) for a in pv[0].args] == ["original", "-rotNum"], "boundary:pivot-by-minus-steps", bp, node=pv[0] if pv else None,
              msg="corner/edge m receives the datum of corner m - rotNum: pivot(x, -rotNum)")
    conds = [norm(t) for t, p in path_conditions(bp.node, pv[0]) if p] if pv else []
    r.require(conds == ["isinstance(original, (list, np.ndarray))", "len(original) == 6"], "boundary:only-six-entry-data", bp, msg=f"only per-corner/per-edge data of length six is pivoted: {conds}")
    nm = [norm(s.value) for s in iter_stores(bp.node) if s.attr == "names" and s.value is not None and s.kind == "assign"]
    aug = [norm(n.value) for n in walk_local(bp.node) if isinstance(n, ast.AugAssign) and norm(n.target) == "names"]
    r.require(nm == ["self.p.paramDefs.atLocation(ParamLocation.CORNERS).names"] and aug == ["self.p.paramDefs.atLocation(ParamLocation.EDGES).names"], "boundary:corners-and-edges", bp, msg="both CORNERS and EDGES parameters are rotated")
    pf = idx.func("armi.utils.iterables.pivot")
    leaves = {norm(c[0][-1][0]): norm(c[1][0]) for c in if_chain(pf.node) if c[0][-1][1]}
    r.require(leaves == {"isinstance(items, np.ndarray)": "return np.concatenate((items[position:], items[:position]))", "isinstance(items, list)": "return items[position:] + items[:position]"}, "pivot:first-axis", pf,
              msg=f"pivot moves the first `position` entries (rows) to the end for lists and arrays alike: {leaves}")
    displacement_rotation(idx, r)
    dp = idx.method("armi.reactor.blocks.HexBlock", "_rotateDisplacement")
    ha = idx.method("armi.reactor.assemblies.HexAssembly", "rotate")
    r.require("return super().rotate(rad)" in norm(ha.node) and any(isinstance(n, ast.Raise) for n in walk_local(ha.node)) and "rad % (math.pi / 3)" in norm(ha.node), "assembly:sixty-degree-steps-only", ha, msg="assemblies rotate in 60-degree increments only")
    ar = idx.method("armi.reactor.assemblies.Assembly", "rotate")
    loop = next((n for n in ar.node.body if isinstance(n, ast.For)), None)
    r.require(loop is not None and norm(loop.iter) == "self" and norm(loop.body[0]) == f"{norm(loop.target)}.rotate(rad)" and len(loop.body) == 1, "assembly:every-block-same-angle", ar, msg="every block rotates by the same angle")
    # TRIANGLES_IN_HEXAGON rows are successive +60 degree rotations
    m = idx.module("armi.reactor.grids.hexagonal")
    tri = m.consts.get("TRIANGLES_IN_HEXAGON")
    consts = {}
    for nme in ("COS30", "SIN30"):
        if nme in m.consts:
            consts[nme] = ExprEval(opaque=False).ev(m.consts[nme])
    rows = tri.args[0].elts if isinstance(tri, ast.Call) else []
    Ec = ExprEval(consts=consts, opaque=False)
    pts = [[Ec.ev(t.elts[0]), Ec.ev(t.elts[1])] for t in rows]
    okt = len(pts) == 6 and all((lambda v, w: v[0] == w[0] and v[1] == w[1])(matvec(rot(1), pts[k]), pts[(k + 1) % 6]) for k in range(6))
    r.require(okt, "triangle-centres:ccw-60", (m.relpath, tri.lineno), msg="the six triangle centres must be successive +60 degree rotations of the first")


def r5_symmetry_lines(idx, r):
    U = unit_steps(idx)[False]
    f = idx.method(HEX, "overlapsWhichSymmetryLine")
    ch = if_chain(f.node)
    m = idx.module("armi.reactor.grids.hexagonal")
    want_dir = {"BOUNDARY_0_DEGREES": 0, "BOUNDARY_60_DEGREES": 1, "BOUNDARY_120_DEGREES": 2}
    seen = []
    for conds, blk in ch:
        leaf = norm(blk[0].value) if isinstance(blk[0], ast.Assign) else None
        t, pol = conds[-1]
        if leaf == "BOUNDARY_CENTER":
            r.require(norm(t) == "i == 0 and j == 0" and len(conds) == 1, "centre-first", f, node=t, msg="the centre test must come first")
            continue
        if leaf in want_dir:
            seen.append(leaf)
            parts = t.values if isinstance(t, ast.BoolOp) and isinstance(t.op, ast.And) else [t]
            eq = [p for p in parts if isinstance(p, ast.Compare) and isinstance(p.ops[0], ast.Eq)]
            sg = [p for p in parts if isinstance(p, ast.Compare) and isinstance(p.ops[0], (ast.Gt, ast.Lt, ast.GtE, ast.LtE))]
            if len(eq) == 1 and not sg and len(parts) == 1:
                r.violate(f"{leaf}:ray", f, f"guard `{norm(t)}` has no sign condition: it selects the whole line through the centre, i.e. also the cells on the opposite ray "
                          f"({60 * want_dir[leaf] + 180} degrees), which lie on no symmetry line of the third-core view", node=t)
                continue
            if len(eq) != 1 or not sg:
                raise AnalysisError(f"symmetry-line guard `{norm(t)}` outside fragment")
            E = ExprEval(env={"i": I, "j": J}, opaque=False)
            # solve the equality for a direction vector (i, j) = s * d, s > 0 chosen by the sign guards
            d = E.ev(eq[0].left) - E.ev(eq[0].comparators[0])
            a, b = d.coeff("i", 1).const_value(), d.coeff("j", 1).const_value()
            # a*i + b*j = 0  ->  direction (b, -a) or (-b, a)
            cands = [(Poly.const(b), Poly.const(-a)), (Poly.const(-b), Poly.const(a))]
            dirv = None
            for ci, cj in cands:
                ok = True
                for g in sg:
                    v = (E.ev(g.left) - E.ev(g.comparators[0])).subs({"i": ci, "j": cj}).const_value()
                    sv = v.sign() if v is not None else None
                    ok = ok and sv is not None and {ast.Gt: sv > 0, ast.Lt: sv < 0, ast.GtE: sv >= 0, ast.LtE: sv <= 0}[type(g.ops[0])]
                if ok:
                    dirv = (ci, cj)
            if dirv is None:
                r.violate(f"{leaf}:ray", f, f"guard `{norm(t)}` selects no ray", node=t)
                continue
            xy = matvec(U, [dirv[0], dirv[1]])
            k = want_dir[leaf]
            # direction must be a positive multiple of (cos 60k, sin 60k)
            ref = matvec(rot(k), [Poly.const(1), Poly.const(0)])
            cross = xy[0] * ref[1] - xy[1] * ref[0]
            dot = (xy[0] * ref[0] + xy[1] * ref[1]).coeff("pitch", 1).const_value()
            r.require(cross.iszero() and dot is not None and dot.sign() > 0, f"{leaf}:direction", f, node=t,
                      msg=f"cells selected by `{norm(t)}` lie along direction {xy}, not on the {60 * k}-degree ray")
    r.require(sorted(seen) == sorted(want_dir), "three-lines", f, msg=f"the 0, 60 and 120 degree lines are classified: {seen}")
    last = ch[-1]
    r.require(isinstance(last[1][0], ast.Assign) and norm(last[1][0].value) == "None" and all(not p_ for _t, p_ in last[0]), "otherwise-none", f, msg="cells on no symmetry line are classified None")


def r6_first_third(idx, r):
    f = idx.method(HEX, "isInFirstThird")
    E = ExprEval(env={"ring": Poly.atom("r"), "maxPosTotal": Poly.atom("n")}, opaque=True)
    st = {s.attr: s for s in iter_stores(f.node) if s.kind == "assign" and s.attr in ("maxPos1", "maxPos2", "maxPosTotal")}
    r.require(norm(st["maxPosTotal"].value) == "self.getPositionsInRing(ring)", "uses-ring-size", f, msg="the ring size comes from getPositionsInRing")
    r.require(norm(st["maxPos1"].value) == "ring + ring // 2 - 1" and norm(st["maxPos2"].value) == "maxPosTotal - ring // 2 + 1", "base-bounds", f, msg="base bounds of the first third")
    adj = {norm(n.target): [(norm(t), p) for t, p in path_conditions(f.node, n)] for n in walk_local(f.node) if isinstance(n, ast.AugAssign)}
    want = {"maxPos1": [("ring == 1", False), ("ring % 2", True), ("includeTopEdge", True)], "maxPos2": [("ring == 1", False), ("ring % 2", False)]}
    r.require(adj == want, "parity-adjustments", f, msg=f"the top-edge adjustment applies to ODD rings only and only when requested; the lower bound moves for EVEN rings: {adj}")
    ret = [n for n in walk_local(f.node) if isinstance(n, ast.Return)]
    r.require(norm(ret[-1].value) == "bool(pos <= maxPos1 or pos >= maxPos2)" and norm(ret[0].value) == "True", "membership", f, msg="in the first third iff pos <= maxPos1 or pos >= maxPos2 (ring 1 always)")


def r7_rotation_number(idx, r):
    """The orientation angle accumulates without wrapping (rotate adds rotNum*60 each time), so the number of
    60-degree steps read back from it must be reduced modulo 6: six steps are the identity. Getter and setter are
    inverse on 0..5: get = rint(angle / 60) mod 6, set: angle = 60 * k."""
    g = idx.method("armi.reactor.blocks.HexBlock", "getRotationNum")
    st_ = idx.method("armi.reactor.blocks.HexBlock", "setRotationNum")
    if g is None or st_ is None:
        raise AnchorMissing("HexBlock.getRotationNum / setRotationNum")
    rets = [x for x in walk_local(g.node) if isinstance(x, ast.Return) and x.value is not None]
    if len(rets) != 1:
        raise AnalysisError("getRotationNum: expected a single return")
    v = rets[0].value
    while isinstance(v, ast.Call) and dotted(v.func) in ("int", "float") and len(v.args) == 1:
        v = v.args[0]
    is_mod6 = isinstance(v, ast.BinOp) and isinstance(v.op, ast.Mod) and isinstance(v.right, ast.Constant) and v.right.value == 6
    r.require(is_mod6, "getRotationNum:mod-6", g, node=rets[0],
              msg=f"`{norm(rets[0].value)[:70]}` is not reduced modulo 6: after rotations adding up to 360 degrees or more the step count is 6, 7, ... instead of 0, 1, ... "
                  "(six steps are no longer the identity, and per-corner data moved by k mod 6 disagrees with the reported k)")
    inner = v.left if is_mod6 else v
    if isinstance(inner, ast.Call) and (dotted(inner.func) or "").split(".")[-1] in ("rint", "round") and inner.args:
        E = RatEval()
        got = E.ev(inner.args[0])
        ang = sorted(got.n.atoms())
        want_ok = len(ang) == 1 and got == Rat(Poly.atom(ang[0]), Poly.const(60)) and "orientation[2]" in ang[0]
        r.require(want_ok, "getRotationNum:angle/60", g, node=inner, msg=f"the step count must be orientation[2] / 60 rounded; the argument evaluates to {got}")
    else:
        r.undecided("getRotationNum:angle/60", g, f"rounding form `{norm(inner)[:60]}` not recognised", node=inner)
    sto = [x for x in iter_stores(st_.node) if "orientation" in (x.chain or norm(x.node))]
    if len(sto) != 1:
        raise AnalysisError("setRotationNum: expected one store into the orientation")
    E = RatEval()
    got = E.ev(sto[0].value)
    p = [q for q in st_.params() if q != "self"][0]
    r.require(got == Rat(Poly.const(60) * Poly.atom(p), Poly.const(1)), "setRotationNum:60k", st_, node=sto[0].stmt, msg=f"setRotationNum must store 60 x {p} degrees; it stores {got}")


def r8_sixty_degree_guard(idx, r):
    """HexAssembly.rotate accepts multiples of 60 degrees. With floats, `rad % step` of an exact multiple is either just
    above 0 or just BELOW step (e.g. -pi, 5*(pi/3)); a test that only compares the remainder with 0 refuses those
    multiples. The guard must treat both ends (remainder near 0 or near the step), or round the quotient."""
    f = idx.method("armi.reactor.assemblies.HexAssembly", "rotate")
    if f is None:
        raise AnchorMissing("HexAssembly.rotate")
    env = single_assign_env(f.node)
    guards = []
    for n in walk_local(f.node):
        if isinstance(n, ast.If):
            from types import SimpleNamespace
            guards.append(SimpleNamespace(test=propagate(n.test, env), node=n))
    mods = [x for g in guards for x in ast.walk(g.test) if isinstance(x, ast.BinOp) and isinstance(x.op, ast.Mod)]
    if not mods:
        rq = any(isinstance(x, ast.Call) and dotted(x.func) in ("round", "np.rint", "np.round") for g in guards for x in ast.walk(g.test))
        if rq:
            r.ok("guard:two-sided", f, msg="quotient rounded")
            return
        raise AnalysisError("HexAssembly.rotate: no modulo / rounding test of the angle found")
    g = next(g for g in guards if any(x in list(ast.walk(g.test)) for x in mods))
    step = norm(mods[0].right)
    closes = [c for c in ast.walk(g.test) if isinstance(c, ast.Call) and dotted(c.func) in ("math.isclose", "np.isclose", "isclose")]
    zero_side = any(len(c.args) >= 2 and isinstance(c.args[1], ast.Constant) and c.args[1].value in (0, 0.0) for c in closes)
    other_side = any(len(c.args) >= 2 and norm(c.args[1]) == step for c in closes) or any(isinstance(x, ast.BinOp) and isinstance(x.op, ast.Sub) and norm(x.left) == step for x in ast.walk(g.test)) \
        or any(isinstance(x, ast.Call) and dotted(x.func) == "min" for x in ast.walk(g.test))
    r.require(not zero_side or other_side, "guard:two-sided", f, node=g.node.test,
              msg=f"`{norm(g.test)[:80]}` accepts a rotation only when the floating remainder is near 0; for many exact multiples of the step (-pi, 5*(pi/3), radians(-300)) "
                  f"the remainder is just below `{step}` instead, and the rotation is refused")


def at_location_rule(idx, r):
    """Parameter.atLocation(loc) is EVALUATED for every location word 0..7 of the definition and every queried word 1..7: it is true exactly
    when the two overlap.  (A subset test would exclude compound locations such as TOP|CORNERS from the corner data that HexBlock.rotate
    turns.)  Shared with R11.2 / R13.9."""
    from ..minieval import MiniEval as _ME

    class MiniEval(_ME):
        """location words are enum.Flag values: `a in b` is containment, (a & b) == a"""
        def _ev(self, e, env):
            if isinstance(e, ast.Compare) and len(e.ops) == 1 and isinstance(e.ops[0], (ast.In, ast.NotIn)):
                a, b = self._ev(e.left, env), self._ev(e.comparators[0], env)
                if isinstance(a, int) and isinstance(b, int) and not isinstance(a, bool) and not isinstance(b, bool):
                    return ((a & b) == a) == isinstance(e.ops[0], ast.In)
            return super()._ev(e, env)
    at = idx.method("armi.reactor.parameters.parameterDefinitions.Parameter", "atLocation")
    q = at.params()[1]
    bad = []
    for location in range(8):
        for loc in range(1, 8):
            v, _ = MiniEval().run(at.node, {"self.location": location, q: loc})
            if bool(v) != bool(location & loc):
                bad.append((location, loc, bool(v)))
    r.require(not bad, "Parameter.atLocation:true-iff-the-locations-overlap", at,
              msg=f"(definition's location word, queried word, answer) = {bad[:4]}: a parameter defined at a compound location is not found at its parts (or one defined nowhere is found)")


def r9_shared_sites(idx, r):
    """Sites other properties also depend on, decided here for the symmetry property itself: (a) which boundary data follow a rotation is
    decided by Parameter.atLocation (evaluated); (b) a grid keeps its offset through reduce() unless all of it is zero - a quarter-core
    Cartesian grid without centre cell is offset by half a pitch, and its symmetric images are computed with that offset (R07.10);
    (c) only the 0- and 120-degree lines bound a third core (R13.9)."""
    from .c07 import r10_reduce_keeps_offset
    from .c13 import bounding_lines_rule
    at_location_rule(idx, r)
    r10_reduce_keeps_offset(idx, r)
    bounding_lines_rule(idx, r)


def r11_cartesian_cut_and_cached_positions(idx, r):
    """(a) CartesianBlock.getSymmetryFactor is EVALUATED (MiniEval) on the cells (i, j) in {-1, 0, 1, 2}^2 of a through-centre quarter core:
    4 for the centre cell, 2 for a cell on EITHER axis, 1 elsewhere - and 1 everywhere when the symmetry lines run between cells.  A cell on
    the i-axis and its image on the j-axis are cut alike.  (b) HexBlock.rotate moves the locators of the children without clearing the
    block's cache: a Block method that caches anything computed from locators or coordinates keeps answering with the pre-rotation
    positions."""
    from ..minieval import MiniEval
    f = idx.method("armi.reactor.blocks.CartesianBlock", "getSymmetryFactor")
    bad = []
    for through in (True, False):
        for i in (-1, 0, 1, 2):
            for j in (-1, 0, 1, 2):
                def hook(call, args, i=i, j=j):
                    if call_attr(call) == "getCompleteIndices":
                        return (i, j, 0)
                    return None
                got, _ = MiniEval(call_hook=hook).run(f.node, {"self.core": 1, "self.core.symmetry.isThroughCenterAssembly": through})
                want = 1.0 if not through else (4.0 if (i, j) == (0, 0) else (2.0 if 0 in (i, j) else 1.0))
                if got != want:
                    bad.append(((i, j), through, got, want))
    r.require(not bad, "CartesianBlock.getSymmetryFactor:axes-cut-alike", f,
              msg=f"((i, j), through-centre, factor, expected) = {bad[:3]}: cells on one of the two symmetry axes are not halved, so a cell and its image on the other axis are classified differently")
    blk = idx.cls("armi.reactor.blocks.Block")
    rot = idx.method("armi.reactor.blocks.HexBlock", "rotate")
    clears = any(call_attr(c) == "clearCache" for c in iter_calls(rot.node))
    POS = {"getPinLocations", "getLocalCoordinates", "getGlobalCoordinates", "getCompleteIndices", "getPinCoordinates", "getLocations"}
    n = 0
    for c in [blk] + idx.subclasses(blk):
        for m_ in c.methods.values():
            sets = [x for x in iter_calls(m_.node) if dotted(x.func) == "self._setCache"]
            if not sets:
                continue
            n += 1
            pos = any(call_attr(x) in POS for x in iter_calls(m_.node)) or any(isinstance(x, ast.Attribute) and x.attr == "spatialLocator" for x in walk_local(m_.node))
            r.require(clears or not pos, f"{c.name}.{m_.name}:no-cached-positions", m_, node=sets[0],
                      msg=f"{c.name}.{m_.name} caches a value computed from locators/coordinates, and HexBlock.rotate does not clear the cache: after a rotation the block reports the positions from before it")
    if n < 1:
        raise AnchorMissing("cache-filling methods of Block")


def r10_pairing(idx, r):
    from ..pairing import pairing_rule
    pairing_rule(idx, r, ["armi.reactor.grids", "armi.reactor.blocks", "armi.reactor.assemblies", "armi.utils.hexagon", "armi.utils.iterables"], 100)


def r_borrowed_r08_12(idx, r):
    """clauses of C07/C13 the symmetry answers rest on: a Cartesian grid keeps its half-pitch offset through changePitch and fromRectangle (R07.1); the n-th image is rotated by n times the angle (R13.1)"""
    from ..report import Only
    from .c07 import r1_lattice_vectors
    from .c13 import r1_pairing
    r1_lattice_vectors(idx, Only(r, ["CartesianGrid."]))
    r1_pairing(idx, Only(r, ["convert:nth-image"]))


def r13_marker_case_flag_union_axial_only(idx, r):
    """(a) SymmetryType.fromStr works on the lower-cased string throughout: the through-centre marker is looked for in that string too
    (`Quarter Periodic Through Center` is the same symmetry as its lower-case spelling).  (b) a parameter location that names two places is
    their UNION (`TOP | CORNERS`); the intersection of two distinct location flags is empty, the parameter silently becomes a block-average
    one and HexBlock.rotate no longer turns it.  (c) a one-cell axial grid is axial-only (clause of R07.2): the block of a single-block
    assembly takes its (i, j) from the assembly."""
    from ..report import Only
    from .c07 import r2_affine
    f = idx.method("armi.reactor.geometry.SymmetryType", "fromStr")
    calls = [c for c in iter_calls(f.node) if call_attr(c) == "_checkIfThroughCenter"]
    if len(calls) != 1:
        raise AnchorMissing("SymmetryType.fromStr: _checkIfThroughCenter")
    env = single_assign_env(f.node)
    a = propagate(calls[0].args[0], env)
    r.require(".lower()" in norm(a), "fromStr:marker-looked-for-in-the-lower-cased-string", f, node=calls[0],
              msg=f"the through-centre marker is looked for in `{norm(calls[0].args[0])}`, not in the lower-cased string: a capitalised spelling gives the no-centre-cell variant and the symmetric images are off by half a pitch")
    n = 0
    for m in idx.modules.values():
        if ".tests" in m.name or not m.name.startswith("armi."):
            continue
        for x in ast.walk(m.tree):
            if isinstance(x, ast.BinOp) and isinstance(x.op, (ast.BitAnd, ast.BitOr)) and all(isinstance(e, ast.Attribute) and norm(e.value).endswith("ParamLocation") for e in (x.left, x.right)):
                n += 1
                r.require(isinstance(x.op, ast.BitOr) or norm(x.left) == norm(x.right), f"{m.relpath}:{norm(x)}:locations-combined-by-union", (m.relpath, x.lineno, ""),
                          msg=f"`{norm(x)}` is the intersection of two different location flags, i.e. no location at all: the parameter is no longer found among the corner/edge data that a block rotation turns")
    if n < 2:
        raise AnchorMissing("combined ParamLocation expressions")
    r2_affine(idx, Only(r, ["StructuredGrid._isAxialOnly"]))


def r14_boundary_data_declared_where_rotation_looks(idx, r):
    """HexBlock._rotateBoundaryParameters chooses the vectors it pivots from the parameter TABLE: the block parameters found at
    ParamLocation.CORNERS and at ParamLocation.EDGES (R08.4 boundary:corners-and-edges, R08.9 atLocation).  So a block parameter that is
    declared - by a word of its public name or of its description - to hold one datum per corner / per edge of the block must have an
    effective location word (`location=` of defParam, else the one of the builder it is defined through: `location or default`) that
    contains CORNERS / EDGES; otherwise a rotation by k steps moves the pins, the other boundary vectors and the orientation but leaves
    this vector where it was.  Family: every defParam of every function that supplies BLOCK parameter definitions (the one Block.pDefs
    is built from, and every function registered under the key `Block` in a parameter-definition dict)."""
    import re
    PL = idx.cls("armi.reactor.parameters.parameterDefinitions.ParamLocation")
    flags = {}
    for nme, v in PL.attrs.items():
        try:
            val = idx.fold(PL.module, v)
        except AnalysisError:
            continue
        if isinstance(val, int) and not isinstance(val, bool):
            flags[nme] = val
    if "CORNERS" not in flags or "EDGES" not in flags:
        raise AnchorMissing("ParamLocation.CORNERS / ParamLocation.EDGES")
    WORDS = {"corner": "CORNERS", "corners": "CORNERS", "edge": "EDGES", "edges": "EDGES"}

    def word_of(m, e):
        """location expression -> flag word (int); None when outside the fragment"""
        if isinstance(e, ast.Attribute) and (dotted(e.value) or "").split(".")[-1] == "ParamLocation" and e.attr in flags:
            return flags[e.attr]
        if isinstance(e, ast.BinOp) and isinstance(e.op, (ast.BitOr, ast.BitAnd, ast.BitXor)):
            a, b = word_of(m, e.left), word_of(m, e.right)
            if a is None or b is None:
                return None
            return a | b if isinstance(e.op, ast.BitOr) else (a & b if isinstance(e.op, ast.BitAnd) else a ^ b)
        if isinstance(e, ast.Constant) and e.value is None:
            return 0
        if isinstance(e, ast.Name) and e.id in m.consts:
            return word_of(m, m.consts[e.id])
        return None

    # which functions supply block parameter definitions
    blk = idx.cls("armi.reactor.blocks.Block")
    pd = blk.attrs.get("pDefs")
    if not (isinstance(pd, ast.Call) and dotted(pd.func)):
        raise AnchorMissing("Block.pDefs = <block parameter definitions>()")
    core_fn = idx.resolve_name(blk.module, dotted(pd.func))
    if not isinstance(core_fn, FuncInfo):
        raise AnchorMissing(f"Block.pDefs: `{dotted(pd.func)}` does not resolve to a function")
    suppliers = {(core_fn.module.name, core_fn.name)}
    for m in idx.modules.values():
        if ".tests" in m.name or not m.name.startswith("armi."):
            continue
        for d in ast.walk(m.tree):
            if not isinstance(d, ast.Dict):
                continue
            for k, v in zip(d.keys, d.values):
                if k is not None and (dotted(k) or "").split(".")[-1] == "Block" and isinstance(v, ast.Call) and isinstance(v.func, ast.Name) and v.func.id in m.functions:
                    suppliers.add((m.name, v.func.id))
    if len(suppliers) < 4:
        raise AnchorMissing(f"functions supplying block parameter definitions: only {sorted(suppliers)}")
    n = 0
    for mname, fname in sorted(suppliers):
        m = idx.module(mname)
        f = m.functions[fname]
        par = m.parents()
        for c in walk_local(f.node):
            if not (isinstance(c, ast.Call) and call_attr(c) == "defParam" and c.args):
                continue
            kw = {k.arg: k.value for k in c.keywords}
            try:
                name = idx.fold(m, c.args[0])
            except AnalysisError:
                continue
            if not isinstance(name, str):
                continue
            desc = kw.get("description", c.args[2] if len(c.args) > 2 else None)
            dtext = " ".join(x.value for x in ast.walk(desc) if isinstance(x, ast.Constant) and isinstance(x.value, str)) if desc is not None else ""
            said = {w.lower() for w in re.findall(r"[A-Z]?[a-z]+|[A-Z]+(?![a-z])", name)} | set(re.findall(r"[a-z]+", dtext.lower()))
            need = sorted({WORDS[w] for w in said if w in WORDS})
            if not need:
                continue
            n += 1
            key = f"{mname.split('.')[-2]}:{name}:declared-at-{'+'.join(need)}"
            own = kw.get("location", c.args[3] if len(c.args) > 3 else None)
            dflt, nd = None, c
            recv = c.func.value.id if isinstance(c.func.value, ast.Name) else None
            while nd in par and dflt is None:
                nd = par[nd]
                if isinstance(nd, ast.With):
                    for it in nd.items:
                        if isinstance(it.context_expr, ast.Call) and call_attr(it.context_expr) == "createBuilder" and isinstance(it.optional_vars, ast.Name) and it.optional_vars.id == recv:
                            dflt = next((k.value for k in it.context_expr.keywords if k.arg == "location"), ast.Constant(value=None))
            wo = word_of(m, own) if own is not None else 0
            wd = word_of(m, dflt) if dflt is not None else None
            if wo is None or (not wo and wd is None):
                r.undecided(key, f, f"location of `{name}` not understood (`{norm(own) if own is not None else None}`, builder default `{norm(dflt) if dflt is not None else None}`)", node=c)
                continue
            word = wo or wd  # defParam: location or self._defaultLocation
            shown = norm(own) if wo else (norm(dflt) if dflt is not None else "None")
            missing = [x for x in need if not word & flags[x]]
            r.require(not missing, key, f, node=c,
                      msg=f"block parameter `{name}` ({dtext[:60]!r}) holds one datum per {'/'.join(x.lower()[:-1] for x in need)} of the block but its location is `{shown}`, which does not contain "
                          f"{'/'.join(missing)}: HexBlock.rotate picks the vectors it pivots by atLocation(CORNERS) and atLocation(EDGES), so after a rotation by k x 60 degrees (k = 1..5) "
                          f"this vector still has the datum of {(missing or need)[0].lower()[:-1]} n at position n instead of (n + k) % 6, while every other boundary vector, the pins and the orientation have turned")
    if n < 1:
        raise AnchorMissing("block parameters declared per corner / per edge")


def run(idx, chk):
    chk.explanation = (
        "C08: the two third-core images and the six index rotations are extracted as integer matrices and shown to equal exact 120/60k degree "
        "rotations of the coordinates for both orientations (U.M = R.U over Q(sqrt3)), with group structure; every leaf of the Cartesian "
        "quarter-core equivalents is compared with the exact images of the cell centre under 90-degree rotations / reflections, with the equality "
        "guards substituted; the pieces of HexBlock.rotate agree on angle, direction and step count; symmetry-line guards select the 0/60/120-degree "
        "rays; isInFirstThird's parity adjustments. 'Exactly one orbit member in the domain' as a counting statement is NOT decided."
    )
    chk.undecided_clauses = ["exactly one orbit member lies in the modelled domain (counting over rings)", "isInFirstThird bounds as arithmetic"]
    chk.run_rule("R08.1", "third-core symmetric identicals are the 120/240-degree rotations of the cell, for both orientations; group of order 3", lambda r: r1_third_core(idx, r), floor=9, necessary="equivalents are the images under the symmetry group")
    chk.run_rule("R08.2", "rotateIndex by k steps rotates coordinates by +60k degrees, composes additively, identity at 6, keeps k and grid", lambda r: r2_rotate_index(idx, r), floor=15, necessary="index rotation agrees with geometry")
    chk.run_rule("R08.3", "each Cartesian quarter-core leaf equals the non-identity images of the cell centre under rotations (periodic) or reflections (reflective)", lambda r: r3_cartesian(idx, r), floor=9,
                 necessary="equivalents are exactly the images of the cell centre")
    chk.run_rule("R08.4", "HexBlock.rotate: one angle/step count for children, free coordinates (R.x), boundary data (pivot by -steps), displacement and orientation", lambda r: r4_block_rotation(idx, r), floor=17,
                 necessary="pins, free-coordinate children, per-corner data, displacement and orientation move accordingly")
    chk.run_rule("R08.5", "symmetry-line classification: equality+sign guards select the 0/60/120-degree rays of the flats-up lattice", lambda r: r5_symmetry_lines(idx, r), floor=6, necessary="cells on symmetry lines are classified consistently with their coordinates")
    chk.run_rule("R08.6", "isInFirstThird: top-edge adjustment only for odd rings when requested; lower bound adjusted for even rings", lambda r: r6_first_third(idx, r), floor=4, necessary="each orbit has exactly one member in the modelled domain")
    chk.run_rule("R08.7", "the rotation number read from the orientation is rint(angle/60) reduced modulo 6; setRotationNum stores 60 k", lambda r: r7_rotation_number(idx, r), floor=3,
                 necessary="rotation by k steps 'composes additively, is the identity at k=6'; orientation moves accordingly")
    chk.run_rule("R08.8", "the 60-degree-increment guard of assembly rotation accepts a floating remainder at either end of the interval", lambda r: r8_sixty_degree_guard(idx, r), floor=1,
                 necessary="rotation by k steps for every integer k (also negative, also k >= 6)")
    chk.run_rule("R08.9", "atLocation is an overlap test (evaluated); reduce() keeps a partly non-zero offset; only the 0/120-degree lines bound the third core", lambda r: r9_shared_sites(idx, r), floor=3,
                 necessary="rotating a block turns every corner/edge vector; a re-created grid reports the same symmetric images; a cell and its images are classified alike")
    chk.run_rule("R08.10", "arguments stand at the parameter they are named after; sibling calls forward the same pass-through parameters", lambda r: r10_pairing(idx, r), floor=1,
                 necessary="indices and rotation counts reach the parameter they are meant for")
    chk.run_rule("R08.11", "Cartesian blocks on either symmetry axis are halved (evaluated on 32 cells); nothing position-derived is cached across a rotation", lambda r: r11_cartesian_cut_and_cached_positions(idx, r), floor=2,
                 necessary="a cell and its symmetric images are classified alike; after rotate() pins are reported at the rotated positions")
    chk.run_rule("R08.12", "clauses of C07/C13 the symmetry answers rest on: a Cartesian grid keeps its half-pitch offset through changePitch and fromRectangle (R07.1); the n-th ", lambda r: r_borrowed_r08_12(idx, r), floor=2,
                 necessary="symmetric images are computed with the grid's real offset; a copy sits at the image cell in the image orientation")
    chk.run_rule("R08.13", "the through-centre marker is found whatever the capitalisation; locations are combined by union; a one-cell axial grid is axial-only", lambda r: r13_marker_case_flag_union_axial_only(idx, r), floor=4,
                 necessary="symmetric images are those of the real cell centres; every corner/edge vector follows a rotation; a cell and its images are classified alike")
    chk.run_rule("R08.14", "a block parameter declared (by name or description) as per-corner / per-edge data is located at CORNERS / EDGES, where HexBlock.rotate looks for the vectors it pivots", lambda r: r14_boundary_data_declared_where_rotation_looks(idx, r), floor=9,
                 necessary="rotating a hex block moves its per-corner/per-edge data accordingly: every such vector, not only those the parameter table happens to list at CORNERS/EDGES")
