"""C19 - nuclide directory and material library: exhaustive lints of the data files, registration
discipline of the nuclide indices, identifier formats that encode (Z, A, state) injectively,
default material compositions folding to one.  Structural / data-level necessary conditions."""
from __future__ import annotations

import ast
from fractions import Fraction as F

from ..astutil import call_attr, const_str, iter_calls, iter_stores, propagate, single_assign_env, walk_local
from ..exprnf import Poly, Q3, Rat, RatEval, q3
from ..flow import Flow, always_exits, path_conditions
from ..index import AnalysisError, AnchorMissing, dotted, norm
from ..own import all_stores
from ..resources import read_burn_chain, read_elements, read_mcc, read_nuclides

NB = "armi.nucDirectory.nuclideBases"
META = ["", "M", "M2", "M3"]


def _names(idx, rows):
    """nuclide names derivable from the table (as NuclideBase._createName builds them) + registered lumped/dummy + naturals."""
    f = idx.method(NB + ".NuclideBase", "_createName")
    meta = next((s.value for s in iter_stores(f.node) if s.attr == "metaChar" and isinstance(s.value, ast.List)), None)
    suffix = [const_str(e) for e in meta.elts] if meta is not None else None
    ret = next((n for n in walk_local(f.node) if isinstance(n, ast.Return)), None)
    if suffix is None or norm(ret.value) != "'{}{}{}'.format(element.symbol, a, metaChar[state])":
        raise AnalysisError("_createName shape not recognised")
    names = {}
    for r_ in rows:
        if r_["s"] >= len(suffix):
            continue
        names[f"{r_['sym'].upper()}{r_['a']}{suffix[r_['s']]}"] = r_
    extra = set()
    m = idx.module(NB)
    for fn in m.functions.values():
        for c in iter_calls(fn.node):
            if dotted(c.func) in ("LumpNuclideBase", "DummyNuclideBase"):
                for k in c.keywords:
                    if k.arg == "name" and const_str(k.value):
                        extra.add(const_str(k.value))
    sp = m.functions.get("updateNuclideBasesForSpecialCases")
    for s in iter_stores(sp.node):
        if s.kind == "subscript" and s.chain == "byName" and const_str(s.node.slice):
            extra.add(const_str(s.node.slice))
    return names, extra, suffix


def r1_data(idx, r):
    rows = read_nuclides(idx)
    els = read_elements(idx)
    ez = {e["z"]: e for e in els}
    seen = {}
    for row in rows:
        k = (row["z"], row["a"], row["s"])
        where = ("armi/resources/nuclides.dat", row["line"])
        if k in seen:
            r.violate(f"nuclides.dat:(Z,A,S)={k}:duplicate", where, f"(Z, A, S) = {k} appears on lines {seen[k]} and {row['line']}: two nuclides share every identifier")
        seen.setdefault(k, row["line"])
    r.require(len(seen) == len(rows), "nuclides.dat:unique-(Z,A,S)", ("armi/resources/nuclides.dat", 1), msg="duplicate rows")
    bad = [row for row in rows if row["n"] != row["a"] - row["z"]]
    r.require(not bad, "nuclides.dat:N=A-Z", ("armi/resources/nuclides.dat", bad[0]["line"] if bad else 1), msg=f"{len(bad)} rows with N != A - Z, first line {bad[0]['line'] if bad else None}")
    bad = [row for row in rows if row["z"] not in ez or ez[row["z"]]["sym"].upper() != row["sym"].upper()]
    r.require(not bad, "nuclides.dat:symbol-matches-element", ("armi/resources/nuclides.dat", bad[0]["line"] if bad else 1), msg=f"{len(bad)} rows whose symbol is not the element of their Z, first line {bad[0]['line'] if bad else None}")
    bad = [row for row in rows if row["s"] > 3 or row["s"] < 0 or row["abund"] < 0 or row["abund"] > 1 or row["mass"] <= 0]
    r.require(not bad, "nuclides.dat:ranges", ("armi/resources/nuclides.dat", bad[0]["line"] if bad else 1), msg=f"state must be 0..3, abundance in [0,1], mass > 0; first offending line {bad[0]['line'] if bad else None}")
    by_z = {}
    for row in rows:
        by_z.setdefault(row["z"], 0.0)
        by_z[row["z"]] += row["abund"]
    for z, tot in sorted(by_z.items()):
        okz = abs(tot - 1.0) < 1e-4 or tot == 0.0
        if not okz:
            r.violate(f"abundance-sum:Z={z}", ("armi/resources/nuclides.dat", 1), f"natural abundances of element Z={z} sum to {tot:.8f} (must be 1 or the element has none)")
    r.require(all(abs(t - 1.0) < 1e-4 or t == 0.0 for t in by_z.values()), "nuclides.dat:abundances-sum-to-one", ("armi/resources/nuclides.dat", 1), msg="see per-element findings")
    r.require(len({e["z"] for e in els}) == len(els) and len({e["sym"] for e in els}) == len(els), "elements.dat:unique", ("armi/resources/elements.dat", 1), msg="duplicate Z or symbol in elements.dat")
    names, extra, suffix = _names(idx, rows)
    r.require(len(names) == len([x for x in rows if x["s"] < len(suffix)]), "derived-names-unique", ("armi/resources/nuclides.dat", 1), msg="two table rows derive the same nuclide name")
    known = set(names) | extra | {e["sym"].upper() for e in els}
    bc = read_burn_chain(idx)
    keys = {e[0] for e in bc}
    for nuc in sorted(keys):
        if nuc not in known:
            r.violate(f"burn-chain:key:{nuc}", ("armi/resources/burn-chain.yaml", next(e[1] for e in bc if e[0] == nuc)), f"burn chain entry `{nuc}` is not a nuclide of the directory")
    n_ok = 0
    for nuc, ln, kind, item in bc:
        where = ("armi/resources/burn-chain.yaml", ln)
        if kind in ("transmutation", "decay"):
            for p in item["products"]:
                if p not in known:
                    r.violate(f"burn-chain:{nuc}:{kind}@{ln}:product:{p}", where, f"product `{p}` of {nuc} does not exist in the nuclide directory")
                else:
                    n_ok += 1
            b = item.get("branch")
            try:
                bv = float(b) if b is not None else None
            except ValueError:
                bv = None
            if bv is None or not (0.0 <= bv <= 1.0):
                r.violate(f"burn-chain:{nuc}:{kind}@{item.get('type')}:branch", where, f"branching fraction `{b}` of {nuc} ({kind} {item.get('type')}) is not in [0, 1]")
            else:
                n_ok += 1
            if not item["products"]:
                r.violate(f"burn-chain:{nuc}:{kind}@{ln}:no-products", where, "entry without products")
        elif kind in ("spontaneousFission", "empty"):
            n_ok += 1
        else:
            r.violate(f"burn-chain:{nuc}:kind:{kind}", where, f"unknown burn data kind `{kind}`")
    r.require(n_ok > 400, "burn-chain:entries-checked", ("armi/resources/burn-chain.yaml", 1), msg=f"only {n_ok} burn-chain facts could be checked")
    mcc = read_mcc(idx)
    for nuc in sorted(mcc):
        if nuc not in known:
            r.violate(f"mcc:key:{nuc}", ("armi/resources/mcc-nuclides.yaml", mcc[nuc]["__line__"]), f"`{nuc}` is not a nuclide of the directory")
    cols = sorted({k for v in mcc.values() for k in v if k != "__line__"})
    r.require(cols == ["ENDF/B-V.2", "ENDF/B-VII.0", "ENDF/B-VII.1"], "mcc:columns", ("armi/resources/mcc-nuclides.yaml", 1), msg=f"library columns {cols}")
    for col in cols:
        ids = {}
        for nuc, v in mcc.items():
            if v.get(col) is not None:
                ids.setdefault(v[col], []).append(nuc)
        dups = {k: v for k, v in ids.items() if len(v) > 1}
        r.require(not dups, f"mcc:{col}:ids-unique", ("armi/resources/mcc-nuclides.yaml", 1), msg=f"identifier(s) shared by two nuclides in library {col}: {dups} (the by-id lookup returns only the last one)")


def r2_registration(idx, r):
    m = idx.module(NB)
    ag = m.functions["addGlobalNuclide"]
    indices = ["byName", "byDBName", "byLabel", "byMcnpId", "byAAAZZZSId", "byMcc2Id", "byMcc3Id", "byMcc3IdEndfbVII0", "byMcc3IdEndfbVII1"]
    for ix in indices:
        for f, s in all_stores(idx, ix):
            if f.module is not m and not (s.chain or "").startswith(("nuclideBases.", "nb.")):
                continue  # another module's own variable of the same name (e.g. elements.byName)
            ok = f.module is m
            r.require(ok, f"index-owner:{ix}:{f.module.relpath}:{f.qualname}", f, node=s.stmt, msg=f"`{norm(s.stmt)[:60]}` writes the nuclide index {ix} outside armi/nucDirectory/nuclideBases.py")
    # each checked index store is dominated by its own duplicate test

    def ev(n):
        out = []
        if isinstance(n, ast.If) and always_exits(n.body) and any(isinstance(x, ast.Raise) for x in n.body):
            t = norm(n.test)
            for ix in ("byName", "byDBName", "byLabel", "byMcnpId"):
                if f" in {ix}" in t:
                    out.append("dup:" + ix)
        return out
    fl = Flow(ag.node, ev).run()
    for ix, keyexpr in (("byName", "nuclide.name"), ("byDBName", "nuclide.getDatabaseName()"), ("byLabel", "nuclide.label"), ("byMcnpId", "nuclide.getMcnpId()")):
        st = next((s for s in iter_stores(ag.node) if s.kind == "subscript" and s.chain == ix), None)
        okd = st is not None and (fl.state_before(st.stmt) or {}).get("dup:" + ix, (0, 0))[0] >= 1 and norm(st.node.slice) == keyexpr and norm(st.value) == "nuclide"
        r.require(okd, f"addGlobalNuclide:{ix}:duplicate-refused", ag, node=st.stmt if st else None, msg=f"storing into {ix} must be dominated by the `already in {ix} -> raise` test and keyed by {keyexpr}")
    first_store = min(s.stmt.lineno for s in iter_stores(ag.node) if s.chain in ("instances", "byName", "byDBName", "byLabel"))
    first_check = next((n for n in ag.node.body if isinstance(n, ast.If)), None)
    r.require(first_check is not None and first_check.lineno < first_store, "addGlobalNuclide:checks-first", ag, msg="name/DB-name/label collisions are refused before anything is registered")
    ini = idx.method(NB + ".INuclide", "__init__")
    r.require(any(dotted(c.func) == "addGlobalNuclide" and norm(c.args[0]) == "self" for c in iter_calls(ini.node)), "INuclide.__init__:registers", ini, msg="every nuclide registers itself through addGlobalNuclide")
    r.require(sum(1 for n in walk_local(ini.node) if isinstance(n, ast.Raise)) >= 3 and "element not in elements.byName.values()" in norm(ini.node), "INuclide.__init__:validates", ini, msg="unknown element, negative state and negative half-life are refused")
    r.require(norm(next(s.value for s in iter_stores(ini.node) if s.chain == "self.z")) == "element.z", "INuclide.z-from-element", ini, msg="a nuclide's Z is its element's Z")
    r.require(any(norm(c) == "self.element.append(self)" for c in iter_calls(ini.node)), "INuclide.__init__:joins-element", ini, msg="each nuclide belongs to the element with its atomic number")
    fa = m.functions["factory"]
    first = next((n for n in fa.node.body if isinstance(n, ast.If)), None)
    r.require(first is not None and norm(first.test) == "len(instances) != 0" and always_exits(first.body), "factory:refuses-reinit", fa, msg="a second initialisation must be refused")
    seq = [dotted(c.func) for c in iter_calls(fa.node) if dotted(c.func) in ("addNuclideBases", "__addNaturalNuclideBases", "__addDummyNuclideBases", "__addLumpedFissionProductNuclideBases", "updateNuclideBasesForSpecialCases", "readMCCNuclideData")]
    r.require(seq == ["addNuclideBases", "__addNaturalNuclideBases", "__addDummyNuclideBases", "__addLumpedFissionProductNuclideBases", "updateNuclideBasesForSpecialCases", "readMCCNuclideData"], "factory:order", fa,
              msg=f"MC2 ids are read after every nuclide (incl. dummy/lumped and special cases) exists: {seq}")
    dg = m.functions["destroyGlobalNuclides"]
    cleared = {norm(c.func.value) for c in iter_calls(dg.node) if call_attr(c) == "clear"} | {s.attr for s in iter_stores(dg.node) if s.kind == "assign"}
    r.require(set(indices) <= cleared | {"byMcc3Id"} and "instances" in cleared, "destroyGlobalNuclides:clears-all", dg, msg=f"every index must be cleared: missing {sorted(set(indices) - cleared)}")
    rd = m.functions["readMCCNuclideData"]
    pairs = {}
    for s in iter_stores(rd.node):
        if s.kind == "subscript" and s.chain and s.chain.startswith("byMcc"):
            pairs[s.chain] = (norm(s.node.slice), norm(s.value))
    want = {"byMcc2Id": ("nb.getMcc2Id()", "nb"), "byMcc3IdEndfbVII0": ("nb.getMcc3IdEndfbVII0()", "nb"), "byMcc3IdEndfbVII1": ("nb.getMcc3IdEndfbVII1()", "nb")}
    r.require(pairs == want, "readMCCNuclideData:index-by-own-id", rd, msg=f"each library index maps the nuclide's id in THAT library to the nuclide: {pairs}")
    cols = {s.attr: norm(s.value) for s in iter_stores(rd.node) if s.attr in ("mcc2id", "mcc3idEndfbVII0", "mcc3idEndfbVII1") and isinstance(s.node, ast.Name)}
    r.require(cols == {"mcc2id": "nuclides[n]['ENDF/B-V.2']", "mcc3idEndfbVII0": "nuclides[n]['ENDF/B-VII.0']", "mcc3idEndfbVII1": "nuclides[n]['ENDF/B-VII.1']"}, "readMCCNuclideData:columns", rd, msg=f"each id comes from its own library column: {cols}")


def r3_identifier_formats(idx, r):
    nbc = idx.cls(NB + ".NuclideBase")
    f = nbc.methods["getAAAZZZSId"]
    ret = next((n for n in walk_local(f.node) if isinstance(n, ast.Return)), None)
    js = ret.value
    ok = isinstance(js, ast.JoinedStr) and all(isinstance(v, ast.FormattedValue) for v in js.values) and len(js.values) == 3
    if ok:
        vals = [(norm(v.value), "".join(x.value for x in v.format_spec.values if isinstance(x, ast.Constant)) if v.format_spec is not None else "") for v in js.values]
        ok = vals == [("self.a", ""), ("self.z", ">03d"), ("self.state", "")]
    r.require(ok, "AAAZZZS:encodes-a-z-state", f, node=ret, msg=f"the AAAZZZS id must be A, then Z zero-padded to 3, then the isomeric STATE NUMBER (a 0/1 flag makes 2nd and 3rd isomers collide with the 1st): `{norm(ret.value)}`")
    g = nbc.methods["getMcnpId"]
    retg = [n for n in walk_local(g.node) if isinstance(n, ast.Return)]
    r.require(len(retg) == 1 and norm(retg[0].value) == "'{z:d}{a:03d}'.format(z=z, a=a)", "McnpId:format", g, msg="MCNP id = Z then A (shifted for isomers) zero-padded to 3")
    shifts = [norm(n.value) for n in walk_local(g.node) if isinstance(n, ast.AugAssign) and norm(n.target) == "a"]
    r.require(shifts == ["300 + 100 * max(self.state, 1)", "300 + 100 * self.state"], "McnpId:isomer-shift", g, msg=f"isomers shift A by 300 + 100 x state (AM242 special case as documented): {shifts}")
    cn = nbc.methods["_createName"]
    r.require("metaChar = ['', 'M', 'M2', 'M3']" in norm(cn.node) and "if state > len(metaChar)" in norm(cn.node).replace("(", " ").replace(")", " ").replace("  ", " ") or "state > len(metaChar)" in norm(cn.node), "name:state-suffix-table", cn,
              msg="names carry a distinct suffix per isomeric state")
    ag = idx.module(NB).functions["addGlobalNuclide"]
    st = next((s for s in iter_stores(ag.node) if s.kind == "subscript" and s.chain == "byAAAZZZSId"), None)
    r.require(st is not None and norm(st.node.slice) == "nuclide.getAAAZZZSId()" and norm(st.value) == "nuclide", "AAAZZZS:index", ag, msg="the AAAZZZS index maps each nuclide's own id to it")
    db = idx.cls(NB + ".INuclide").resolve("getDatabaseName") or nbc.resolve("getDatabaseName")
    if db is not None:
        r.require("'n{}'" in norm(db.node) or "f'n{" in norm(db.node) or '"n' in norm(db.node) or "'n" in norm(db.node), "DBName:prefix-n", db, msg="database names start with n")


class _Fold:
    """Straight-line constant/symbolic folding of a setDefaultMassFracs body."""

    def __init__(self, idx, cls):
        self.idx, self.cls = idx, cls
        self.env = {}
        self.mf = {}
        self.order = []
        self.undecided = None
        self.E = RatEval(calls=self._calls)

    def _calls(self, n, ev):
        d = dotted(n.func)
        if d == "sum" and len(n.args) == 1:
            a = n.args[0]
            if isinstance(a, ast.Call) and call_attr(a) == "values":
                base = norm(a.func.value)
                dd = self.mf if base == "self.massFrac" else self.env.get(base)
                if isinstance(dd, dict):
                    tot = Rat(0)
                    for v in dd.values():
                        tot = tot + v
                    return tot
            # sum(frac for nuc, frac in self.massFrac.items() if nuc != "X"): everything set so far except X
            if isinstance(a, (ast.GeneratorExp, ast.ListComp)) and len(a.generators) == 1:
                g = a.generators[0]
                if isinstance(g.iter, ast.Call) and call_attr(g.iter) == "items" and norm(g.iter.func.value) == "self.massFrac" and isinstance(g.target, ast.Tuple) and len(g.target.elts) == 2 \
                        and norm(a.elt) == norm(g.target.elts[1]) and len(g.ifs) <= 1:
                    excl = None
                    if g.ifs:
                        t = g.ifs[0]
                        if isinstance(t, ast.Compare) and len(t.ops) == 1 and isinstance(t.ops[0], ast.NotEq) and norm(t.left) == norm(g.target.elts[0]) and const_str(t.comparators[0]) is not None:
                            excl = const_str(t.comparators[0])
                        else:
                            return None
                    tot = Rat(0)
                    for k, v in self.mf.items():
                        if k != excl:
                            tot = tot + v
                    return tot
        return None

    def val(self, e):
        if isinstance(e, ast.Dict):
            return {const_str(k): self.val(v) for k, v in zip(e.keys, e.values)}
        if isinstance(e, ast.Name) and e.id in self.env:
            return self.env[e.id]
        if isinstance(e, ast.Attribute) and norm(e) in self.env:
            return self.env[norm(e)]
        if isinstance(e, ast.Attribute) and norm(e.value) == "self":
            a = self.cls.lookup_attr(e.attr)
            if a is not None:
                try:
                    v = self.idx.fold(a[0].module, a[1], cls=a[0])
                    if isinstance(v, (int, float)):
                        return Rat(Poly.const(q3(v)))
                    return v
                except AnalysisError:
                    pass
        if isinstance(e, ast.Constant) and isinstance(e.value, (int, float)):
            return Rat(Poly.const(q3(e.value)))
        self.E.env = {k: v for k, v in self.env.items() if isinstance(v, Rat)}
        return self.E.ev(e)

    def run(self, body):
        for s in body:
            if self.undecided:
                return
            self.stmt(s)

    def set(self, k, v):
        if not isinstance(v, Rat):
            self.undecided = f"mass fraction of {k} is not a number"
            return
        self.mf[k] = v

    def stmt(self, s):
        try:
            if isinstance(s, ast.Expr) and isinstance(s.value, ast.Constant):
                return
            if isinstance(s, ast.Pass):
                return
            if isinstance(s, ast.Expr) and isinstance(s.value, ast.Call):
                c = s.value
                if dotted(c.func) == "self.setMassFrac" and len(c.args) == 2:
                    k = self.val_key(c.args[0])
                    self.set(k, self.val(c.args[1]))
                    return
                if (dotted(c.func) or "").startswith("self._") or dotted(c.func) in ("self.clearMassFrac",):
                    if dotted(c.func) == "self.clearMassFrac":
                        self.mf = {}
                    return
                self.undecided = f"call `{norm(c)[:50]}`"
                return
            if isinstance(s, ast.Assign) and len(s.targets) == 1:
                t = s.targets[0]
                if isinstance(t, ast.Name):
                    self.env[t.id] = self.val(s.value)
                    return
                if isinstance(t, ast.Attribute) and norm(t.value) == "self":
                    if isinstance(s.value, ast.Constant) or isinstance(s.value, ast.Attribute):
                        try:
                            self.env[norm(t)] = self.val(s.value)
                        except AnalysisError:
                            pass
                    return
                if isinstance(t, ast.Subscript) and isinstance(t.value, ast.Name) and isinstance(self.env.get(t.value.id), dict):
                    self.env[t.value.id][self.val_key(t.slice)] = self.val(s.value)
                    return
            if isinstance(s, ast.AugAssign) and isinstance(s.target, ast.Name) and isinstance(self.env.get(s.target.id), Rat):
                v = self.val(s.value)
                cur = self.env[s.target.id]
                self.env[s.target.id] = {ast.Add: cur + v, ast.Sub: cur - v, ast.Mult: cur * v, ast.Div: cur / v}[type(s.op)]
                return
            if isinstance(s, ast.For):
                it = s.iter
                seq = None
                if isinstance(it, ast.Call) and call_attr(it) == "items" and isinstance(self.env.get(norm(it.func.value)), dict):
                    seq = list(self.env[norm(it.func.value)].items())
                elif isinstance(it, ast.Attribute) and norm(it.value) == "self":
                    a = self.cls.lookup_attr(it.attr)
                    if a is not None:
                        v = self.idx.fold(a[0].module, a[1], cls=a[0])
                        seq = [(k, Rat(Poly.const(q3(x)))) for k, x in v]
                if seq is None:
                    self.undecided = f"loop over `{norm(it)[:50]}` (data not in the source)"
                    return
                names = [norm(e) for e in s.target.elts]
                for k, v in seq:
                    self.env[names[0]] = k
                    self.env[names[1]] = v
                    self.run(s.body)
                return
            self.undecided = f"statement `{norm(s)[:50]}`"
        except AnalysisError as e:
            self.undecided = str(e)[:80]

    def val_key(self, e):
        if const_str(e) is not None:
            return const_str(e)
        if isinstance(e, ast.Name) and isinstance(self.env.get(e.id), str):
            return self.env[e.id]
        return norm(e)


def r4_compositions(idx, r):
    mat = idx.cls("armi.materials.material.Material")
    rows = read_nuclides(idx)
    names, _extra, _suffix = _names(idx, rows)
    abund = {k: v["abund"] for k, v in names.items()}
    n_fold = 0
    for c in sorted([mat] + idx.subclasses(mat), key=lambda c: c.fq):
        if not c.module.name.startswith("armi.materials."):
            continue
        f = c.methods.get("setDefaultMassFracs")
        if f is None:
            continue
        body = [s for s in f.node.body if not (isinstance(s, ast.Expr) and isinstance(s.value, ast.Constant))]
        if all(isinstance(s, ast.Pass) for s in body) or not body:
            continue
        fo = _Fold(idx, c)
        fo.run(body)
        key = f"{c.name}.setDefaultMassFracs"
        if fo.undecided or not fo.mf:
            r.undecided(key, f, fo.undecided or "no mass fractions set")
            continue
        tot = Rat(0)
        for v in fo.mf.values():
            tot = tot + v
        # natural abundances appearing as opaque atoms are data: substitute the table values
        import re as _re
        sub = {}
        for at in tot.n.atoms() | tot.d.atoms():
            mm = _re.fullmatch(r"\w+(?:\.\w+)*\.byName\['(\w+)'\]\.abundance", str(at))
            if mm and mm.group(1) in abund:
                sub[at] = Poly.const(q3(abund[mm.group(1)]))
        if sub:
            tot = Rat(tot.n.subs(sub), tot.d.subs(sub))
        diff = tot - Rat(1)
        cv = diff.n.const_value() if diff.d.const_value() is not None else None
        if diff.n.iszero():
            ok, shown = True, "exactly 1"
        elif cv is not None and diff.d.const_value() is not None:
            val = float(cv) / float(diff.d.const_value())
            ok, shown = abs(val) <= 1e-4, f"1 {val:+.3e}"
        else:
            r.undecided(key, f, f"sum is symbolic: {tot}")
            continue
        n_fold += 1
        r.require(ok, key, f, msg=f"default mass fractions of {c.name} sum to {shown}: {', '.join(sorted(fo.mf))}")
        neg = [k for k, v in fo.mf.items() if v.n.const_value() is not None and v.d.const_value() is not None and float(v.n.const_value()) / float(v.d.const_value()) < 0]
        if neg:
            r.violate(key + ":negative", f, f"negative default mass fraction(s): {neg}")
    if n_fold < 30:
        raise AnalysisError(f"only {n_fold} material compositions folded")
    # every instance owns its composition table: binding massFrac to a class-level / module-level mapping shares it between
    # all instances, so an in-place edit of one material (setMassFrac, elemental expansion) changes every later instance
    from ..own import all_stores as _all_stores
    nshared = 0
    for f_, st_ in _all_stores(idx, "massFrac"):
        if not f_.module.name.startswith("armi.materials") or ".tests" in f_.module.name or st_.kind != "assign" or st_.chain != "self.massFrac":
            continue
        nshared += 1
        v = st_.value
        fresh_ = isinstance(v, (ast.Dict, ast.DictComp, ast.Call)) and not (isinstance(v, ast.Call) and isinstance(v.func, ast.Attribute) and v.func.attr in ("get", "pop", "setdefault"))
        r.require(fresh_, f"{f_.qualname}:massFrac-is-a-fresh-table", f_, node=st_.stmt,
                  msg=f"`{norm(st_.stmt)[:70]}` binds the instance's composition to an object that outlives the instance: materials created later start from whatever an "
                      "earlier instance edited in place, not from the nominal composition")
    if nshared < 1:
        raise AnalysisError("no assignment of self.massFrac found in armi.materials")
    # a material that has a density correlation of its own also needs a composition: without one its mass fractions are
    # empty (sum 0) and every component made of it has no nuclides at all
    NO_COMPOSITION_OK = {
        "Material": "abstract base", "Fluid": "abstract base", "SimpleSolid": "abstract base", "FuelMaterial": "abstract base",
        "Custom": "composition comes from the user's custom isotopics", "Void": "nothing there", "_Mixture": "composed at run time from its parts",
    }
    for c in sorted([mat] + idx.subclasses(mat), key=lambda c: c.fq):
        if not c.module.name.startswith("armi.materials.") or c.name in NO_COMPOSITION_OK:
            continue
        if not any(m in c.methods for m in ("pseudoDensity", "density")):
            continue
        f = c.resolve("setDefaultMassFracs")
        body = [s_ for s_ in (f.node.body if f is not None else []) if not (isinstance(s_, ast.Expr) and isinstance(s_.value, ast.Constant))]
        trivial = f is None or not body or all(isinstance(s_, ast.Pass) for s_ in body)
        r.require(not trivial, f"{c.name}:has-a-composition", c.methods.get("pseudoDensity") or c.methods.get("density"),
                  msg=f"{c.name} defines a density but no default composition (setDefaultMassFracs resolves to the empty one of {f.cls.name if f is not None and f.cls else 'nothing'}): "
                      "its mass fractions are empty instead of summing to one")


def r5_property_total(idx, r):
    """A material property method that returns a number on some path returns one (or raises) on every path:
    a piecewise correlation whose if/elif chain has a gap, or that falls off its end, hands None to its caller."""
    from ..flow import Flow

    mat = idx.cls("armi.materials.material.Material")
    if mat is None:
        raise AnchorMissing("armi.materials.material.Material")
    n = 0
    for c in [mat] + list(idx.subclasses(mat)):
        if not c.module.name.startswith("armi.materials") or ".tests" in c.module.name:
            continue
        for name, f in c.methods.items():
            rets = [x for x in walk_local(f.node) if isinstance(x, ast.Return)]
            valued = [x for x in rets if x.value is not None and not (isinstance(x.value, ast.Constant) and x.value.value is None)]
            if not valued:
                continue  # a procedure
            if any(isinstance(x, (ast.Yield, ast.YieldFrom)) for x in walk_local(f.node)):
                continue
            n += 1
            try:
                fl = Flow(f.node, lambda node: []).run()
            except AnalysisError as e:
                r.undecided(f"{c.name}.{name}", f, f"control flow outside the analysed fragment: {e}")
                continue
            # an explicit `return None` is the author's deliberate "no data" answer (Material.density without a reference density);
            # falling off the end or a bare `return` in a value-returning function is a gap
            bad = [e for e in fl.normal_exits() if e.kind == "fall" or (e.kind == "return" and e.node.value is None)]
            if bad:
                e = bad[0]
                where = f"falls off the end of the function" if e.kind == "fall" else f"returns None at line {e.line}"
                r.violate(f"{c.name}.{name}", f, f"{c.name}.{name} returns a value on {len(valued)} path(s) but one path {where}: for the inputs taking that path "
                          "(a gap in the if/elif chain over the temperature) the property is None, not a finite number", node=e.node if e.kind == "return" else f.node)
            else:
                r.ok(f"{c.name}.{name}", f)
    if n < 100:
        raise AnalysisError(f"only {n} value-returning material methods found")


def r6_index_getter_agreement(idx, r):
    """`byFoo` is the table a caller uses to look a nuclide up by the identifier `nuclide.getFoo()` returns:
    the key under which the table is filled (directly, or through the table it aliases) must be produced by
    the getter that getFoo resolves to."""
    NB = "armi.nucDirectory.nuclideBases"
    m = idx.module(NB)
    if m is None:
        raise AnchorMissing(NB)
    key_getter = {}  # table -> set of getter names used as key
    alias = {}
    for f in m.all_funcs():
        for n in walk_local(f.node):
            if isinstance(n, ast.Assign) and len(n.targets) == 1:
                t, v = n.targets[0], n.value
                if isinstance(t, ast.Subscript) and isinstance(t.value, ast.Name) and t.value.id.startswith("by"):
                    k = t.slice
                    if isinstance(k, ast.Call) and isinstance(k.func, ast.Attribute) and k.func.attr.startswith("get") and not k.args:
                        key_getter.setdefault(t.value.id, set()).add(k.func.attr)
                elif isinstance(t, ast.Name) and t.id.startswith("by") and isinstance(v, ast.Name) and v.id.startswith("by"):
                    alias.setdefault(t.id, set()).add(v.id)

    def getters_of(table, seen=()):
        out = set(key_getter.get(table, ()))
        for a in alias.get(table, ()):
            if a not in seen:
                out |= getters_of(a, seen + (table,))
        return out

    def resolve_getter(name):
        """follow `def getX(self): return self.getY()` in the concrete nuclide classes; returns the set of final getter names"""
        finals = set()
        for c in m.classes.values():
            f = c.methods.get(name)
            if f is None:
                continue
            rets = [x for x in walk_local(f.node) if isinstance(x, ast.Return) and x.value is not None]
            if len(rets) != 1:
                continue
            v = rets[0].value
            if isinstance(v, ast.Name) and v.id == "NotImplementedError":
                continue
            if isinstance(v, ast.Call) and isinstance(v.func, ast.Attribute) and dotted(v.func.value) in ("self", "self._base") and v.func.attr.startswith("get") and not v.args:
                finals |= {v.func.attr} if v.func.attr == name else resolve_getter(v.func.attr)
            else:
                finals.add(name)
        return finals

    n = 0
    for table in sorted(set(key_getter) | set(alias)):
        gs = getters_of(table)
        if not gs:
            continue
        want = "get" + table[2:]
        if not any(want in c.methods for c in m.classes.values()):
            r.undecided(f"{table}:getter", m, f"no getter named {want} to compare with")
            continue
        res = resolve_getter(want)
        n += 1
        r.require(bool(res) and res <= {x for g in gs for x in (resolve_getter(g) or {g})}, f"{table}<->{want}", m,
                  msg=f"table `{table}` is filled under the identifiers returned by {sorted(gs)} but `{want}()` returns the identifier of {sorted(res)}: "
                      f"looking a nuclide up by its own {want}() misses or returns another nuclide")
    if n < 3:
        raise AnalysisError(f"only {n} getter-keyed nuclide tables found")


def r7_destroy_resets_all(idx, r):
    """The directory can be torn down and rebuilt (destroyGlobalNuclides(); factory()). Every registry that registration
    fills - the by* tables, `instances`, and each element's `nuclides` list (filled by `element.append(self)`) - must be
    emptied by the tear-down; a registry that survives keeps the OLD objects (Element.append skips an equal new one), so
    lookups through it return nuclides that are not the live ones."""
    NB = "armi.nucDirectory.nuclideBases"
    m = idx.module(NB)
    d = idx.func(NB + ".destroyGlobalNuclides")
    if m is None or d is None:
        raise AnchorMissing("nuclideBases.destroyGlobalNuclides")
    filled = set()
    for f in m.all_funcs():
        for st in iter_stores(f.node):
            if st.kind == "subscript" and isinstance(st.node, ast.Subscript) and isinstance(st.node.value, ast.Name) and st.node.value.id.startswith("by"):
                filled.add(st.node.value.id)
        for c in iter_calls(f.node):
            if call_attr(c) == "append" and isinstance(c.func.value, ast.Name) and c.func.value.id == "instances":
                filled.add("instances")
            if call_attr(c) == "append" and isinstance(c.func.value, ast.Attribute) and c.func.value.attr == "element":
                filled.add("element.nuclides")
    cleared = set()
    for n in walk_local(d.node):
        if isinstance(n, ast.Call) and call_attr(n) == "clear" and isinstance(n.func.value, ast.Name):
            cleared.add(n.func.value.id)
        if isinstance(n, ast.Assign):
            for t in n.targets:
                if isinstance(t, ast.Name):
                    cleared.add(t.id)
                if isinstance(t, ast.Attribute) and t.attr == "nuclides":
                    cleared.add("element.nuclides")
        if isinstance(n, ast.Call) and call_attr(n) == "clear" and isinstance(n.func.value, ast.Attribute) and n.func.value.attr == "nuclides":
            cleared.add("element.nuclides")
    # aliases such as byMcc3Id = byMcc3IdEndfbVII1 are the same object
    if len(filled) < 6:
        raise AnalysisError(f"only {len(filled)} registries found: {sorted(filled)}")
    for reg in sorted(filled):
        r.require(reg in cleared, f"destroy-empties:{reg}", d,
                  msg=f"registration fills `{reg}` but destroyGlobalNuclides does not empty it: after destroy + factory it still holds the previous generation of nuclide objects")


def r8_renormalisation_loops(idx, r):
    """A composition is re-split between two elements by scaling each element's nuclides with `old / (total of that
    element) * (new share)`. Each such loop must ITERATE the element whose total it divides by: looping over Pu nuclides
    while dividing by the uranium total rescales the wrong nuclides and leaves the other element untouched (fractions no
    longer sum to one)."""
    n = 0
    selectors = {}
    for m in idx.modules.values():
        if not m.name.startswith("armi.materials") or ".tests" in m.name:
            continue
        for f in m.all_funcs():
            totals = {}  # local name -> element symbol of the sum that defines it
            for st in walk_local(f.node):
                if isinstance(st, ast.Assign) and len(st.targets) == 1 and isinstance(st.targets[0], ast.Name) and isinstance(st.value, ast.Call) and dotted(st.value.func) == "sum":
                    syms = [a for c in ast.walk(st.value) if isinstance(c, ast.Call) and call_attr(c) == "getNuclideNames" for a in (list(c.args) + [k.value for k in c.keywords]) if isinstance(a, ast.Constant) and isinstance(a.value, str)]
                    if len(syms) == 1:
                        totals[st.targets[0].id] = syms[0].value
                        how = [("positional" if c.args else c.keywords[0].arg) for c in ast.walk(st.value) if isinstance(c, ast.Call) and call_attr(c) == "getNuclideNames"]
                        selectors.setdefault(f.qualname, set()).update(how)
            if len(totals) < 2:
                continue
            for lp in [x for x in walk_local(f.node) if isinstance(x, ast.For) and isinstance(x.iter, ast.Call) and call_attr(x.iter) == "getNuclideNames"]:
                it = [a.value for a in (list(lp.iter.args) + [k.value for k in lp.iter.keywords]) if isinstance(a, ast.Constant) and isinstance(a.value, str)]
                divs = {x.right.id for x in ast.walk(ast.Module(body=lp.body, type_ignores=[])) if isinstance(x, ast.BinOp) and isinstance(x.op, ast.Div) and isinstance(x.right, ast.Name) and x.right.id in totals}
                if len(it) != 1 or len(divs) != 1:
                    continue
                n += 1
                d = next(iter(divs))
                lhow = "positional" if lp.iter.args else lp.iter.keywords[0].arg
                r.require(lhow in selectors.get(f.qualname, {lhow}), f"{f.qualname}:loop-over-{it[0]}:same-selector", f, node=lp,
                          msg=f"the totals select the element with getNuclideNames({sorted(selectors.get(f.qualname, []))}=...) but the loop passes `{it[0]}` {lhow}ly, i.e. as a NUCLIDE name: "
                              "for an element without a natural nuclide of that name (PU) the call raises KeyError, so the modification cannot be applied at all")
                r.require(totals[d] == it[0], f"{f.qualname}:loop-over-{it[0]}:divides-by-{d}", f, node=lp,
                          msg=f"the loop runs over the nuclides of `{it[0]}` but rescales them with `{d}`, the total of `{totals[d]}`: the nuclides of `{totals[d]}` are never rescaled "
                              f"and those of `{it[0]}` are rescaled twice; the mass fractions no longer sum to one")
    if n < 2:
        raise AnalysisError(f"only {n} renormalisation loops found (MOX.setMassFracPuO2 expected)")


def r9_register_then_attach(idx, r):
    """(a) A nuclide is attached to its element only AFTER the global registration accepted it (addGlobalNuclide raises on a duplicate name,
    label or MCNP id): attaching first leaves a rejected nuclide in the element's isotope list - absent from every lookup table, but counted
    in the element's natural abundance.  (b) A material's applyInputParams that (re)assigns a field of the material from its arguments does so
    before the composition is computed from that field: a later assignment means the composition was computed from the previous call's value."""
    nb = idx.modules.get("armi.nucDirectory.nuclideBases")
    n = 0
    for f in nb.all_funcs():
        if f.name != "__init__" or f.cls is None:
            continue
        att = [c for c in iter_calls(f.node) if call_attr(c) == "append" and norm(c.func.value) in ("self.element", "element") and c.args and norm(c.args[0]) == "self"]
        if not att:
            continue
        n += 1
        fl = Flow(f.node, lambda nd: ["registered"] if isinstance(nd, ast.Call) and dotted(nd.func) == "addGlobalNuclide" else []).run()
        for c in att:
            stb = fl.state_before(c)
            r.require(stb is not None and stb.get("registered", (0, 0))[0] >= 1, f"{f.qualname}:attached-after-registration", f, node=c,
                      msg="the nuclide is appended to its element before addGlobalNuclide() had the chance to refuse it: a rejected (duplicate) nuclide stays in the element's nuclide list and "
                          "the element's natural abundances no longer sum to one")
    if n < 1:
        raise AnchorMissing("nuclideBases: self.element.append(self) in a nuclide constructor")
    k = 0
    for m in idx.modules.values():
        if not m.name.startswith("armi.materials") or ".tests" in m.name:
            continue
        for f in m.all_funcs():
            if f.name != "applyInputParams" or f.cls is None:
                continue
            writes = {}
            for s_ in iter_stores(f.node, include_nested=False):
                if s_.kind == "assign" and s_.chain == f"self.{s_.attr}" and s_.value is not None and not any(isinstance(x, ast.Attribute) and norm(x) == s_.chain for x in ast.walk(s_.value)):
                    if not path_conditions(f.node, s_.stmt):
                        writes.setdefault(s_.attr, s_.stmt)
            if not writes:
                continue
            k += 1

            def ev(nd, writes=writes):
                return [f"w:{a}" for a, st_ in writes.items() if nd is st_]
            fl = Flow(f.node, ev).run()
            bad = []
            for st_ in walk_local(f.node):
                if not isinstance(st_, ast.stmt) or isinstance(st_, (ast.If, ast.For, ast.While, ast.With, ast.Try, ast.FunctionDef)) or any(st_ is w for w in writes.values()):
                    continue
                stb = fl.state_before(st_)
                if stb is None:
                    continue
                for x in ast.walk(st_):
                    if isinstance(x, ast.Attribute) and isinstance(x.ctx, ast.Load) and norm(x.value) == "self" and x.attr in writes and stb.get(f"w:{x.attr}", (0, 0))[1] == 0 \
                            and writes[x.attr].lineno > st_.lineno:
                        bad.append((st_, x.attr))
            r.require(not bad, f"{f.cls.name}.applyInputParams:fields-assigned-before-use", f, node=bad[0][0] if bad else None,
                      msg=f"`{norm(bad[0][0])[:70] if bad else ''}` reads self.{bad[0][1] if bad else ''}, which this very call assigns only further down: the composition is computed from the value "
                          "left by the constructor or a previous call (mass fractions no longer sum to one for a non-default input)")
    if k < 2:
        raise AnalysisError(f"only {k} applyInputParams methods assigning material fields found")


def r10_element_lookups(idx, r):
    """The element tables are filled by addGlobalElement under element.z / element.name / element.symbol, the symbol upper-cased by the
    factory and the name as spelled in elements.dat.  A helper that looks an element up from a caller's symbol or name must (1) consult the
    table of that kind and (2) normalise the argument so that every STORED key maps to itself (checked for all elements of the data file):
    otherwise the lookup fails for every element."""
    em = idx.module("armi.nucDirectory.elements")
    fac = em.functions.get("factory")
    reg = em.functions.get("addGlobalElement")
    if fac is None or reg is None:
        raise AnchorMissing("elements.factory / addGlobalElement")
    keyattr = {}
    for s_ in iter_stores(reg.node):
        if s_.kind == "subscript" and s_.chain in ("byZ", "byName", "bySymbol") and isinstance(s_.node.slice, ast.Attribute):
            keyattr[s_.chain] = s_.node.slice.attr
    if keyattr != {"byZ": "z", "byName": "name", "bySymbol": "symbol"}:
        raise AnalysisError(f"addGlobalElement: tables keyed by {keyattr}")
    env = single_assign_env(fac.node)
    ctor = next((c for c in iter_calls(fac.node) if dotted(c.func) == "Element"), None)
    if ctor is None:
        raise AnchorMissing("elements.factory: Element(z, sym, name, ...)")
    T = {"upper": str.upper, "lower": str.lower, "capitalize": str.capitalize, "title": str.title, "strip": str.strip}

    def transforms(e):
        out = []
        while isinstance(e, ast.Call) and isinstance(e.func, ast.Attribute) and e.func.attr in T and not e.args:
            out.append(e.func.attr)
            e = e.func.value
        return e, out[::-1]
    rows = read_elements(idx)
    stored = {"bySymbol": set(), "byName": set()}
    for table, pos, col in (("bySymbol", 1, "sym"), ("byName", 2, "name")):
        _b, tf = transforms(propagate(ctor.args[pos], env))
        for row in rows:
            k = row[col]
            for t in tf:
                k = T[t](k)
            stored[table].add(k)
    kind_of = {"symbol": "bySymbol", "sym": "bySymbol", "name": "byName", "z": "byZ"}
    n = 0
    for mname in ("armi.nucDirectory.elements", "armi.nucDirectory.nucDir"):
        m = idx.module(mname)
        for f in m.all_funcs():
            ps = set(f.params())
            for x in walk_local(f.node):
                if not (isinstance(x, ast.Subscript) and isinstance(x.ctx, ast.Load)):
                    continue
                tab = (dotted(x.value) or "").rsplit(".", 1)[-1]
                if tab not in ("byZ", "byName", "bySymbol") or (dotted(x.value) or "") not in (tab, "elements." + tab):
                    continue
                base, tf = transforms(x.slice)
                if not (isinstance(base, ast.Name) and base.id in ps and base.id in kind_of):
                    continue
                n += 1
                want = kind_of[base.id]
                if want != tab:
                    r.violate(f"{mname.rsplit('.', 1)[-1]}.{f.qualname}:{base.id}:table", f, f"`{norm(x)}` looks the caller's {base.id} up in {tab}; the {base.id}s are the keys of {want}: the lookup raises KeyError for every element", node=x)
                    continue
                if tab == "byZ":
                    r.ok(f"{mname.rsplit('.', 1)[-1]}.{f.qualname}:{base.id}:table", f, node=x)
                    continue
                miss = []
                for k in sorted(stored[tab]):
                    k2 = k
                    for t in tf:
                        k2 = T[t](k2)
                    if k2 not in stored[tab]:
                        miss.append((k, k2))
                r.require(not miss, f"{mname.rsplit('.', 1)[-1]}.{f.qualname}:{base.id}:normalisation-finds-stored-keys", f, node=x,
                          msg=f"`{norm(x)}` normalises the argument with {tf}: {len(miss)} of {len(stored[tab])} stored keys are not found under their own spelling (e.g. {miss[0][0]!r} -> {miss[0][1]!r}): "
                              "the helper raises KeyError for them" if miss else "")
    if n < 8:
        raise AnalysisError(f"only {n} element lookups by a caller's z/symbol/name found")


def r11_natural_isotopics_filter(idx, r):
    """Element.getNaturalIsotopics selects the nuclides with a natural abundance.  Its filter is evaluated on every row of nuclides.dat: it must
    keep exactly the rows with abundance > 0 (isomeric states included: Ta-180m is the natural form of Ta-180), or the element's natural
    abundances no longer sum to one."""
    from ..minieval import MiniEval
    f = idx.method("armi.nucDirectory.elements.Element", "getNaturalIsotopics")
    ret = next((x for x in walk_local(f.node) if isinstance(x, ast.Return) and isinstance(x.value, (ast.ListComp, ast.GeneratorExp))), None)
    if ret is None or len(ret.value.generators) != 1 or norm(ret.value.generators[0].iter) != "self.nuclides":
        raise AnchorMissing("Element.getNaturalIsotopics: comprehension over self.nuclides")
    g = ret.value.generators[0]
    v = norm(g.target)
    rows = read_nuclides(idx)

    class _E(MiniEval):
        def __init__(self, row):
            super().__init__()
            self.row = row

        def _ev(self, e, env):
            if isinstance(e, ast.Attribute) and norm(e.value) == v:
                key = {"abundance": "abund", "a": "a", "z": "z", "state": "s", "n": "n"}.get(e.attr)
                if key is None:
                    raise AnalysisError(f"getNaturalIsotopics: attribute `{e.attr}` is not a column of nuclides.dat")
                return self.row[key]
            return super()._ev(e, env)
    wrong = []
    for row in rows:
        keep = all(_E(row)._truth(_E(row)._ev(c, {})) for c in g.ifs)
        if keep != (row["abund"] > 0.0 and row["a"] > 0):
            wrong.append(row)
    r.require(not wrong, "natural-isotopics:exactly-the-rows-with-abundance", f, node=ret,
              msg=(f"{len(wrong)} nuclide(s) with a natural abundance are filtered differently, e.g. {wrong[0]['sym']}{wrong[0]['a']}{'M' if wrong[0]['s'] else ''} (abundance {wrong[0]['abund']}, state "
                   f"{wrong[0]['s']}): the element's natural isotopics no longer sum to one and its elemental expansion loses that share") if wrong else "")
    nat_iso = [row for row in rows if row["abund"] > 0 and row["s"] > 0]
    r.require(bool(nat_iso), "natural-isomer-present-in-data", f, msg="nuclides.dat holds a natural isomer (the case that distinguishes the filters)")


def r12_label_table_and_composition_edits(idx, r):
    """(a) the last character of a nuclide label encodes (A mod 10) + 10 x state through a 40-character table: each block of ten is the
    digits / letters in ASCENDING order (0-9, A-J, K-T, U-Z a-d), so the label decodes to its A; a transposition inside a block is still a
    bijection (no collision at import) but labels two nuclides with each other's mass number.  (b) a material's duplicate() starts the copy's
    composition from an EMPTY mapping (the constructor filled it with the class default).  (c) setMassFrac refuses an out-of-range fraction
    BEFORE it stores it."""
    f = idx.method("armi.nucDirectory.nuclideBases.NuclideBase", "_createLabel")
    tab = None
    for x in ast.walk(f.node):
        if isinstance(x, ast.Subscript) and isinstance(x.value, ast.Constant) and isinstance(x.value.value, str) and len(x.value.value) >= 40:
            tab = x.value.value
    if tab is None:
        raise AnchorMissing("NuclideBase._createLabel: the 40-character last-digit table")
    bad = [(k // 10, tab[k:k + 2]) for k in range(len(tab) - 1) if (k % 10) != 9 and not (ord(tab[k + 1]) > ord(tab[k]))]
    r.require(len(tab) == 40 and not bad and len(set(tab)) == 40, "label-table:ascending-within-each-state-block", f,
              msg=f"the last-character table `{tab}` is not ascending inside state block {bad[0][0] if bad else '?'} (`{bad[0][1] if bad else ''}`): the labels of two nuclides of that state carry each other's last digit of A")
    n = 0
    mm = idx.module("armi.materials.material")
    for c in mm.classes.values():
        d = c.methods.get("duplicate")
        if d is None:
            continue
        n += 1
        v = next((s_.attr for s_ in iter_stores(d.node) if isinstance(s_.node, ast.Name) and isinstance(s_.value, ast.Call) and norm(s_.value) in ("self.__class__()", "type(self)()")), None)
        fresh = [s_ for s_ in iter_stores(d.node) if s_.chain == f"{v}.massFrac" and s_.kind == "assign" and (isinstance(s_.value, (ast.Dict, ast.DictComp)) or (isinstance(s_.value, ast.Call) and dotted(s_.value.func) in ("dict", "copy.copy", "copy.deepcopy")))]
        merged = [c_ for c_ in iter_calls(d.node) if call_attr(c_) == "update" and norm(c_.func.value) == f"{v}.massFrac"]
        r.require(v is not None and bool(fresh) and (not merged or fresh[0].stmt.lineno < merged[0].lineno), f"{c.name}.duplicate:composition-replaced-not-merged", d, node=merged[0] if merged else None,
                  msg="the copy's composition is filled into the class-default composition its constructor built: a nuclide the original no longer holds (custom isotopics, clearMassFrac) stays in the copy and the fractions sum to more than one")
    if n < 2:
        raise AnalysisError(f"only {n} duplicate() implementations found")
    sm = idx.method("armi.materials.material.Material", "setMassFrac")
    st = [s_ for s_ in iter_stores(sm.node) if s_.kind == "subscript" and norm(s_.node.value) == "self.massFrac"]
    guards = [x for x in walk_local(sm.node) if isinstance(x, ast.If) and any(isinstance(y, ast.Raise) for y in x.body) and sm.params()[2] in norm(x.test) and ("0.0" in norm(x.test) or "1.0" in norm(x.test))]
    if not st or not guards:
        raise AnchorMissing("Material.setMassFrac: range guard and store")
    fl = Flow(sm.node, lambda nd: ["checked"] if any(nd is g_ for g_ in guards) else []).run()
    for s_ in st:
        stb = fl.state_before(s_.stmt)
        r.require(stb is not None and stb.get("checked", (0, 0))[0] >= 1, "setMassFrac:range-checked-before-stored", sm, node=s_.stmt,
                  msg="the fraction is stored before it is range-checked: a refused call (ValueError) leaves the out-of-range value - or an unknown nuclide - in the composition")


def r13_defaults_idempotent(idx, r):
    """setDefaultMassFracs is also used to RESET a material.  A balance element computed as `1 - sum(self.massFrac.values())` includes the
    balance left by an earlier call: the second call sets the balance to about zero and the composition no longer sums to one.  The remainder
    must leave the balance nuclide itself out of the sum (or the method must empty the composition first)."""
    n = 0
    for m in idx.modules.values():
        if not m.name.startswith("armi.materials") or ".tests" in m.name:
            continue
        for f in m.all_funcs():
            if f.name != "setDefaultMassFracs" or f.cls is None:
                continue
            cleared = [x for x in walk_local(f.node) if (isinstance(x, ast.Call) and norm(x.func) in ("self.clearMassFrac", "self.massFrac.clear")) or (isinstance(x, ast.Assign) and norm(x) in ("self.massFrac = {}", "self.massFrac = dict()"))]
            env = single_assign_env(f.node)
            for c in iter_calls(f.node):
                if dotted(c.func) == "self.setMassFrac" and len(c.args) == 2:
                    v = propagate(c.args[1], env)
                    sums = [x for x in ast.walk(v) if isinstance(x, ast.Call) and dotted(x.func) == "sum" and x.args and "self.massFrac" in norm(x.args[0])]
                    if not sums:
                        continue
                    n += 1
                    nuc = norm(c.args[0])
                    excl = any(isinstance(x.args[0], (ast.GeneratorExp, ast.ListComp)) and any(nuc in norm(cond) and "!=" in norm(cond) for g in x.args[0].generators for cond in g.ifs) for x in sums)
                    first = bool(cleared) and cleared[0].lineno < c.lineno
                    r.require(excl or first, f"{f.cls.name}.setDefaultMassFracs:balance-independent-of-earlier-calls", f, node=c,
                              msg=f"`{norm(c)[:80]}` takes the balance from everything the composition holds, the {nuc} of an earlier call included: calling setDefaultMassFracs() again "
                                  f"(how materials are reset) sets {nuc} to about zero and the fractions sum to well below one")
    if n < 3:
        raise AnalysisError(f"only {n} balance-element computations found")


MATERIAL = "armi.materials.material.Material"
REFDENS_EXEMPT = {
    "Custom": "density is given by the input (custom isotopics), not by the library",
    "Void": "a void has no mass by definition",
}


def r14_reference_density(idx, r):
    """Material.density / Material.pseudoDensity divide `self.refDens`, which Material.__init__ sets to 0.0.  A library material whose
    density() or pseudoDensity() ends (directly, through super(), or through the other of the two) in the base implementation therefore needs
    an assignment of `self.refDens` in one of its own methods, or that entry point returns 0.  A class attribute `refDens` does not count:
    the instance attribute written by Material.__init__ hides it."""
    base = idx.cls(MATERIAL)
    subs = [c for c in idx.subclasses(base) if c.fq.startswith("armi.materials.") and ".tests" not in c.fq]
    leaves = [c for c in subs if not any(o is not c and c in o.mro()[1:] for o in subs)]
    n = 0
    for c in sorted(leaves, key=lambda k: k.fq):
        if c.name in REFDENS_EXEMPT or c.name.startswith("_"):
            continue
        own = [k for k in c.mro() if k.fq != MATERIAL and k.fq.startswith("armi.")]
        sets = [s_ for k in own for f in k.methods.values() for s_ in iter_stores(f.node) if s_.chain == "self.refDens" and s_.value is not None and norm(s_.value) not in ("0.0", "0", "None")]
        shadowed = [k.name for k in own if any(isinstance(st, ast.Assign) and any(norm(t) == "refDens" for t in st.targets) for st in k.node.body)]
        for entry in ("density", "pseudoDensity"):
            seen, todo, needs = set(), [(None, entry)], False
            while todo:
                start, m = todo.pop()
                f = c.resolve(m) if start is None else c.resolve_after(start, m)
                if f is None or (f.cls.fq, m) in seen:
                    continue
                seen.add((f.cls.fq, m))
                if f.cls.fq == MATERIAL:
                    needs = True
                    break
                for call in iter_calls(f.node):
                    t = norm(call.func)
                    if t in (f"super().{m}", f"super({f.cls.name}, self).{m}") or (call_attr(call) == m and t.split(".")[0] not in ("self", "super()") and call.args and norm(call.args[0]) == "self"):
                        todo.append((f.cls, m))
                    for other in ("density", "pseudoDensity"):
                        if t == f"self.{other}" and other != m:
                            todo.append((None, other))
            if not needs:
                continue
            n += 1
            r.require(bool(sets), f"{c.name}.{entry}:reference-density-assigned", c, node=c.node,
                      msg=f"{c.name}.{entry}() ends in Material.{entry if (c.resolve(entry).cls.fq == MATERIAL) else 'density/pseudoDensity'}, which divides self.refDens, but no method of {c.name} assigns self.refDens "
                          f"(Material.__init__ sets 0.0{'; the class attribute refDens of ' + shadowed[0] + ' is hidden by it' if shadowed else ''}): the density is 0 at every temperature")
    if n < 20:
        raise AnalysisError(f"only {n} materials found that use the base density")


def r15_relabel_redistribute_dedupe(idx, r):
    """(a) nuclideBases.changeLabel keeps the label index in step: the nuclide is entered under its NEW label (the parameter, or the attribute
    after it was set).  (b) MOX.setMassFracPuO2 splits the uranium + plutonium share between the two elements: the total it redistributes is
    exactly the sum of the two element sums it divides by - a total obtained as a complement (1 - oxygen) would also hand out the share of
    the nuclides carried separately (AM241), and the fractions would no longer sum to one.  (c) Element.append refuses a duplicate by
    membership of the nuclide itself; pseudo-nuclides of one element share A = 0 and state 0 (DUMP1/DUMP2, the lumped fission products) and
    would be dropped by any coarser key."""
    from ..exprnf import ExprEval
    f = idx.func("armi.nucDirectory.nuclideBases.changeLabel")
    nb_, new = f.params()[:2]
    sts = [s_ for s_ in iter_stores(f.node) if s_.kind == "subscript" and norm(s_.node.value) == "byLabel"]
    lab = [s_ for s_ in iter_stores(f.node) if s_.chain == f"{nb_}.label"]
    if len(sts) != 1 or len(lab) != 1:
        raise AnchorMissing("changeLabel: label assignment and byLabel store")
    key = norm(sts[0].node.slice)
    okk = key == new or (key == f"{nb_}.label" and lab[0].stmt.lineno < sts[0].stmt.lineno)
    r.require(okk and norm(sts[0].value) == nb_ and norm(lab[0].value) == new, "changeLabel:entered-under-the-new-label", f, node=sts[0].stmt,
              msg=f"`{norm(sts[0].stmt)}` does not enter the nuclide under its new label: after a library names NP237 `NEP7`, byLabel['NEP7'] is missing while the nuclide says its label is NEP7")
    g = idx.method("armi.materials.mox.MOX", "setMassFracPuO2")
    env = single_assign_env(g.node)
    if "total" not in env:
        raise AnchorMissing("MOX.setMassFracPuO2: total")
    sums = [n_ for n_, v in env.items() if isinstance(v, ast.Call) and dotted(v.func) == "sum"]
    divs = {norm(x.right) for c in iter_calls(g.node) if dotted(c.func) == "self.setMassFrac" for x in ast.walk(c) if isinstance(x, ast.BinOp) and isinstance(x.op, ast.Div)}
    E = ExprEval(env={n_: Poly.atom(n_) for n_ in sums}, opaque=False)
    try:
        tot = E.ev(env["total"])
        want = None
        for d in sorted(divs):
            want = Poly.atom(d) if want is None else want + Poly.atom(d)
        okt = want is not None and tot == want
    except AnalysisError:
        okt = False
    r.require(okt, "MOX.setMassFracPuO2:total-is-the-sum-of-the-redistributed-elements", g,
              msg=f"`total = {norm(env['total'])}` is not the sum of the element sums the loops divide by ({sorted(divs)}): what is handed out differs from what those nuclides held, and the composition no longer sums to one")
    h = idx.method("armi.nucDirectory.elements.Element", "append")
    nuc = h.params()[1]
    early = [x for x in h.node.body if isinstance(x, ast.If) and any(isinstance(y, ast.Return) for y in x.body)]
    if len(early) != 1:
        raise AnchorMissing("Element.append: the duplicate test")
    r.require(norm(early[0].test) == f"{nuc} in self.nuclides", "Element.append:duplicate-means-the-same-nuclide", h, node=early[0],
              msg=f"a nuclide is refused when `{norm(early[0].test)[:80]}`: distinct nuclides that agree on that key (the pseudo-nuclides of one element all have A = 0, state 0) are dropped from their element")


def r17_identity_keys_and_complete_compositions(idx, r):
    """(a) nuclides compare equal when their hashes are equal (INuclide.__eq__), and Element.append refuses a nuclide that is already `in`
    the element: a class that orders its instances by a key (`__lt__`) hashes the SAME attributes.  Dropping the weight from the hash of the
    dummy nuclides makes DUMP1 == DUMP2, and the second one never joins its element.  (b) B4C's enrichment helper returns the three mass
    fractions that belong together (B10, B11 and the carbon that changes with them): a caller that unpacks them stores all three - two of
    three leave a composition that does not sum to one."""
    nb = idx.module("armi.nucDirectory.nuclideBases")
    n = 0
    for c in [k for k in nb.tree.body if isinstance(k, ast.ClassDef)]:
        h = next((x for x in c.body if isinstance(x, ast.FunctionDef) and x.name == "__hash__"), None)
        lt = next((x for x in c.body if isinstance(x, ast.FunctionDef) and x.name == "__lt__"), None)
        if h is None or lt is None:
            continue
        ht = next((x for x in ast.walk(h) if isinstance(x, ast.Tuple)), None)
        lt_t = next((x for x in ast.walk(lt) if isinstance(x, ast.Tuple) and all(isinstance(e, ast.Attribute) and norm(e.value) == "self" for e in x.elts)), None)
        if ht is None or lt_t is None:
            continue
        n += 1
        a, b = {e.attr for e in ht.elts if isinstance(e, ast.Attribute)}, {e.attr for e in lt_t.elts}
        r.require(a == b, f"{c.name}:hash-and-order-use-the-same-attributes", (nb.relpath, h.lineno, c.name), node=None,
                  msg=f"{c.name} orders by {sorted(b)} but hashes {sorted(a)}: instances that differ only in {sorted(a ^ b)} compare equal (equality is by hash), so the second of them is treated as already present")
    if n < 3:
        raise AnchorMissing("nuclide classes with __hash__ and __lt__")
    k = 0
    for f in idx.module("armi.materials.b4c").all_funcs():
        for x in walk_local(f.node):
            if isinstance(x, ast.Assign) and isinstance(x.value, ast.Call) and call_attr(x.value) == "setNewMassFracsFromMassEnrich" and isinstance(x.targets[0], ast.Tuple):
                k += 1
                names = [t.id for t in x.targets[0].elts if isinstance(t, ast.Name)]
                stored = {y.id for c in iter_calls(f.node) if call_attr(c) in ("setMassFrac", "setMassFracs") for y in ast.walk(c) if isinstance(y, ast.Name)}
                miss = [n_ for n_ in names if n_ not in stored]
                r.require(len(names) == 3 and not miss, f"{f.qualname}:all-three-fractions-stored", f, node=x,
                          msg=f"the fractions {miss} returned by setNewMassFracsFromMassEnrich are dropped: boron is re-enriched but the carbon keeps its old fraction, and the composition no longer sums to one")
    if k < 1:
        raise AnchorMissing("b4c: unpacking of setNewMassFracsFromMassEnrich")


def r19_stated_ranges_are_ranges(idx, r):
    """Every validity range a library material states for a property - `propertyValidTemperature = {name: ((low, high), unit)}` - is a range:
    low < high.  With the bounds exchanged (or a digit slipped: 3715 for 371.5) NO temperature is inside, so the property is reported out of
    range - refused, in strict mode - wherever it is evaluated, and "finite over its stated range" is vacuous."""
    n = 0
    for c in idx.all_classes():
        if not c.fq.startswith("armi.materials.") or ".tests" in c.fq:
            continue
        for st in c.node.body:
            if not (isinstance(st, ast.Assign) and any(norm(t) == "propertyValidTemperature" for t in st.targets) and isinstance(st.value, ast.Dict)):
                continue
            for k_, v in zip(st.value.keys, st.value.values):
                if not (isinstance(v, ast.Tuple) and v.elts and isinstance(v.elts[0], ast.Tuple) and len(v.elts[0].elts) == 2):
                    continue
                lo, hi = v.elts[0].elts
                try:
                    a, b = idx.fold(c.module, lo, cls=c), idx.fold(c.module, hi, cls=c)
                except Exception:
                    continue
                if not all(isinstance(x, (int, float)) for x in (a, b)):
                    continue
                n += 1
                r.require(a < b, f"{c.name}:{const_str(k_)}:range-has-its-lower-bound-first", (c.module.relpath, v.lineno, c.name),
                          msg=f"{c.name} states the range ({a}, {b}) for {const_str(k_)!r}: no temperature lies in it, every evaluation of the property is out of range")
    if n < 40:
        raise AnchorMissing("stated validity ranges in armi.materials")


def r16_pairing(idx, r):
    from ..pairing import pairing_rule
    pairing_rule(idx, r, ["armi.nucDirectory", "armi.materials"], 80)


def r18_blend_range_ends_and_critical_point(idx, r):
    """(a) the class1/class2 isotopics blend renormalises every heavy-metal nuclide the MATERIAL holds, not only those of the two feeds
    (clause of R18.12): a nuclide in neither feed otherwise keeps its old fraction and the composition sums to more than one.
    (b) Material.checkTempRange accepts both ends of a stated range (`minT <= val <= maxT`): the upper limit is part of the range.
    (c) Sodium's density has a square root of (1 - T / Tcrit): over the stated range of the density it must not go negative, i.e. Tcrit is not
    below the upper limit of that range (compared exactly, as decimal numbers)."""
    from fractions import Fraction
    from ..report import Only
    from .c18 import r12_skips_mixes_and_refused_maps as r12_modification_scope
    r12_modification_scope(idx, Only(r, ["isotopics-mix"]))
    f = idx.method("armi.materials.material.Material", "checkTempRange")
    cmp_ = [x for x in ast.walk(f.node) if isinstance(x, ast.Compare) and len(x.ops) == 2]
    if len(cmp_) != 1:
        raise AnchorMissing("checkTempRange: minT <= val <= maxT")
    r.require(all(isinstance(o, (ast.LtE, ast.GtE)) for o in cmp_[0].ops), "checkTempRange:both-limits-are-in-range", f, node=cmp_[0],
              msg=f"`{norm(cmp_[0])}` excludes a stated limit: a property evaluated exactly at the limit of its own validity range is reported (or, in strict mode, refused) as out of range")
    so = idx.cls("armi.materials.sodium.Sodium")
    pd = so.methods.get("pseudoDensity")
    rng = next((st for st in so.node.body if isinstance(st, ast.Assign) and norm(st.targets[0]) == "propertyValidTemperature"), None)
    if pd is None or rng is None:
        raise AnchorMissing("Sodium.pseudoDensity / propertyValidTemperature")
    tc = next((s_.value for s_ in iter_stores(pd.node) if s_.kind == "assign" and isinstance(s_.node, ast.Name) and s_.node.id.lower() == "tcrit" and isinstance(s_.value, ast.Constant)), None)
    dens = next((v for k_, v in zip(rng.value.keys, rng.value.values) if const_str(k_) == "density"), None)
    if tc is None or dens is None:
        raise AnchorMissing("Sodium: Tcrit constant / density range")
    segs = {}
    txt = idx.read(so.module.relpath)
    import re as _re
    def lit(node):
        seg = ast.get_source_segment(txt, node)
        return Fraction(seg) if seg and _re.fullmatch(r"[0-9.]+", seg) else Fraction(str(node.value))
    hi = lit(dens.elts[0].elts[1])
    unit = const_str(dens.elts[1])
    hiK = hi + Fraction("273.15") if unit == "C" else hi
    r.require(lit(tc) >= hiK, "Sodium.pseudoDensity:critical-temperature-not-below-the-range", pd,
              msg=f"Tcrit = {float(lit(tc))} K lies below the upper limit of the stated density range ({float(hiK)} K): near the top of the range the square root is taken of a negative number and the density is complex")


def run(idx, chk):
    chk.explanation = (
        "C19: nuclides.dat, elements.dat, burn-chain.yaml and mcc-nuclides.yaml are parsed as data and linted exhaustively (unique (Z,A,S), N=A-Z, "
        "symbols per element, abundances per element summing to 1 or 0, every burn-chain key/product a known name, branch in [0,1], MC2 ids unique per "
        "library); index dictionaries written only inside nuclideBases, each checked store dominated by its duplicate test; identifier formats embed "
        "A, Z(3) and the state number; every default material composition in armi/materials folded (numerically or symbolically) to one. "
        "Uniqueness of derived labels over the whole table and density/expansion finiteness over temperature ranges are NOT decided."
    )
    chk.undecided_clauses = ["uniqueness of derived labels (needs evaluating id functions on every row)", "finite positive density / expansion over each material's range", "every material can be instantiated"]
    chk.run_rule("R19.1", "data files: unique (Z,A,S), N=A-Z, symbols, abundances sum to 1 or 0, burn-chain names exist, branch in [0,1], MC2 ids unique per library", lambda r: r1_data(idx, r), floor=12,
                 necessary="internal consistency of the directory data")
    chk.run_rule("R19.2", "nuclide indices are written only in nuclideBases; duplicate tests dominate the stores; nuclides register through addGlobalNuclide; factory refuses re-initialisation", lambda r: r2_registration(idx, r), floor=25,
                 necessary="no two nuclides share an identifier; each lookup returns that same nuclide")
    chk.run_rule("R19.3", "identifier formats embed atomic number, mass number and isomeric state injectively", lambda r: r3_identifier_formats(idx, r), floor=5, necessary="identifiers encode Z, A and state")
    chk.run_rule("R19.4", "every default material composition that folds sums to one (1e-4) with no negative fraction", lambda r: r4_compositions(idx, r), floor=30, necessary="mass fractions summing to one within data precision")
    chk.run_rule("R19.5", "every value-returning material property method returns a value or raises on every path (no gap in a piecewise correlation)", lambda r: r5_property_total(idx, r), floor=100,
                 necessary="'finite positive density and finite expansion at every temperature in its stated range'")
    chk.run_rule("R19.6", "each lookup table byX is keyed by the identifier that getX() returns (also through aliases and delegating getters)", lambda r: r6_index_getter_agreement(idx, r), floor=3,
                 necessary="'every nuclide can be retrieved through each identifier it has, each lookup returns that same nuclide'")
    chk.run_rule("R19.7", "tearing the directory down empties every registry that registration fills (tables, instances, the elements' nuclide lists)", lambda r: r7_destroy_resets_all(idx, r), floor=8,
                 necessary="'each nuclide belongs to the element with its atomic number' and every lookup returns THAT nuclide, also after the directory was rebuilt")
    chk.run_rule("R19.8", "a loop that renormalises the nuclides of one element divides by that element's own total", lambda r: r8_renormalisation_loops(idx, r), floor=2,
                 necessary="library materials have mass fractions summing to one, also after an input modification re-splits two elements")
    chk.run_rule("R19.9", "a nuclide joins its element only after registration accepted it; applyInputParams assigns a field before computing the composition from it", lambda r: r9_register_then_attach(idx, r), floor=3,
                 necessary="a rejected registration leaves the directory consistent; every material composition is normalised for every admitted input")
    chk.run_rule("R19.10", "element look-ups consult the table of the argument's kind and normalise it so that every stored key finds itself (all elements)", lambda r: r10_element_lookups(idx, r), floor=8,
                 necessary="every element is reachable by number, symbol and name through the directory's own helpers")
    chk.run_rule("R19.11", "getNaturalIsotopics keeps exactly the data rows with a natural abundance (evaluated on all of nuclides.dat)", lambda r: r11_natural_isotopics_filter(idx, r), floor=2,
                 necessary="natural abundances of every element sum to one (or zero)")
    chk.run_rule("R19.12", "label table ascending per state block; duplicate() replaces the composition; setMassFrac checks before storing", lambda r: r12_label_table_and_composition_edits(idx, r), floor=4,
                 necessary="every identifier decodes to its (Z, A, state); compositions stay normalised through copies and refused edits")
    chk.run_rule("R19.13", "a balance element is computed without the balance of an earlier call (setDefaultMassFracs is idempotent)", lambda r: r13_defaults_idempotent(idx, r), floor=3,
                 necessary="every default composition sums to one however often the defaults are (re-)applied")
    chk.run_rule("R19.14", "a material whose density()/pseudoDensity() ends in the base implementation assigns the reference density it divides", lambda r: r14_reference_density(idx, r), floor=20,
                 necessary="every library material has finite positive density")
    chk.run_rule("R19.15", "a re-labelled nuclide is indexed under the new label; MOX redistributes exactly the U+Pu total; Element.append refuses only the same nuclide", lambda r: r15_relabel_redistribute_dedupe(idx, r), floor=3,
                 necessary="each lookup returns the nuclide that carries the identifier; compositions sum to one; each nuclide belongs to its element")
    chk.run_rule("R19.16", "arguments stand at the parameter they are named after; sibling calls forward the same pass-through parameters", lambda r: r16_pairing(idx, r), floor=1,
                 necessary="Tk and Tc are handed to the parameter of their unit")
    chk.run_rule("R19.17", "a nuclide class hashes the attributes it orders by; the three B4C fractions are stored together", lambda r: r17_identity_keys_and_complete_compositions(idx, r), floor=4,
                 necessary="each nuclide belongs to its element; compositions sum to one")
    chk.run_rule("R19.18", "the isotopics blend covers the material's nuclides (R18.12); both range limits are in range; Sodium's critical temperature bounds its density range", lambda r: r18_blend_range_ends_and_critical_point(idx, r), floor=3,
                 necessary="compositions sum to one; every property is defined (finite, real) over its stated range")
    chk.run_rule("R19.19", "every stated validity range has its lower bound below its upper bound (all library materials)", lambda r: r19_stated_ranges_are_ranges(idx, r), floor=40,
                 necessary="a material property is defined at every temperature of its stated range - which must contain temperatures")
