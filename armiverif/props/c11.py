"""C11 - axial re-meshing: role typing of the overlap scalings (source / destination / overlap
heights), classification of parameters from their definitions, the partition check of
getBlocksBetweenElevations, contiguous construction of the new mesh, the complete-scan shape of
the mesh filter, exact forms of the partial-bin fractions.  Structural necessary conditions only."""
from __future__ import annotations

import ast

from ..astutil import call_attr, get_arg, iter_calls, iter_stores, propagate, single_assign_env, walk_local
from ..exprnf import ExprEval, Poly, Rat, RatEval
from ..flow import Flow, always_exits, path_conditions
from ..index import AnalysisError, AnchorMissing, dotted, norm
from ..units import LIT, ONE, TOP, ZERO, Law, U, analyze, known

UM = "armi.reactor.converters.uniformMesh"
N = U("N")
HOVL, HDST, HSRC = U("hovl"), U("hdst"), U("hsrc")


def _source_pairs_rule(f, blk, r):
    """The (nuclide, density) pairs that are accumulated come from EACH overlapping source block, never from the
    destination block (whose composition is a template: a nuclide only a source block holds must still be counted)."""
    outer = next((n for n in f.node.body if isinstance(n, ast.For) and isinstance(n.target, ast.Tuple)), None)
    if outer is None:
        raise AnalysisError("setNumberDensitiesFromOverlaps: loop over (block, overlap height) pairs not found")
    src = outer.target.elts[0].id
    inner = next((n for n in walk_local(outer) if isinstance(n, ast.For) and n is not outer), None)
    if inner is None:
        raise AnalysisError("setNumberDensitiesFromOverlaps: loop over nuclide densities not found")
    defs = {}
    for st in walk_local(f.node):
        if isinstance(st, ast.Assign) and len(st.targets) == 1 and isinstance(st.targets[0], ast.Name):
            defs.setdefault(st.targets[0].id, []).append(st.value)

    def roots(e, seen=frozenset()):
        out = set()
        for n in ast.walk(e):
            if isinstance(n, ast.Name) and isinstance(n.ctx, ast.Load) and n.id not in ("zip", "dict", "list", "sorted", "enumerate"):
                if n.id in defs and n.id not in seen:
                    for v in defs[n.id]:
                        out |= roots(v, seen | {n.id})
                else:
                    out.add(n.id)
        return out
    rs = roots(inner.iter)
    r.require(src in rs and blk not in rs, "N:pairs-from-each-source-block", f, node=inner,
              msg=f"the nuclides accumulated are taken from {sorted(rs)}: they must come from the overlapping source block `{src}` alone; taking the nuclide list from the "
                  f"destination `{blk}` loses every nuclide that only a source block holds (atoms are not conserved)")


def r1_roles(idx, r):
    f = idx.func(UM + ".setNumberDensitiesFromOverlaps")
    blk, info = f.params()[:2]
    _source_pairs_rule(f, blk, r)

    def hook(call, ev):
        if call_attr(call) == "getHeight" and isinstance(call.func, ast.Attribute):
            recv = norm(call.func.value)
            return HDST if recv == blk else HSRC
        return None
    law = Law(methods={"getNumberDensities": N}, names={info: (TOP, HOVL)}, call_hook=hook)
    ev = analyze(f.node, law, sink_names={"setNumberDensities"})
    ok = not ev.conflicts
    sinks = [(c, a) for c, a, k in ev.sinks if call_attr(c) == "setNumberDensities"]
    if not sinks:
        raise AnalysisError("setNumberDensitiesFromOverlaps: setNumberDensities call not found")
    got = ev.flat(sinks[0][1][0])
    if not known(got):
        raise AnalysisError("setNumberDensitiesFromOverlaps: densities left the typed fragment")
    r.require(ok and got == N * HOVL / HDST, "setNumberDensitiesFromOverlaps:N*overlap/destination", f, node=sinks[0][0],
              msg=f"new density must be sum of N_src x overlap height / DESTINATION block height (atoms conserved); typed as {got}")
    r.require(norm(sinks[0][0].func.value) == blk, "setNumberDensitiesFromOverlaps:target", f, node=sinks[0][0], msg="the destination block receives the densities")
    acc = [n for n in walk_local(f.node) if isinstance(n, ast.AugAssign)]
    r.require(len(acc) == 1 and isinstance(acc[0].op, ast.Add) and not [n for n in walk_local(f.node) if isinstance(n, (ast.Continue, ast.Break))], "setNumberDensitiesFromOverlaps:additive", f,
              msg="every overlapping source block contributes additively, none is skipped")
    vol = [s for s in iter_stores(f.node) if s.chain and s.chain.endswith(".p.volume")]
    r.require(bool(vol), "setNumberDensitiesFromOverlaps:volumes-reset", f, msg="component volumes must be recomputed after the densities changed")

    g = idx.method(UM + ".UniformMeshGeometryConverter", "setAssemblyStateFromOverlaps")
    env = {}
    for s in iter_stores(g.node):
        if isinstance(s.node, ast.Name) and s.value is not None:
            env.setdefault(s.attr, []).append(s)
    from ..astutil import cond_values
    conds = {norm(v): [(norm(t), p) for t, p in c_ if "isVolIntegrated" in norm(t)] for v, c_ in cond_values(g.node, "denominator")}
    r.require(conds == {"sourceBlockHeight": [("paramMapper.isVolIntegrated[paramName]", True)], "destinationBlockHeight": [("paramMapper.isVolIntegrated[paramName]", False)]}, "state:denominators", g,
              msg=f"volume-integrated parameters scale by overlap/SOURCE height (totals conserved), all others by overlap/DESTINATION height (height-weighted mean): {conds}")
    srcs = {k: norm(v[0].value) for k, v in env.items() if k in ("sourceBlockHeight", "destinationBlockHeight", "integrationFactor", "zLower", "zUpper")}
    want = {"sourceBlockHeight": "sourceBlock.getHeight()", "destinationBlockHeight": "destBlock.getHeight()", "integrationFactor": "sourceBlockOverlapHeight / denominator", "zLower": "destBlock.p.zbottom", "zUpper": "destBlock.p.ztop"}
    r.require(srcs == want, "state:definitions", g, msg=f"heights and the integration factor: {srcs}")
    acc = [n for n in walk_local(g.node) if isinstance(n, ast.AugAssign) and norm(n.target) == "updatedDestVals[paramName]"]
    r.require(len(acc) == 1 and isinstance(acc[0].op, ast.Add) and norm(acc[0].value) in ("sourceBlockVal * integrationFactor", "integrationFactor * sourceBlockVal"), "state:accumulate", g,
              msg="each source value contributes value x integration factor, additively")
    pk = [s for s in iter_stores(g.node) if s.kind == "subscript" and norm(s.node) == "updatedDestVals[paramName]" and s.value is not None
          and any("isPeak" in norm(t) and p for t, p in path_conditions(g.node, s.stmt))]
    maxes = [s for s in pk if isinstance(s.value, ast.Call) and dotted(s.value.func) == "max" and {norm(a) for a in s.value.args} == {"sourceBlockVal", "updatedDestVals[paramName]"}]
    r.require(len(maxes) == 1 and all(s in maxes or norm(s.value) == "sourceBlockVal" for s in pk), "state:peak-takes-max", g, msg="peak quantities take the largest overlapped value")
    # ... and the running maximum must start from the first overlapped value, not from an implicit 0.0 (wrong for negative quantities)
    acc = next((s for s in iter_stores(g.node) if isinstance(s.node, ast.Name) and s.attr == "updatedDestVals" and s.value is not None), None)
    zero_default = acc is not None and isinstance(acc.value, ast.Call) and (dotted(acc.value.func) or "").endswith("defaultdict") and acc.value.args and norm(acc.value.args[0]) in ("float", "int")
    if maxes:
        guarded = any("in updatedDestVals" in norm(t) and p for t, p in path_conditions(g.node, maxes[0].stmt))
        r.require(not zero_default or guarded, "state:peak-starts-from-first-value", g, node=maxes[0].stmt,
                  msg="the running maximum of a peak parameter is read from a defaultdict(float): it starts at 0.0, so a quantity that is negative everywhere maps to 0.0 "
                      "instead of its largest overlapped value (a constant negative profile does not stay constant)")
    inner = next((n for n in walk_local(g.node) if isinstance(n, ast.For) and "zip(paramMapper.blockParamNames, sourceBlockVals)" == norm(n.iter)), None)
    if inner is None:
        raise AnalysisError("setAssemblyStateFromOverlaps: parameter loop not found")
    skips = [n for n in walk_local(inner) if isinstance(n, ast.Continue)]
    okc = len(skips) == 1 and [(norm(t), p) for t, p in path_conditions(ast.Module(body=inner.body, type_ignores=[]), skips[0])] == [("sourceBlockVal is None", True)]
    r.require(okc, "state:only-unset-skipped", g, node=skips[0] if skips else inner,
              msg="a source value may be skipped only when it is unset (None); skipping zeros leaves stale values of an earlier mapping in the destination")
    outer = next((n for n in walk_local(g.node) if isinstance(n, ast.For) and norm(n.iter) == "sourceBlocksInfo"), None)
    r.require(outer is not None and not [n for n in outer.body if isinstance(n, (ast.If,)) and any(isinstance(x, (ast.Continue, ast.Break)) for x in n.body)], "state:every-overlap-used", g, msg="every overlapping source block is used")
    gb = next((c for c in iter_calls(g.node) if call_attr(c) == "getBlocksBetweenElevations"), None)
    r.require(gb is not None and norm(gb.func.value) == "sourceAssembly" and [norm(a) for a in gb.args] == ["zLower", "zUpper"], "state:overlaps-from-source", g, node=gb, msg="overlaps are those of the SOURCE assembly with the destination block's elevations")
    st = next((c for c in iter_calls(g.node) if call_attr(c) == "paramSetter"), None)
    r.require(st is not None and [norm(a) for a in st.args] == ["destBlock", "updatedDestVals.values()", "updatedDestVals.keys()"], "state:set-on-destination", g, node=st, msg="the mapped values are set on the destination block, values and names from the same dict")

    # the setter the mapped values go through: every value is stored except None
    ps = idx.method(UM + ".ParamMapper", "paramSetter")
    if ps is None:
        raise AnchorMissing("ParamMapper.paramSetter")
    loop = next((n for n in ps.node.body if isinstance(n, ast.For)), None)
    if loop is None or not isinstance(loop.target, ast.Tuple):
        raise AnalysisError("paramSetter: loop over (name, value) pairs not found")
    vname = loop.target.elts[1].id

    def evs(n):
        if isinstance(n, ast.Call) and call_attr(n) in ("_arrayParamSetter", "_scalarParamSetter"):
            return ["stored"]
        if isinstance(n, ast.Compare) and norm(n) == f"{vname} is None":
            return ["none-test"]
        return []
    fl = Flow(ps.node, evs, body=loop.body, assume=lambda t: False if norm(t) == f"{vname} is None" else None).run()
    unstored = [e for e in fl.exits if e.kind in ("fall", "continue") and e.state.get("stored", (0, 0))[0] < 1]
    from ..astutil import truthiness_uses
    tr = truthiness_uses(ps.node, {vname})
    r.require(not unstored and not tr, "setter:only-None-skipped", ps, node=(tr[0] if tr else loop),
              msg=f"a mapped value that is not None can leave paramSetter without being stored{' (`' + vname + '` is tested for truth: exact zeros are skipped)' if tr else ''}: "
                  "the destination keeps the stale value of an earlier mapping wherever the new value is 0")

    # the getter: a list-like value counts as unset only when it is EMPTY - never because all its entries are zero
    pg = idx.method(UM + ".ParamMapper", "paramGetter")
    if pg is None:
        raise AnchorMissing("ParamMapper.paramGetter")
    valued = [c for c in ast.walk(pg.node) if isinstance(c, ast.Call) and dotted(c.func) in ("np.any", "any", "np.all", "all", "np.count_nonzero", "bool") and c.args and isinstance(c.args[0], ast.Name)]
    in_tests = [c for c in valued if any(c in list(ast.walk(t.test)) for t in ast.walk(pg.node) if isinstance(t, (ast.If, ast.IfExp)))]
    r.require(not in_tests, "getter:unset-means-empty", pg, node=in_tests[0] if in_tests else pg.node,
              msg=f"`{norm(in_tests[0]) if in_tests else ''}` decides whether an array parameter is mapped by the VALUES it holds: an all-zero array (zero flux outside the fuel) is skipped "
                  "and the destination keeps the stale value of an earlier mapping")


def r1b_height_ratios(idx, r):
    sh = idx.method("armi.reactor.blocks.Block", "setHeight")
    c = next((x for x in iter_calls(sh.node) if dotted(x.func) == "self.adjustDensity"), None)
    r.require(c is not None and norm(c.args[0]) == "originalHeight / modifiedHeight" and any(norm(s.value) == "self.getHeight()" and s.stmt.lineno < c.lineno for s in iter_stores(sh.node) if s.attr == "originalHeight"), "Block.setHeight:ratio", sh, node=c,
              msg="conserving mass on a height change scales densities by OLD height / NEW height")
    ad = idx.method("armi.reactor.blocks.Block", "adjustDensity")
    nd = [s for s in iter_stores(ad.node) if s.attr == "newDens"]
    r.require(len(nd) == 1 and norm(nd[0].value) in ("dens * frac", "frac * dens"), "Block.adjustDensity:multiplies", ad, msg="adjustDensity multiplies each listed nuclide's density by the fraction")
    sm = idx.method("armi.reactor.assemblies.Assembly", "setBlockMesh")
    hr = [s for s in iter_stores(sm.node) if s.attr == "heightRatio"]
    old = [s for s in iter_stores(sm.node) if s.attr == "oldBlockHeight"]
    seth = next((x for x in iter_calls(sm.node) if norm(x.func) == "b.setHeight"), None)
    ok = len(hr) == 1 and norm(hr[0].value) == "oldBlockHeight / b.getHeight()" and len(old) == 1 and seth is not None and old[0].stmt.lineno < seth.lineno < hr[0].stmt.lineno
    r.require(ok, "Assembly.setBlockMesh:ratio", sm, msg="snapping to a mesh with mass conservation scales by old height / new height, the old height being read before the change")
    r.require(any(norm(x) == "c.changeNDensByFactor(heightRatio)" for x in iter_calls(sm.node)), "Assembly.setBlockMesh:applies", sm, msg="the ratio is applied to every conserved component")
    zb = [s for s in iter_stores(sm.node) if s.attr == "zBottom"]
    r.require(any(norm(s.value) == "newTop" for s in zb) and seth is not None and norm(seth.args[0]) == "newTop - zBottom", "Assembly.setBlockMesh:contiguous", sm, msg="each block spans from the previous top to its new top")


def r2_classification(idx, r):
    init = idx.method(UM + ".ParamMapper", "__init__")
    st = {s.attr: norm(s.value) for s in iter_stores(init.node) if s.chain and s.chain.startswith("self.")}
    r.require(st.get("isVolIntegrated") == "{paramName: b.p.paramDefs[paramName].atLocation(parameters.ParamLocation.VOLUME_INTEGRATED) for paramName in blockParamNames}", "isVolIntegrated-from-definition", init,
              msg="whether a parameter is volume integrated must come from its definition's location")
    r.require(st.get("isPeak") == "{paramName: b.p.paramDefs[paramName].atLocation(parameters.ParamLocation.MAX) for paramName in blockParamNames}", "isPeak-from-definition", init, msg="whether a parameter is a peak must come from its definition's location")
    from .c08 import at_location_rule
    at_location_rule(idx, r)
    pg = idx.method(UM + ".ParamMapper", "paramGetter")
    loop = next((n for n in pg.node.body if isinstance(n, ast.For)), None)
    fb = Flow(pg.node, lambda n: ["app"] if isinstance(n, ast.Call) and norm(n.func) == "paramVals.append" else [], body=loop.body).run() if loop is not None else None
    r.require(fb is not None and all(s.get("app") == (1, 1) for s in fb.iteration_ends()) and norm(loop.iter) == "paramNames", "paramGetter:one-value-per-name", pg, msg="exactly one value per requested name, in order (values are zipped with names)")


def r3_partition(idx, r):
    f = idx.method("armi.reactor.assemblies.Assembly", "getBlocksBetweenElevations")
    env = {}
    for s in iter_stores(f.node):
        if isinstance(s.node, ast.Name) and s.value is not None:
            env.setdefault(s.attr, norm(s.value))
    ok = env.get("top") == "min(b.p.ztop, zUpper)" and env.get("bottom") == "max(b.p.zbottom, zLower)" and env.get("heightHere") == "top - bottom"
    r.require(ok, "overlap-formula", f, msg=f"overlap = min(ztop, zUpper) - max(zbottom, zLower): {env.get('top')}, {env.get('bottom')}, {env.get('heightHere')}")
    ap = next((c for c in iter_calls(f.node) if norm(c.func) == "blocksHere.append"), None)
    conds = [norm(t) for t, p in path_conditions(f.node, ap) if p] if ap is not None else []
    # the relative-sliver filter, as a quotient or (zero-height safe) as a product
    r.require(ap is not None and norm(ap.args[0]) == "(b, heightHere)" and conds[:1] == ["b.p.ztop >= zLower and b.p.zbottom <= zUpper"] and len(conds) == 2
              and conds[1] in ("heightHere / b.getHeight() > EPS", "heightHere > EPS * b.getHeight()", "heightHere > b.getHeight() * EPS"), "positive-overlaps-listed", f, node=ap,
              msg=f"blocks with a positive overlap are listed with that overlap: {conds}")
    dv = [x for x in walk_local(f.node) if isinstance(x, ast.BinOp) and isinstance(x.op, ast.Div) and "getHeight()" in norm(x.right)]
    r.require(not dv, "no-division-by-a-block-height", f, node=dv[0] if dv else None,
              msg=f"`{norm(dv[0]) if dv else ''}` divides by a block's height: an assembly holding a block of zero height makes every query between elevations raise ZeroDivisionError")
    chk = next((n for n in walk_local(f.node) if isinstance(n, ast.If) and any(isinstance(x, ast.Raise) for x in n.body) and "totalHeight" in norm(n.test)), None)
    r.require(chk is not None and norm(chk.test).startswith("abs(totalHeight - expectedHeight) >"), "sum-checked", f, node=chk, msg="the overlaps must be checked to sum to the interval length, loudly")
    acc = [n for n in walk_local(f.node) if isinstance(n, ast.AugAssign) and norm(n.target) == "totalHeight"]
    r.require(len(acc) == 1 and norm(acc[0].value) == "height", "sum-of-listed-overlaps", f, msg="the checked total is the sum of the listed overlaps")
    r.require(env.get("expectedHeight") == "min(allMeshPoints[-1] - allMeshPoints[0], zUpper - zLower)", "expected-length", f, msg="expected length is the interval, clipped to the assembly")
    mk = idx.method(UM + ".UniformMeshGeometryConverter", "makeAssemWithUniformMesh")
    loop = next((n for n in mk.node.body if isinstance(n, ast.For) and norm(n.iter) == "newMesh"), None)
    if loop is None:
        raise AnalysisError("makeAssemWithUniformMesh: mesh loop not found")
    t = norm(loop.target)
    sh = next((c for c in iter_calls(loop) if call_attr(c) == "setHeight"), None)
    bt = [s for s in loop.body if isinstance(s, ast.Assign) and norm(s.targets[0]) == "bottom"]
    ok = sh is not None and norm(sh.args[0]) == f"{t} - bottom" and len(bt) == 1 and norm(bt[0].value) == t and loop.body[-1] is bt[0]
    r.require(ok, "new-mesh-contiguous", mk, node=loop, msg="each new block spans [previous mesh point, this mesh point]; `bottom` advances last in the iteration")
    r.require(any(norm(s) == "bottom = 0.0" for s in mk.node.body), "new-mesh-starts-at-zero", mk, msg="the first block starts at elevation 0")
    fb = Flow(mk.node, lambda n: ["add"] if isinstance(n, ast.Call) and norm(n.func) == "newAssem.add" else [], body=loop.body).run()
    r.require(bool(fb.iteration_ends()) and all(s.get("add") == (1, 1) for s in fb.iteration_ends()), "one-block-per-mesh-cell", mk, node=loop, msg="exactly one block is added per mesh cell")
    ov = next((c for c in iter_calls(loop) if call_attr(c) == "getBlocksBetweenElevations"), None)
    r.require(ov is not None and [norm(a) for a in ov.args] == ["bottom", t], "cell-overlaps", mk, node=ov, msg="the source blocks of a cell are those between its bottom and top")
    fin = [norm(c) for c in iter_calls(mk.node) if norm(c.func).endswith("setAssemblyStateFromOverlaps")]
    r.require(fin == ["UniformMeshGeometryConverter.setAssemblyStateFromOverlaps(sourceAssem, newAssem, paramMapper, mapNumberDensities)"], "state-mapped-source-to-new", mk, msg=f"state is mapped from the source onto the new assembly: {fin}")


def r4_mesh_filter(idx, r):
    f = idx.method(UM + ".UniformMeshGenerator", "_filterMesh")
    wl = next((n for n in f.node.body if isinstance(n, ast.While)), None)
    if wl is None or norm(wl.test) != "True":
        raise AnalysisError("_filterMesh: fixpoint loop not found")
    fl = next((n for n in wl.body if isinstance(n, ast.For)), None)
    if fl is None:
        raise AnalysisError("_filterMesh: scan loop not found")
    r.require(norm(fl.iter) == "range(len(meshList) - 1)", "scan-covers-all-pairs", f, node=fl.iter,
              msg=f"every scan must compare ALL adjacent pairs from the first one (`{norm(fl.iter)}`): after a removal an earlier pair can be too close again")
    rets = [n for n in walk_local(f.node) if isinstance(n, ast.Return)]
    r.require(len(rets) == 1 and rets[0] in fl.orelse and norm(rets[0].value) == "sorted(meshList)", "returns-only-after-clean-scan", f, node=rets[0] if rets else None,
              msg="the only return is in the scan's for-else: a mesh is returned only when a complete scan found no cell thinner than the minimum")
    brk = [n for n in walk_local(fl) if isinstance(n, ast.Break)]
    okb = len(brk) == 1 and [(norm(t), p) for t, p in path_conditions(ast.Module(body=fl.body, type_ignores=[]), brk[0]) if p] == [("difference < minimumMeshSize", True)]
    r.require(okb, "break-only-on-thin-cell", f, msg="the scan stops only at a cell thinner than the minimum")
    d = next((s for s in iter_stores(fl) if s.attr == "difference"), None)
    r.require(d is not None and norm(d.value) == "abs(meshList[i + 1] - meshList[i])", "cell-width", f, msg="cell width is the distance of adjacent points")
    pop = [c for c in iter_calls(wl) if norm(c.func) == "meshList.pop"]
    r.require(len(pop) == 1 and norm(pop[0].args[0]) == "removeIndex" and not any(pop[0] in list(ast.walk(x)) for x in [fl]), "one-removal-per-scan", f, msg="exactly one point is removed after each interrupted scan")
    from ..astutil import cond_values
    ri = {norm(v): [(norm(t), p) for t, p in c_ if "anchorPoints" in norm(t)] for v, c_ in cond_values(ast.Module(body=fl.body, type_ignores=[]), "removeIndex")}
    r.require(ri == {"i": [("meshList[i] in anchorPoints and meshList[i + 1] in anchorPoints", False), ("meshList[i + 1] in anchorPoints", True)], "i + 1": [("meshList[i] in anchorPoints and meshList[i + 1] in anchorPoints", False), ("meshList[i + 1] in anchorPoints", False)]},
              "anchors-kept", f, msg=f"the non-anchor point of a thin cell is removed (the later one when neither is an anchor): {ri}")
    both = next((n for n in walk_local(fl) if isinstance(n, ast.If) and norm(n.test) == "meshList[i] in anchorPoints and meshList[i + 1] in anchorPoints"), None)
    r.require(both is not None and always_exits(both.body) and any(isinstance(x, ast.Raise) for x in both.body), "two-close-anchors-fail-loudly", f, msg="two anchors closer than the minimum must raise")
    # candidates only: the list is only ever filtered, never extended
    adds = [s for s in iter_stores(wl) if s.chain == "meshList" and s.kind == "mutcall" and s.method != "pop"]
    r.require(not adds, "only-candidate-points", f, msg="the filter may only remove points")

    # callers: the anchor points handed to the filter must come from the points being filtered, or an "anchored"
    # boundary is not in the candidate list at all and silently disappears from the mesh
    d = idx.method(UM + ".UniformMeshGenerator", "_decuspAxialMesh")
    if d is None:
        raise AnchorMissing("UniformMeshGenerator._decuspAxialMesh")
    defs = {}
    for st in walk_local(d.node):
        if isinstance(st, ast.Assign) and len(st.targets) == 1:
            t = st.targets[0]
            for nm in ([t] if isinstance(t, ast.Name) else (t.elts if isinstance(t, ast.Tuple) else [])):
                if isinstance(nm, ast.Name):
                    defs.setdefault(nm.id, []).append(st.value)

    def sources(e, seen=frozenset()):
        """leaf data names an expression is built from; a _filterMesh result is a subset of its first argument"""
        out = set()
        if isinstance(e, ast.Call) and call_attr(e) == "_filterMesh" and e.args:
            return sources(e.args[0], seen)
        for n in ast.walk(e):
            if isinstance(n, ast.Name) and isinstance(n.ctx, ast.Load) and n.id not in ("self", "list", "set", "sorted", "Flags", "np"):
                if n.id in seen:
                    continue
                ds = defs.get(n.id)
                if not ds:
                    out.add(n.id)
                    continue
                for v in ds:
                    if isinstance(v, ast.Call) and call_attr(v) != "_filterMesh":
                        out.add(n.id)  # produced by a helper: a leaf, plus what the helper was given
                        for a in v.args:
                            out |= sources(a, seen | {n.id})
                    else:
                        out |= sources(v, seen | {n.id})
            elif isinstance(n, ast.Attribute) and dotted(n) == "self._commonMesh":
                out.add("self._commonMesh")
        return out

    calls = [c for c in iter_calls(d.node) if call_attr(c) == "_filterMesh"]
    if len(calls) < 3:
        raise AnalysisError(f"_decuspAxialMesh: {len(calls)} _filterMesh calls found, expected the four merging passes")
    for i, c in enumerate(calls):
        anchors = get_arg(c, 2, "anchorPoints")
        mesh = get_arg(c, 0, "meshList")
        sa, sm = sources(anchors), sources(mesh)
        missing = sorted(sa - sm)
        r.require(not missing, f"decusp:pass{i}:anchors-among-candidates", d, node=c,
                  msg=f"pass {i + 1} anchors `{norm(anchors)[:40]}` (built from {sorted(sa)}) but filters `{norm(mesh)[:50]}` (built from {sorted(sm)}): "
                      f"{missing} are anchored without being candidates, so the boundaries that WERE added here are not protected and can be dropped")


def r5_resample(idx, r):
    f = idx.func("armi.utils.mathematics.resampleStepwise")
    fr = [s for s in iter_stores(f.node) if s.attr == "fraction" and s.value is not None]
    if len(fr) != 2:
        raise AnalysisError("resampleStepwise: two partial-bin fractions expected")
    E = RatEval()
    A = lambda t: Poly.atom(t)  # noqa: E731
    right, left = sorted(fr, key=lambda s: s.stmt.lineno)
    want_r = Rat(A("xout[i]") - A("xin[end - 1]"), A("xin[end]") - A("xin[end - 1]"))
    want_l = Rat(A("xin[start]") - A("xout[i - 1]"), A("xin[start]") - A("xin[start - 1]"))
    r.require(E.ev(right.value) == want_r, "right-partial-bin-fraction", f, node=right.stmt, msg=f"covered fraction of the last input bin = (xout[i] - bin's lower edge) / bin width; found {norm(right.value)}")
    r.require(E.ev(left.value) == want_l, "left-partial-bin-fraction", f, node=left.stmt, msg=f"covered fraction of the first input bin = (bin's upper edge - xout[i-1]) / bin width; found {norm(left.value)} (the uncovered part would be used as the weight)")
    gl = [(norm(t), p) for t, p in path_conditions(f.node, left.stmt) if p][-1:]
    gr = [(norm(t), p) for t, p in path_conditions(f.node, right.stmt) if p][-1:]
    r.require(gl == [("xout[i - 1] > xin[start - 1]", True)] and gr == [("xout[i] < xin[min(end, len(xin) - 1)]", True)], "partial-bin-guards", f, msg=f"fractions apply when the output edge falls strictly inside the bin: {gl} {gr}")
    # sum mode, left edge: the first entry may be the very entry the right-edge trim already scaled (one input bin covering the whole output
    # bin).  With V the entry's current value, Y the untrimmed input value and L the left fraction, the only update that is right in both cases
    # (V = Y -> Y.L ; V = Y.R -> Y.(R + L - 1)) is V - Y.(1 - L): multiplying V by L gives Y.R.L for the single-bin case.
    lif = next((n for n in walk_local(f.node) if isinstance(n, ast.If) and left.stmt in n.body), None)
    upd = [n for n in (ast.walk(lif) if lif is not None else []) if isinstance(n, (ast.Assign, ast.AugAssign)) and norm(n.targets[0] if isinstance(n, ast.Assign) else n.target) == "chunk[0]"]
    if len(upd) != 1:
        raise AnalysisError("resampleStepwise: the sum-mode update of the first entry not found")
    u = upd[0]
    val = u.value if isinstance(u, ast.Assign) else ast.BinOp(left=u.target, op=u.op, right=u.value)

    class _E(RatEval):
        def ev(self, n):
            if isinstance(n, ast.Subscript) and norm(n) == "chunk[0]":
                return Rat(A("V"), Poly.const(1))
            if isinstance(n, ast.Subscript) and norm(n) == "yin[start - 1]":
                return Rat(A("Y"), Poly.const(1))
            if isinstance(n, ast.Name) and n.id == "fraction":
                return Rat(A("L"), Poly.const(1))
            return super().ev(n)
    try:
        got = _E().ev(val)
    except AnalysisError as e:
        got = None
    want_u = Rat(A("V") - A("Y") * (Poly.const(1) - A("L")), Poly.const(1))
    r.require(got is not None and got == want_u, "sum-mode:left-trim-correct-when-one-input-bin-covers-the-output-bin", f, node=u,
              msg=f"the first entry is updated as `{norm(u)}`; when the output interval lies inside ONE input bin that entry was already multiplied by the right-edge fraction R, "
                  "so the share becomes R.L instead of R + L - 1 (xin=[0,10], yin=[10], xout=[0,2,4,10] -> [2, 3.2, 6] instead of [2, 2, 6])")
    ch = [s_ for s_ in iter_stores(f.node) if s_.attr == "chunk" and s_.kind == "assign" and s_.value is not None and "yin[" in norm(s_.value)]
    r.require(len(ch) == 1 and not isinstance(ch[0].value, ast.Subscript), "chunk-is-a-copy-of-the-input-values", f, node=ch[0].stmt if ch else None,
              msg="`chunk` is a bare slice of the caller's yin and is scaled in place afterwards: for a numpy array the slice is a view, so resampling modifies the caller's data (and the next "
                  "output interval reads the modified value)")
    ys = [c for c in iter_calls(f.node) if norm(c.func) == "yout.append"]
    avg = next((c for c in ys if "weighted_sum" in norm(c)), None)
    env = single_assign_env(f.node)
    r.require(avg is not None and norm(avg.args[0]) == "weighted_sum / sum(length)" and norm(env.get("weighted_sum", ast.Constant(0))) == "sum([ch * ln for ch, ln in zip(chunk, length)])", "average-is-length-weighted", f,
              msg="the averaged value is sum(value x covered length) / sum(covered length)")
    tot = next((c for c in ys if norm(c.args[0]) == "sum(chunk)"), None)
    r.require(tot is not None, "sum-mode", f, msg="in sum mode the covered shares are added")
    fb_loop = next((n for n in f.node.body if isinstance(n, ast.For)), None)
    fb = Flow(f.node, lambda n: ["out"] if isinstance(n, ast.Call) and norm(n.func) == "yout.append" else [], body=fb_loop.body).run()
    r.require(bool(fb.iteration_ends()) and all(s.get("out") == (1, 1) for s in fb.iteration_ends()), "one-output-per-interval", f, msg="exactly one output value per output interval")


def r6_targets_and_sizes(idx, r):
    """(a) The homogenised block that re-meshing stacks is a hexagon of the source block's CURRENT pitch (getPitch() asks the pitch-defining
    component now; a remembered value or a cold dimension gives a different volume at the same densities - atoms are lost or gained).
    (b) The table of material anchors pairs 'bottom' with the lowest value of the bottoms and 'top' with the highest value of the tops.
    (c) A core axial mesh used as the target of re-meshing was refreshed (updateAxialMesh) earlier in the same function, on every path."""
    f = idx.method("armi.reactor.blocks.HexBlock", "createHomogenizedCopy")
    hx = next((c for c in iter_calls(f.node) if dotted(c.func) == "Hexagon"), None)
    if hx is None:
        raise AnchorMissing("HexBlock.createHomogenizedCopy: Hexagon(...)")
    op = propagate(get_arg(hx, 4, "op"), single_assign_env(f.node))
    r.require(norm(op) == "self.getPitch()", "homogenized-copy:current-pitch", f, node=hx,
              msg=f"the homogenised hexagon is sized with `{norm(op)}`; it must be self.getPitch() (the pitch-defining component's present, hot dimension) or the copy holds "
                  "the same densities in another volume")
    ti, th = get_arg(hx, 2, "Tinput"), get_arg(hx, 3, "Thot")
    r.require(ti is not None and th is not None and norm(ti) == norm(th), "homogenized-copy:no-expansion-of-the-copy", f, node=hx, msg="input and hot temperature of the copy are equal, so the given pitch is its actual size")
    g = idx.method(UM + ".UniformMeshGenerator", "_getFilteredMeshTopAndBottom")
    tab = next((n.iter for n in walk_local(g.node) if isinstance(n, ast.For) and isinstance(n.iter, (ast.List, ast.Tuple)) and all(isinstance(e, ast.Tuple) and len(e.elts) == 4 for e in n.iter.elts)), None)
    if tab is None or len(tab.elts) != 2:
        raise AnchorMissing("_getFilteredMeshTopAndBottom: table of (anchors, preference, getter, extreme)")
    getters = {x.name: x for x in g.node.body if isinstance(x, ast.FunctionDef)}
    for row in tab.elts:
        lst, pref, getter, ext = row.elts
        pv = pref.value if isinstance(pref, ast.Constant) else None
        want = {"bottom": ("min", "zbottom"), "top": ("max", "ztop")}.get(pv)
        if want is None or norm(getter) not in getters:
            raise AnalysisError(f"_getFilteredMeshTopAndBottom: row `{norm(row)}` not understood")
        r.require(norm(ext) == want[0], f"anchor-table:{pv}:extreme", g, node=row,
                  msg=f"the default anchor of the {pv}s is `{norm(ext)}` of the material {pv}s; it must be {want[0]} (the {'lowest' if pv == 'bottom' else 'highest'} one is kept, the others within "
                      "the minimum mesh size are dropped) - otherwise the outermost fuel boundary disappears from the common mesh")
        r.require(want[1] in norm(getters[norm(getter)]), f"anchor-table:{pv}:getter", g, node=row, msg=f"the {pv} row reads block {want[1]}")
    n = 0
    m = idx.modules.get(UM)
    for fn in m.all_funcs():
        reads = [x for x in walk_local(fn.node) if isinstance(x, ast.Attribute) and x.attr == "axialMesh" and isinstance(x.ctx, ast.Load) and norm(x).endswith(".core.p.axialMesh")]
        if not reads:
            continue
        for x in reads:
            core = norm(x)[: -len(".p.axialMesh")]

            def ev(nd, core=core):
                return ["fresh"] if isinstance(nd, ast.Call) and dotted(nd.func) == core + ".updateAxialMesh" else []
            fl = Flow(fn.node, ev).run()
            n += 1
            # state at the enclosing statement of the read
            stmt = next((s_ for s_ in walk_local(fn.node) if isinstance(s_, ast.stmt) and any(y is x for y in ast.walk(s_)) and not isinstance(s_, (ast.For, ast.While, ast.If, ast.With, ast.Try, ast.FunctionDef))), None)
            stb = fl.state_before(stmt) if stmt is not None else None
            if stb is None:
                call = next((c for c in iter_calls(fn.node) if any(y is x for y in ast.walk(c))), None)
                stb = fl.state_before(call) if call is not None else None
            r.require(stb is not None and stb.get("fresh", (0, 0))[0] >= 1, f"{fn.qualname}:target-mesh-refreshed-before-use", fn, node=x,
                      msg=f"`{norm(x)}` is used as the target mesh without a preceding {core}.updateAxialMesh() on every path: after block heights changed the assemblies are mapped "
                          "onto a stale (shorter) mesh and the material above its top is lost")
    if n < 1:
        raise AnchorMissing("uniformMesh: use of core.p.axialMesh as the target mesh")


def r7_split_shares(idx, r):
    """Assembly.adjustResolution chops a tall block into pieces that are deep copies of it, each set to the height of a reference block.  A
    deep copy carries the FULL value of every volume-integrated parameter (power, moles of heavy metal ...): unless each piece is given its
    height share, the total of the pieces is the original times the number of pieces."""
    f = idx.method("armi.reactor.assemblies.Assembly", "adjustResolution")
    loops = [n for n in walk_local(f.node) if isinstance(n, ast.While)]
    cp = [(lp, s_) for lp in loops for s_ in iter_stores(lp) if isinstance(s_.value, ast.Call) and dotted(s_.value.func) == "copy.deepcopy" and isinstance(s_.node, ast.Name)]
    if len(cp) != 1:
        raise AnchorMissing("Assembly.adjustResolution: the splitting loop with `newB = copy.deepcopy(b)`")
    lp, piece = cp[0]
    pv = piece.attr
    inner = [n for n in ast.walk(lp) if isinstance(n, ast.For) and "VOLUME_INTEGRATED" in norm(n.iter) and pv + ".p" in norm(n.iter)]
    scaled = [s_ for n in inner for s_ in iter_stores(n) if s_.kind == "subscript" and norm(s_.node.value) == pv + ".p"]
    r.require(bool(scaled), "adjustResolution:pieces-carry-their-height-share", f, node=piece.stmt,
              msg=f"every piece is `{norm(piece.stmt)}` with only its height changed: each piece keeps the whole block's volume-integrated parameters, so a block of power 200 split in two reports "
                  "400 (atoms are conserved, integrated parameters are not)")
    if scaled:
        env = single_assign_env(f.node)
        fac = {nm for s_ in scaled for nm in (x.id for x in ast.walk(s_.value) if isinstance(x, ast.Name))}
        share = [nm for nm in fac if nm in env and isinstance(env[nm], ast.BinOp) and isinstance(env[nm].op, ast.Div) and "getHeight()" in norm(env[nm].left)]
        r.require(bool(share), "adjustResolution:share-is-a-height-ratio", f, node=scaled[0].stmt, msg="the share given to a piece is its height over the height of the block being split")


def r8_overlap_heights_used(idx, r):
    """getBlocksBetweenElevations answers (block, height of the block INSIDE the window).  A caller that accumulates a volume or another
    height-proportional quantity over that answer must use the overlap height: ignoring it counts the whole block (or the whole window) for
    every block that merely touches the window."""
    n = 0
    for m in idx.modules.values():
        if not m.name.startswith("armi.") or ".tests" in m.name:
            continue
        for f in m.all_funcs():
            bound = {t.id for x in walk_local(f.node) if isinstance(x, ast.Assign) and isinstance(x.value, ast.Call) and call_attr(x.value) == "getBlocksBetweenElevations" for t in x.targets if isinstance(t, ast.Name)}
            for lp in [x for x in walk_local(f.node) if isinstance(x, ast.For) and ((isinstance(x.iter, ast.Call) and call_attr(x.iter) == "getBlocksBetweenElevations") or (isinstance(x.iter, ast.Name) and x.iter.id in bound))]:
                if not (isinstance(lp.target, ast.Tuple) and len(lp.target.elts) == 2 and isinstance(lp.target.elts[1], ast.Name)):
                    continue
                n += 1
                hv = lp.target.elts[1].id
                used = any(isinstance(x, ast.Name) and x.id == hv and isinstance(x.ctx, ast.Load) for st_ in lp.body for x in ast.walk(st_))
                accum = any(isinstance(x, ast.AugAssign) for st_ in lp.body for x in ast.walk(st_))
                bv = norm(lp.target.elts[0])
                for dv in [x for st_ in lp.body for x in ast.walk(st_) if isinstance(x, ast.BinOp) and isinstance(x.op, ast.Div)]:
                    left = norm(dv.left)
                    if any(isinstance(y, ast.Name) and y.id == hv for y in ast.walk(dv.left)) and (f"{bv}.getVolume()" in left or f"{bv}.getMass(" in left):
                        r.require(norm(dv.right) == f"{bv}.getHeight()", f"{f.qualname}:share-of-a-block-is-overlap-over-its-own-height", f, node=dv,
                                  msg=f"`{norm(dv)[:80]}`: the part of block `{bv}` inside the window is its overlap height over ITS OWN height; any other denominator (the window height) only agrees "
                                      "when the window coincides with the block, and volume and atoms are not conserved otherwise")
                r.require(used or not accum, f"{f.qualname}:overlap-height-used", f, node=lp,
                          msg=f"the loop over getBlocksBetweenElevations accumulates a quantity but never uses the overlap height `{hv}`: blocks that only partly lie inside the axial window are "
                              "counted in full, so the ring volume (and every density homogenised over it) is wrong whenever block boundaries do not coincide with the window")
    if n < 1:
        raise AnalysisError(f"only {n} loops over getBlocksBetweenElevations found")


def r9_fresh_arrays_and_zero_minimum(idx, r):
    """(a) The values mapped back onto a block are stored as NEW arrays: refilling the array the block already holds changes every other block
    that shares it (blocks initialised from one `np.zeros(nG)`) and keeps its integer dtype.  (b) a minimum mesh size of 0 (or 0.0) is a value,
    not 'no minimum': the optional attribute is compared with None, never evaluated for truth."""
    f = idx.method(UM + ".ParamMapper", "_arrayParamSetter")
    blk = f.params()[0]
    sts = [s_ for s_ in iter_stores(f.node) if s_.kind == "subscript" and norm(s_.node.value) == f"{blk}.p"]
    if not sts:
        raise AnchorMissing("ParamMapper._arrayParamSetter: block.p[paramName] = ...")
    env = single_assign_env(f.node)
    for s_ in sts:
        v = s_.value
        fresh = isinstance(v, ast.Call) and (dotted(v.func) or "") in ("np.array", "numpy.array", "np.asarray", "np.copy", "list")
        r.require(fresh, "arrayParamSetter:stores-a-new-array", f, node=s_.stmt,
                  msg=f"`{norm(s_.stmt)}` stores an object the block (and possibly its siblings) already holds: blocks that share one initial array all end up with the last block's values")
    holds = {s_.attr for s_ in iter_stores(f.node) if isinstance(s_.node, ast.Name) and s_.value is not None and f"{blk}.p[" in norm(s_.value)}
    inplace = [s_ for s_ in iter_stores(f.node) if s_.kind in ("subscript", "subscript-aug") and isinstance(s_.node.value, ast.Name) and s_.node.value.id in holds]
    r.require(not inplace, "arrayParamSetter:no-refill-in-place", f, node=inplace[0].stmt if inplace else None, msg=f"`{norm(inplace[0].stmt) if inplace else ''}` overwrites the block's existing array where it is")
    g = idx.cls(UM + ".UniformMeshGenerator")
    from ..astutil import truthiness_uses
    n = 0
    for name, fn in g.methods.items():
        for x in ast.walk(fn.node):
            tests = []
            if isinstance(x, (ast.If, ast.IfExp, ast.While)):
                tests.append(x.test)
            elif isinstance(x, ast.BoolOp):
                tests.extend(x.values)
            elif isinstance(x, ast.UnaryOp) and isinstance(x.op, ast.Not):
                tests.append(x.operand)
            for t in tests:
                if norm(t) == "self.minimumMeshSize":
                    n += 1
                    r.violate(f"UniformMeshGenerator.{name}:minimumMeshSize-compared-with-None", fn, "`self.minimumMeshSize` is evaluated for truth: a minimum of 0 / 0.0 silently switches off the decusping "
                              "(and with it the anchors that keep fuel and control boundaries in the common mesh)", node=t)
    r.ok("UniformMeshGenerator:minimumMeshSize-tests-scanned", g)


def r10_direction_every_value_every_overlap(idx, r):
    """(a) applyStateToOriginal maps results BACK: the parameter set of the "out" direction is selected before any mapping call on every
    path - whole-core and assembly-by-assembly alike; otherwise the still-active "in" set (BOL masses) is mapped and flux, power ... never
    return.  convert() selects "in" the same way.  (b) ParamMapper._scalarParamSetter writes every (name, value) pair it is given: zero is a
    value (a block with no power after a step that had some).  (c) Assembly.getBlocksBetweenElevations collects EVERY block that overlaps the
    window: no return from inside the loop over the blocks."""
    umc = idx.cls(UM + ".UniformMeshGeometryConverter")
    for meth, direction in (("applyStateToOriginal", "out"), ("convert", "in")):
        f = umc.methods.get(meth)
        if f is None:
            raise AnchorMissing(f"UniformMeshGeometryConverter.{meth}")

        def ev(nd, direction=direction):
            if isinstance(nd, ast.Call) and dotted(nd.func) == "self._setParamsToUpdate" and nd.args and isinstance(nd.args[0], ast.Constant) and nd.args[0].value == direction:
                return ["dir"]
            return []
        fl = Flow(f.node, ev).run()
        maps = [c for c in iter_calls(f.node) if call_attr(c) in ("setAssemblyStateFromOverlaps", "_mapStateFromReactorToOther", "mapParamsToBlock", "_applyCachedParamValues")]
        if not maps:
            raise AnchorMissing(f"{meth}: mapping calls")
        for c in maps:
            st = fl.state_before(c) or {}
            r.require(st.get("dir", (0, 0))[0] >= 1, f"{meth}:{call_attr(c)}:after-selecting-the-{direction}-parameters", f, node=c,
                      msg=f"`{norm(c)[:70]}` can be reached without `_setParamsToUpdate('{direction}')`: the parameter set of the other direction is mapped")
    pm = idx.cls(UM + ".ParamMapper")
    sc = pm.methods.get("_scalarParamSetter")
    if sc is None:
        raise AnchorMissing("ParamMapper._scalarParamSetter")
    sts = [s_ for s_ in iter_stores(sc.node) if s_.kind == "subscript" and norm(s_.node.value).endswith(".p")]
    if len(sts) != 1:
        raise AnchorMissing("_scalarParamSetter: the store")
    conds = [norm(t) for t, _p in path_conditions(sc.node, sts[0].stmt)]
    r.require(not conds, "_scalarParamSetter:every-pair-written", sc, node=sts[0].stmt,
              msg=f"a value is only written under {conds}: a mapped result that fails the test (exactly zero) leaves the destination block with its previous value")
    g = idx.method("armi.reactor.assemblies.Assembly", "getBlocksBetweenElevations")
    loops = [x for x in g.node.body if isinstance(x, ast.For)]
    if not loops:
        raise AnchorMissing("getBlocksBetweenElevations: the loop over the blocks")
    early = [x for x in walk_local(loops[0]) if isinstance(x, ast.Return)]
    r.require(not early, "getBlocksBetweenElevations:whole-stack-scanned", g, node=early[0] if early else None,
              msg="the loop over the blocks returns from inside: the slivers of the neighbouring blocks that also overlap the window are dropped and the overlaps no longer sum to the window")


def r12_densities_and_volumes_under_a_remesh(idx, r):
    """Two clauses of C02's rules that conservation under re-meshing rests on: (a) ArmiObject.setNumberDensities spreads EVERY nuclide of the
    vector it is given over the children - also one that no child holds yet (a new mesh cell that straddles a UZr and a B4C block receives
    boron from the second) (R02.3); (b) Block.setHeight invalidates the cached volumes whether or not the block sits in an assembly - the
    detached pieces that Assembly.adjustResolution cuts are exactly that case (R02.6)."""
    from ..report import Only
    from .c02 import r3_setters, r6_unconditional_invalidation
    r3_setters(idx, Only(r, ["ArmiObject.setNumberDensities"]))
    r6_unconditional_invalidation(idx, Only(r, ["Block.setHeight"]))


def r11_pairing(idx, r):
    from ..pairing import pairing_rule
    pairing_rule(idx, r, ["armi.reactor.converters.uniformMesh", "armi.reactor.converters.meshConverters", "armi.reactor.assemblies"], 60)


def r_borrowed_r11_13(idx, r):
    """clause of C02: the block-level branch of a dehomogenised query walks the children (R02.7)"""
    from ..report import Only
    from .c02 import r7_dehomogenisation_range
    r7_dehomogenisation_range(idx, Only(r, ["branch:children"]))


def r14_mapped_names_unique_and_zero_skip(idx, r):
    """(a) the converters hand ParamMapper a list of block parameter names WITHOUT duplicates (the categories overlap): values are accumulated
    with `+=` per listed name, so a name listed twice is mapped twice.  (b) Block.adjustDensity - what setHeight(conserveMass=True) uses -
    leaves exactly the nuclides with density zero alone; a threshold would stop rescaling trace nuclides (bred Pu, Am) and their atoms would
    change with the height."""
    umc = idx.cls(UM + ".UniformMeshGeometryConverter")
    n = 0
    for c in idx.subclasses(umc):
        f = c.methods.get("_setParamsToUpdate")
        if f is None:
            continue
        pm = [x for x in iter_calls(f.node) if norm(x.func).endswith("ParamMapper")]
        for call in pm:
            if len(call.args) < 2 or not isinstance(call.args[1], ast.Name):
                continue
            n += 1
            nm = call.args[1].id
            defs = [x for x in walk_local(f.node) if isinstance(x, ast.Assign) and any(norm(t) == nm for t in x.targets) and x.lineno < call.lineno]
            r.require(bool(defs) and "set(" in norm(defs[-1].value), f"{c.name}._setParamsToUpdate:names-de-duplicated", f, node=call,
                      msg=f"`{nm}` reaches ParamMapper as `{norm(defs[-1].value) if defs else '?'}`: a parameter that belongs to two of the mapped categories is listed twice and its mapped value is added twice")
    if n < 2:
        raise AnchorMissing("_setParamsToUpdate: ParamMapper(reactorParamNames, blockParamNames, b)")
    g = idx.method("armi.reactor.blocks.Block", "adjustDensity")
    skips = [x for x in walk_local(g.node) if isinstance(x, ast.If) and any(isinstance(y, ast.Continue) for y in x.body)]
    if not skips:
        raise AnchorMissing("Block.adjustDensity: the zero skip")
    for x in skips:
        r.require(not any(isinstance(o, (ast.Lt, ast.Gt, ast.LtE, ast.GtE)) for y in ast.walk(x.test) if isinstance(y, ast.Compare) for o in y.ops), "Block.adjustDensity:only-zeros-are-skipped", g, node=x,
                  msg=f"a nuclide is left alone when `{norm(x.test)}`: small but non-zero densities are no longer rescaled, so re-meshing with mass conservation changes their atom count by the height ratio")


class _Arr:
    """The fragment of numpy that tolerance averaging uses, over exact rationals: 1-D and 2-D arrays, broadcasting of a row or a scalar over
    the rows, reductions along an axis, selection of rows by a boolean mask.  Anything else is an AnalysisError, never a verdict."""

    def __init__(self, data, ncols=None):
        self.data = [list(x) if isinstance(x, (list, tuple)) else x for x in data]
        self.ndim = 2 if (ncols is not None or (self.data and isinstance(self.data[0], list))) else 1
        self.ncols = (ncols if ncols is not None else len(self.data[0])) if self.ndim == 2 else None
        if self.ndim == 2 and any(not isinstance(x, list) or len(x) != self.ncols for x in self.data):
            raise AnalysisError("array model: ragged rows")

    @staticmethod
    def of(v):
        from fractions import Fraction
        if isinstance(v, _Arr):
            return _Arr(v.data, v.ncols)

        def num(x):
            return Fraction(x) if isinstance(x, int) and not isinstance(x, bool) else x
        if isinstance(v, (list, tuple)):
            return _Arr([[num(y) for y in (x.data if isinstance(x, _Arr) else x)] if isinstance(x, (list, tuple, _Arr)) else num(x) for x in v])
        raise AnalysisError("array model: np.array of a value that is not a sequence")

    @property
    def size(self):
        return len(self.data) * self.ncols if self.ndim == 2 else len(self.data)

    @property
    def shape(self):
        return (len(self.data), self.ncols) if self.ndim == 2 else (len(self.data),)

    def __len__(self):
        return len(self.data)

    def __bool__(self):
        raise AnalysisError("array model: the truth value of an array is ambiguous")

    def map(self, fn):
        return _Arr([[fn(x) for x in row] for row in self.data], self.ncols) if self.ndim == 2 else _Arr([fn(x) for x in self.data])

    @staticmethod
    def zip(a, b, fn):
        def f(x, y):
            try:
                return fn(x, y)
            except ZeroDivisionError:
                raise AnalysisError("array model: division by zero")
        if not isinstance(a, _Arr):
            return b.map(lambda y: f(a, y))
        if not isinstance(b, _Arr):
            return a.map(lambda x: f(x, b))
        if a.ndim == b.ndim and a.shape == b.shape:
            if a.ndim == 1:
                return _Arr([f(x, y) for x, y in zip(a.data, b.data)])
            return _Arr([[f(x, y) for x, y in zip(ra, rb)] for ra, rb in zip(a.data, b.data)], a.ncols)
        if a.ndim == 2 and b.ndim == 1 and len(b.data) == a.ncols:
            return _Arr([[f(x, y) for x, y in zip(ra, b.data)] for ra in a.data], a.ncols)
        if a.ndim == 1 and b.ndim == 2 and len(a.data) == b.ncols:
            return _Arr([[f(x, y) for x, y in zip(a.data, rb)] for rb in b.data], b.ncols)
        raise AnalysisError(f"array model: shapes {a.shape} and {b.shape} do not broadcast")

    def reduce(self, kind, axis):
        from fractions import Fraction

        def red(xs):
            xs = list(xs)
            if kind == "all":
                return all(bool(x) for x in xs)
            if kind == "any":
                return any(bool(x) for x in xs)
            tot = sum((Fraction(int(x)) if isinstance(x, bool) else x for x in xs), Fraction(0))
            if kind == "sum":
                return tot
            return tot / len(xs) if xs else float("nan")  # numpy: mean of nothing is nan (with a warning)
        if axis is None:
            return red(x for row in self.data for x in row) if self.ndim == 2 else red(self.data)
        if self.ndim == 2 and axis in (0, -2):
            return _Arr([red(row[j] for row in self.data) for j in range(self.ncols)])
        if self.ndim == 2 and axis in (1, -1):
            return _Arr([red(row) for row in self.data])
        if self.ndim == 1 and axis in (0, -1):
            return red(self.data)
        raise AnalysisError(f"array model: axis {axis} of a {self.ndim}-D array")

    def select(self, key):
        if isinstance(key, _Arr) and key.ndim == 1 and all(isinstance(x, bool) for x in key.data):
            if len(key.data) != len(self.data):
                raise AnalysisError("array model: boolean mask of another length")
            return _Arr([x for x, k in zip(self.data, key.data) if k], self.ncols)
        if isinstance(key, int) and not isinstance(key, bool) and -len(self.data) <= key < len(self.data):
            return _Arr(self.data[key]) if self.ndim == 2 else self.data[key]
        raise AnalysisError("array model: subscript that is neither a boolean row mask nor an index")


def _array_eval():
    """MiniEval extended by the array model above (np.array / abs / mean / sum / all / any / size / mask selection / arithmetic and comparisons
    with broadcasting) and by exact rational scalars."""
    import numbers
    import operator
    from ..minieval import MiniEval

    arith = {ast.Add: operator.add, ast.Sub: operator.sub, ast.Mult: operator.mul, ast.Div: operator.truediv}
    comp = {ast.Lt: operator.lt, ast.LtE: operator.le, ast.Gt: operator.gt, ast.GtE: operator.ge, ast.Eq: operator.eq, ast.NotEq: operator.ne}

    def real(x):
        return isinstance(x, numbers.Real) and not isinstance(x, bool)

    class _E(MiniEval):
        def _try(self, e, env):
            try:
                return self._ev(e, env)
            except AnalysisError:
                return None

        def _axis(self, e, env, first):
            ax = get_arg(e, first, "axis")
            extra = [k.arg for k in e.keywords if k.arg != "axis"] or e.args[first + 1:]
            if extra:
                raise AnalysisError(f"array model: `{norm(e)[:60]}` has arguments outside the fragment")
            return None if ax is None else self._ev(ax, env)

        def _ev(self, e, env):
            if isinstance(e, ast.Call):
                d = dotted(e.func) or ""
                mod, _, fn = d.rpartition(".")
                if mod in ("np", "numpy") and fn in ("array", "asarray", "asanyarray") and len(e.args) == 1 and not e.keywords:
                    return _Arr.of(self._ev(e.args[0], env))
                if (d == "abs" or (mod in ("np", "numpy") and fn in ("abs", "absolute", "fabs"))) and len(e.args) == 1 and not e.keywords:
                    v = self._ev(e.args[0], env)
                    if isinstance(v, _Arr):
                        return v.map(abs)
                    if real(v):
                        return abs(v)
                if d == "len" and len(e.args) == 1 and not e.keywords:
                    v = self._try(e.args[0], env)
                    if isinstance(v, _Arr):
                        return len(v)
                if mod in ("np", "numpy") and fn in ("mean", "average", "sum", "all", "any") and e.args:
                    v = self._ev(e.args[0], env)
                    if isinstance(v, _Arr):
                        return v.reduce({"average": "mean"}.get(fn, fn), self._axis(e, env, 1))
                if isinstance(e.func, ast.Attribute) and e.func.attr in ("mean", "sum", "all", "any", "copy"):
                    v = self._try(e.func.value, env)
                    if isinstance(v, _Arr):
                        return _Arr.of(v) if e.func.attr == "copy" else v.reduce(e.func.attr, self._axis(e, env, 0))
            elif isinstance(e, ast.Attribute) and e.attr in ("size", "shape", "ndim"):
                v = self._try(e.value, env)
                if isinstance(v, _Arr):
                    return getattr(v, e.attr)
            elif isinstance(e, ast.Subscript):
                v = self._try(e.value, env)
                if isinstance(v, _Arr):
                    if isinstance(e.slice, ast.Slice):
                        raise AnalysisError("array model: slice of an array")
                    return v.select(self._ev(e.slice, env))
            elif isinstance(e, ast.BinOp) and type(e.op) in arith:
                a, b = self._ev(e.left, env), self._ev(e.right, env)
                if isinstance(a, _Arr) or isinstance(b, _Arr):
                    return _Arr.zip(a, b, arith[type(e.op)])
                if real(a) and real(b):
                    try:
                        return arith[type(e.op)](a, b)
                    except ZeroDivisionError:
                        raise AnalysisError("array model: division by zero")
            elif isinstance(e, ast.UnaryOp) and isinstance(e.op, (ast.Invert, ast.USub)):
                v = self._ev(e.operand, env)
                if isinstance(v, _Arr):
                    return v.map(operator.not_ if isinstance(e.op, ast.Invert) else operator.neg)
            elif isinstance(e, ast.Compare) and len(e.ops) == 1 and type(e.ops[0]) in comp:
                a, b = self._ev(e.left, env), self._ev(e.comparators[0], env)
                if isinstance(a, _Arr) or isinstance(b, _Arr):
                    return _Arr.zip(a, b, lambda x, y: bool(comp[type(e.ops[0])](x, y)))
                if real(a) and real(b):
                    return bool(comp[type(e.ops[0])](a, b))
            return super()._ev(e, env)
    return _E(skip_calls=("runLog.",))


def r15_tolerance_average(idx, r):
    """The axial mesh that common-mesh generation starts from (UniformMeshGenerator._computeAverageAxialMesh) and the core's reference mesh
    (Core.updateAxialMesh) are `average1DWithinTolerance` of the assemblies' meshes.  The function is EVALUATED (MiniEval + an exact model of the
    numpy fragment it uses) on sets of candidate meshes with none, one, two and three tiers of outliers, in every column or in one, above and
    below, for the tolerances its users pass.  Independent statement of the result, for EVERY input: it is the mean of SOME non-empty set of
    candidate meshes that all lie within the tolerance of it - no mesh farther than the tolerance from the answer contributed to the answer -
    and when all candidates already agree with their mean, it is that mean.  Where no such answer exists the function fails loudly."""
    from fractions import Fraction as Fr
    from itertools import combinations
    from ..minieval import Raised

    f = idx.func("armi.utils.mathematics.average1DWithinTolerance")
    ps = f.params()
    if len(ps) != 2 or len(f.node.args.defaults) != 1:
        raise AnalysisError("average1DWithinTolerance: (values, tolerance=<default>) expected")

    def rational(node):
        if not (isinstance(node, ast.Constant) and isinstance(node.value, (int, float)) and not isinstance(node.value, bool)):
            return None
        return Fr(repr(node.value))
    default = rational(f.node.args.defaults[0])
    if default is None:
        raise AnalysisError("average1DWithinTolerance: the default tolerance is not a number")

    # the users: which tolerances reach the function
    tols = {}
    for m in idx.modules.values():
        if not m.name.startswith("armi.") or ".tests" in m.name:
            continue
        for g in m.all_funcs():
            for c in iter_calls(g.node):
                if (dotted(c.func) or "").rpartition(".")[2] != "average1DWithinTolerance":
                    continue
                tn = get_arg(c, 1, ps[1])
                t = default if tn is None else rational(tn)
                if t is None:
                    r.undecided(f"{g.qualname}:tolerance-evaluated", g, f"`{norm(tn)}` is not a literal: the averaging is evaluated for the default tolerance only", node=c)
                    continue
                tols.setdefault(t, []).append((g, c))
    if sum(len(v) for v in tols.values()) < 2:
        raise AnchorMissing("users of average1DWithinTolerance (common-mesh generation, Core.updateAxialMesh)")

    base = [Fr(100), Fr(200), Fr(300)]

    def mesh(*factors):
        fs = [Fr(x) for x in factors] * (3 if len(factors) == 1 else 1)
        return [b * k for b, k in zip(base, fs)]

    def cases(t):
        """candidate meshes built from the tolerance t: `mild` outliers are 1.25 t off, so they pass while a grosser one skews the mean"""
        up, up2, dn = 1 + t * Fr(5, 4), 1 + t * Fr(7, 4), 1 - t * Fr(5, 4)
        return [
            ("identical meshes", [mesh(1)] * 4),
            ("all meshes agree with their mean", [mesh(1), mesh(1 + t / 10), mesh(1 - t / 10), mesh(1 + t / 4)]),
            ("one gross outlier", [mesh(1)] * 6 + [mesh(1 + 5 * t)]),
            ("two tiers of outliers", [mesh(1)] * 6 + [mesh(up), mesh(1 + 5 * t)]),
            ("three tiers of outliers", [mesh(1)] * 8 + [mesh(up), mesh(up2), mesh(1 + 5 * t)]),
            ("two tiers of outliers below", [mesh(1)] * 6 + [mesh(dn), mesh(1 - Fr(9, 2) * t)]),
            ("two tiers of outliers in one column", [mesh(1)] * 6 + [mesh(1, 1, up), mesh(1, 1, 1 + 5 * t)]),
            ("no two meshes agree", [mesh(1), mesh(1 + 10 * t)]),
        ]

    def mean(rows):
        return [sum(col, Fr(0)) / len(rows) for col in zip(*rows)]

    def close(a, b):
        return all((x == y) if isinstance(x, Fr) and isinstance(y, Fr) else (x == x and abs(x - y) <= 1e-9 * abs(y)) for x, y in zip(a, b))

    def show(v):
        return "[" + ", ".join(f"{float(x):.6g}" for x in v) + "]"

    for t in sorted(tols):
        users = ", ".join(sorted({g.qualname for g, _c in tols[t]}))
        for g, c in tols[t]:
            r.ok(f"{g.qualname}:tolerance-evaluated", g, node=c)
        for name, rows in cases(t):
            key = f"average1DWithinTolerance:tolerance={float(t):g}:{name}"
            every = mean(rows)
            agree = all(abs(x - m) <= t * m for row in rows for x, m in zip(row, every))
            try:
                got, _ = _array_eval().run(f.node, {ps[0]: [list(row) for row in rows], ps[1]: t})
            except Raised as ex:
                # a loud failure is an answer only where the candidates do not agree with their mean
                r.require(not agree, key, f, msg=f"tolerance {float(t):g}, {name} ({len(rows)} meshes, used by {users}): raises `{ex}` although every mesh is within the tolerance of the mean")
                continue
            if not (isinstance(got, _Arr) and got.ndim == 1 and len(got.data) == len(base)):
                r.violate(key, f, f"tolerance {float(t):g}, {name}: the result is not one averaged mesh ({type(got).__name__})")
                continue
            res = got.data
            within = [row for row in rows if all(abs(x - m) <= t * m for x, m in zip(row, res))]
            if agree:
                r.require(close(res, every), key, f, msg=f"tolerance {float(t):g}, {name} (used by {users}): every candidate mesh is within the tolerance of the mean {show(every)}, "
                          f"yet {show(res)} is returned: a profile all assemblies share does not stay what it is")
                continue
            ok = any(close(res, mean(list(sub))) for k in range(1, len(within) + 1) for sub in combinations(within, k))
            r.require(ok, key, f, msg=f"tolerance {float(t):g}, {name} ({len(rows)} candidate meshes {', '.join(sorted({show(x) for x in rows}))}; used by {users}): returns {show(res)}, which is not "
                      f"the mean of any set of candidates lying within the tolerance of it ({len(within)} of them do): a mesh that is farther than the tolerance from the answer contributed to it, so "
                      "one distorted assembly shifts the common mesh of the whole core - outliers must be rejected again after every re-averaging, until the meshes that remain all agree with their mean")


def run(idx, chk):
    chk.explanation = (
        "C11: the two overlap-mapping functions are typed with role generators for overlap / destination / source heights: densities scale by "
        "overlap/destination, volume-integrated parameters by overlap/source, others by overlap/destination, peaks take max, only unset values are "
        "skipped; classification comes from the parameter definitions; getBlocksBetweenElevations' overlap formula and loud sum check; contiguous "
        "construction of the new mesh; the mesh filter returns only after a complete clean scan and only removes non-anchor points; exact rational "
        "forms of the partial-bin fractions of resampleStepwise; average1DWithinTolerance is evaluated on candidate meshes with up to three tiers of outliers "
        "(its answer is the mean of candidates that all agree with it). Conservation as numbers and the choice of candidate mesh points are NOT decided."
    )
    chk.undecided_clauses = ["atom conservation as numbers", "choice of candidate mesh points (average1DWithinTolerance is decided on the evaluated inputs only)"]
    chk.run_rule("R11.1", "overlap scalings: N x overlap/destination; vol-integrated x overlap/source; others x overlap/destination; peak = max; only None skipped", lambda r: r1_roles(idx, r), floor=12,
                 necessary="atoms and integrated totals are conserved, other quantities are height-weighted means")
    chk.run_rule("R11.1b", "height changes with mass conservation scale densities by old height / new height", lambda r: r1b_height_ratios(idx, r), floor=5, necessary="N' h' = N h")
    chk.run_rule("R11.2", "volume-integrated / peak classification is computed from the parameter definitions", lambda r: r2_classification(idx, r), floor=4, necessary="the scaling applied must match the kind of quantity")
    chk.run_rule("R11.3", "overlap = min(tops) - max(bottoms), positive overlaps listed and checked to sum to the interval; the new mesh is built contiguously with one block per cell", lambda r: r3_partition(idx, r), floor=10,
                 necessary="the blocks between two elevations partition the interval")
    chk.run_rule("R11.4", "mesh filter: every scan covers all adjacent pairs; returns only after a clean complete scan; removes only non-anchor points; two close anchors raise", lambda r: r4_mesh_filter(idx, r), floor=8,
                 necessary="never cells thinner than the minimum; anchors kept or a loud failure")
    chk.run_rule("R11.5", "resampleStepwise: partial-bin fractions are covered length / bin width on both sides; average is length weighted; one output per interval", lambda r: r5_resample(idx, r), floor=6,
                 necessary="height-weighted mean of the overlapped source values")
    chk.run_rule("R11.6", "the homogenised copy has the block's current pitch; anchors pair bottom/min and top/max; a target core mesh is refreshed before use", lambda r: r6_targets_and_sizes(idx, r), floor=6,
                 necessary="re-meshing conserves the atoms of every nuclide and keeps the outermost material boundaries")
    chk.run_rule("R11.7", "pieces of a split block carry their height share of the volume-integrated parameters", lambda r: r7_split_shares(idx, r), floor=2,
                 necessary="volume-integrated totals are conserved by re-meshing")
    chk.run_rule("R11.8", "every accumulation over getBlocksBetweenElevations uses the overlap height it returns", lambda r: r8_overlap_heights_used(idx, r), floor=1,
                 necessary="volumes and atoms are apportioned by the overlap of source and destination intervals")
    chk.run_rule("R11.9", "values mapped onto a block are stored as new arrays; the optional minimum mesh size is compared with None", lambda r: r9_fresh_arrays_and_zero_minimum(idx, r), floor=3,
                 necessary="mapping back gives every block its own values; material boundaries stay in the mesh for every admitted minimum")
    chk.run_rule("R11.10", "the mapping direction is selected before any mapping call; every scalar is written; every overlapping block is collected", lambda r: r10_direction_every_value_every_overlap(idx, r), floor=4,
                 necessary="integral quantities are conserved in both directions and averaged quantities are the overlap-weighted means")
    chk.run_rule("R11.11", "arguments stand at the parameter they are named after; sibling calls forward the same pass-through parameters", lambda r: r11_pairing(idx, r), floor=1,
                 necessary="source and destination are not exchanged")
    chk.run_rule("R11.12", "setNumberDensities keeps every nuclide it is given (R02.3); setHeight always invalidates the volume cache (R02.6)", lambda r: r12_densities_and_volumes_under_a_remesh(idx, r), floor=2,
                 necessary="atoms of every nuclide and the volume are conserved when the mesh changes")
    chk.run_rule("R11.13", "clause of C02: the block-level branch of a dehomogenised query walks the children (R02.7)", lambda r: r_borrowed_r11_13(idx, r), floor=1,
                 necessary="block quantities used by the mappers are sums over the components")
    chk.run_rule("R11.14", "mapped parameter names are de-duplicated; adjustDensity skips only zero densities", lambda r: r14_mapped_names_unique_and_zero_skip(idx, r), floor=3,
                 necessary="integral quantities and atoms of every nuclide are conserved by the mapping")
    chk.run_rule("R11.15", "average1DWithinTolerance, evaluated on candidate meshes with 0-3 tiers of outliers: the answer is the mean of candidates that all lie within the tolerance of it",
                 lambda r: r15_tolerance_average(idx, r), floor=10,
                 necessary="the candidate points of the common mesh are the average of the assembly meshes that agree with it: an assembly mesh farther than the tolerance from the answer does not "
                           "shift the mesh every assembly is mapped onto (a profile all assemblies share stays what it is), or the averaging fails loudly")
