"""C17 - settings round trip: validate-before-store, ownership of Setting._value, renamed names
landing, copy-on-modify, writer filters, flag-list codec, sibling serialisers of cross-section
options.  Structural necessary conditions only (DESIGN.md section 3, C17)."""
from __future__ import annotations

import ast

from ..astutil import call_attr, get_arg, iter_calls, iter_stores, propagate, single_assign_env, walk_local
from ..flow import Flow, always_exits, path_conditions
from ..index import AnalysisError, AnchorMissing, dotted, norm
from ..own import check_writers

SETTING = "armi.settings.setting.Setting"
SETTINGS = "armi.settings.caseSettings.Settings"
IO = "armi.settings.settingsIO"


def r1_validate(idx, r):
    sv = idx.method(SETTING, "setValue")

    def ev(n):
        if isinstance(n, ast.Call) and dotted(n.func) == "self.schema":
            return ["validated"]
        return []
    fl = Flow(sv.node, ev, raises=lambda c: dotted(c.func) == "self.schema").run()
    st = [s for s in iter_stores(sv.node) if s.chain == "self._value"]
    ok = bool(st) and all((fl.state_before(s.stmt) or {}).get("validated", (0, 0))[0] >= 1 for s in st)
    r.require(ok, "Setting.setValue:schema-dominates-store", sv, msg="the schema call must dominate the store into _value")
    if st:
        names = {x.id for x in ast.walk(st[0].value) if isinstance(x, ast.Name)}
        res = [s.attr for s in iter_stores(sv.node) if isinstance(s.node, ast.Name) and isinstance(s.value, ast.Call) and dotted(s.value.func) == "self.schema"]
        r.require(bool(res) and res[0] in names, "Setting.setValue:stores-validated-value", sv, node=st[0].stmt, msg="the stored value must be the schema's output (coerced), not the raw input")
    hs = [h for n in walk_local(sv.node) if isinstance(n, ast.Try) for h in n.handlers]
    r.require(bool(hs) and all(any(isinstance(x, ast.Raise) for x in ast.walk(h)) for h in hs), "Setting.setValue:rejection-propagates", sv, msg="an invalid value must raise (not be swallowed)")
    prop = [f for f in idx.cls(SETTING).node.body if isinstance(f, ast.FunctionDef) and f.name == "value" and any("setter" in norm(d) for d in f.decorator_list)]
    r.require(bool(prop) and any(dotted(c.func) == "self.setValue" for c in iter_calls(prop[0])), "Setting.value-setter", idx.method(SETTING, "setValue"), msg="assigning .value must go through setValue")
    si = idx.method(SETTINGS, "__setitem__")
    ok = any(call_attr(c) == "setValue" for c in iter_calls(si.node)) and any(isinstance(n, ast.Raise) for n in walk_local(si.node)) and not [s for s in iter_stores(si.node) if s.attr == "_value"]
    r.require(ok, "Settings.__setitem__", si, msg="cs[key] = v must validate through Setting.setValue and refuse unknown keys")
    # the two writers that take the value FROM the default must copy it: otherwise value and default are one object and an
    # in-place edit of a container value changes the default as well (the setting then looks "at default" and is not written)
    for meth in ("__init__", "revertToDefault"):
        g = idx.method(SETTING, meth)
        for st_ in [s_ for s_ in iter_stores(g.node) if s_.chain == "self._value" and s_.kind == "assign"]:
            v = st_.value
            from_default = any(isinstance(x, (ast.Name, ast.Attribute)) and (getattr(x, "id", None) == "default" or getattr(x, "attr", None) in ("default", "_default")) for x in ast.walk(v))
            copied = isinstance(v, ast.Call) and dotted(v.func) in ("copy.deepcopy", "deepcopy")
            r.require(copied or not from_default, f"Setting.{meth}:value-is-a-deep-copy-of-the-default", g, node=st_.stmt,
                      msg=f"`{norm(st_.stmt)}` makes the live value and the stored default the same object: after an in-place edit (cs['buGroups'].append(..)) the default has changed too, "
                          "the setting counts as 'at default', the short style omits it and the value is lost on read-back")
    allowed = {"Setting.__init__": "initial value is a copy of the default", "Setting.setValue": "validated store", "Setting.revertToDefault": "copy of the default",
               "Setting.__copy__": "copy of the current value", "Settings.__setstate__": "unpickling: values were validated when first set"}
    check_writers(r, idx, "_value", allowed, relevant=lambda f, s: f.module.name.startswith("armi.settings") or (f.cls is not None and f.cls.is_subclass_of(idx.cls(SETTING))) or (s.chain or "").startswith("setting"))


def r2_rename(idx, r):
    f = idx.method(IO + ".SettingsReader", "_applySettings")
    call = next((c for c in iter_calls(f.node) if call_attr(c) == "renameSetting"), None)
    if call is None:
        raise AnalysisError("_applySettings: renameSetting call not found")
    st = next((s for s in walk_local(f.node) if isinstance(s, ast.Assign) and s.value is call), None)
    newname = None
    if st is not None and isinstance(st.targets[0], ast.Tuple):
        newname = norm(st.targets[0].elts[0])
    elif st is not None:
        newname = norm(st.targets[0]) + "[0]"
    r.require(newname is not None and not newname.startswith("_"), "result-bound", f, node=st or call, msg="the renamed name returned by renameSetting must be kept")
    mem = [n for n in walk_local(f.node) if isinstance(n, ast.Compare) and isinstance(n.ops[0], (ast.In, ast.NotIn)) and norm(n.comparators[0]) == "self.cs"]
    sto = [s for s in iter_stores(f.node) if s.kind == "subscript" and s.chain == "self.cs"]
    ok = bool(mem) and bool(sto) and all(norm(m.left) == newname for m in mem) and all(norm(s.node.slice) == newname for s in sto)
    r.require(ok, "renamed-name-used", f, msg=f"membership test and assignment must use the renamed name `{newname}`: tests on {[norm(m.left) for m in mem]}, stores under {[norm(s.node.slice) for s in sto]}")
    if st is not None and call.lineno:
        r.require(all(m.lineno > st.lineno for m in mem) and all(s.stmt.lineno > st.lineno for s in sto), "rename-first", f, msg="the rename must happen before the name is looked up")
    rn = idx.method("armi.settings.settingsIO.SettingRenamer", "renameSetting") if "SettingRenamer" in idx.module(IO).classes else idx.cls("SettingRenamer").methods.get("renameSetting")
    rets = [n for n in walk_local(rn.node) if isinstance(n, ast.Return)]
    r.require(all(isinstance(n.value, ast.Tuple) and len(n.value.elts) == 2 for n in rets) and len(rets) >= 2, "renameSetting-returns-pair", rn, msg="renameSetting must return (name, wasRenamed)")
    rd = idx.method(IO + ".SettingsReader", "_readYaml")
    loop = next((n for n in walk_local(rd.node) if isinstance(n, ast.For) and any(dotted(c.func) == "self._applySettings" for c in iter_calls(n))), None)
    ok = loop is not None and norm(loop.iter).endswith(".items()") and [norm(a) for c in iter_calls(loop) if dotted(c.func) == "self._applySettings" for a in c.args] == [norm(e) for e in loop.target.elts]
    r.require(ok, "every-setting-applied", rd, node=loop, msg="every (name, value) of the file must be applied")


def r3_copy_on_modify(idx, r):
    f = idx.method(SETTINGS, "modified")
    dup = [s for s in iter_stores(f.node) if isinstance(s.node, ast.Name) and isinstance(s.value, ast.Call) and dotted(s.value.func) == "self.duplicate"]
    if not dup:
        r.violate("duplicates-first", f, "modified() does not start from self.duplicate()")
        return
    nm = dup[0].attr
    rets = [n for n in walk_local(f.node) if isinstance(n, ast.Return)]
    r.require(bool(rets) and all(n.value is not None and norm(n.value) == nm for n in rets), "returns-the-copy", f,
              msg=f"every return of modified() must hand back the duplicate `{nm}`, never the original: returns {[norm(n.value) if n.value is not None else None for n in rets]}")
    bad = [s for s in iter_stores(f.node) if s.chain and s.chain.startswith("self.")]
    r.require(not bad, "no-store-into-self", f, node=bad[0].stmt if bad else None, msg="modified() must not write into the original settings object")
    d = idx.method(SETTINGS, "duplicate")
    ok = any(isinstance(s.value, ast.Call) and dotted(s.value.func) in ("deepcopy", "copy.deepcopy") and norm(s.value.args[0]) == "self" for s in iter_stores(d.node) if s.value is not None)
    retd = [n for n in walk_local(d.node) if isinstance(n, ast.Return)]
    r.require(ok and len(retd) == 1, "duplicate-is-deepcopy", d, msg="duplicate() must be a deep copy of self")
    gs = idx.method(SETTING, "__getstate__")
    r.require(any(isinstance(s.value, ast.Call) and dotted(s.value.func) == "copy.deepcopy" and norm(s.value.args[0]) == "self.__dict__" for s in iter_stores(gs.node) if s.value is not None), "Setting.__getstate__:deep", gs,
              msg="a copied setting must not share its value container with the original")
    cp = idx.method(SETTING, "__copy__")
    r.require(any(s.chain and s.chain.endswith("._value") and norm(s.value) == "copy.deepcopy(self._value)" for s in iter_stores(cp.node)), "Setting.__copy__:deep-value", cp, msg="__copy__ must deep-copy the current value")


def r4_writer(idx, r):
    w = idx.cls(IO + ".SettingsWriter")
    g = w.methods.get("_getSettingDataToWrite")
    loop = next((n for n in g.node.body if isinstance(n, ast.For)), None)
    if loop is None:
        raise AnalysisError("_getSettingDataToWrite loop not found")
    skips = [n for n in loop.body if isinstance(n, ast.If) and len(n.body) == 1 and isinstance(n.body[0], ast.Continue)]
    tests = sorted(norm(n.test) for n in skips)
    obj = norm(loop.target.elts[1]) if isinstance(loop.target, ast.Tuple) else "settingObject"
    nm = norm(loop.target.elts[0]) if isinstance(loop.target, ast.Tuple) else "settingName"
    want = sorted([f"self.style == WRITE_SHORT and (not {obj}.offDefault)", f"self.style == WRITE_MEDIUM and (not {obj}.offDefault) and ({nm} not in self.settingsSetByUser)"])
    r.require(tests == want, "skip-filters", g, node=loop, msg=f"short skips exactly the defaults, medium additionally keeps user-set names, full skips nothing; found {tests}")
    other = [n for n in walk_local(loop) if isinstance(n, (ast.Continue, ast.Break)) and not any(n is s.body[0] for s in skips)]
    r.require(not other, "no-other-skips", g, msg="no other setting may be skipped")
    r.require(any(s.kind == "subscript" and s.chain == "settingData" and norm(s.node.slice) == obj for s in iter_stores(loop)), "every-kept-setting-recorded", g, msg="every setting that is not skipped must be recorded")
    r.require("self.cs.items()" in norm(loop.iter), "iterates-all-settings", g, node=loop.iter, msg="the writer must consider every setting of the object (incl. plugin settings)")
    od = idx.cls(SETTING).node
    offd = next((f for f in od.body if isinstance(f, ast.FunctionDef) and f.name == "offDefault"), None)
    isd = idx.method(SETTING, "isDefault")
    r.require(offd is not None and norm(offd.body[-1]) == "return not self.isDefault()" and norm(isd.node.body[-1]) == "return self.value == self.default", "offDefault-definition", isd, msg="offDefault must mean value != default")
    p = w.methods.get("_preprocessYaml")
    dumps = [c for c in iter_calls(p.node) if call_attr(c) == "dump" and isinstance(c.func, ast.Attribute)]
    r.require(bool(dumps), "values-through-dump", p, msg="values must be written through Setting.dump()")
    ver = [s for s in iter_stores(p.node) if s.kind == "subscript" and s.chain == "cleanedData" and norm(s.node.slice) == "CONF_VERSIONS"]
    def keeps_user_entries(s):
        conds = [(norm(t), pol) for t, pol in path_conditions(p.node, s.stmt)]
        if conds == [("CONF_VERSIONS in cleanedData", False)]:
            return True  # created only when absent
        v = s.value  # or rebuilt FROM the existing entries: dict(D.get(K, {})) / D[K].copy() / {**D[K]}
        txt = norm(v) if v is not None else ""
        return "cleanedData.get(CONF_VERSIONS" in txt or "cleanedData[CONF_VERSIONS]" in txt
    okv = all(keeps_user_entries(s) for s in ver)
    r.require(okv, "versions-preserved", p, node=ver[0].stmt if ver else None, msg="the `versions` mapping may be created only when absent: replacing it drops the entries the user set")
    r.require(any(s.kind == "subscript" and norm(s.node) == "cleanedData[CONF_VERSIONS]['armi']" for s in iter_stores(p.node)), "armi-version-recorded", p, msg="the armi version is added to the mapping")
    tag = w.methods.get("_getTag")
    rd = idx.method(IO + ".SettingsReader", "_readYaml")
    r.require("Roots.CUSTOM" in norm(tag.node) and any(norm(n) == "tree[Roots.CUSTOM]" for n in ast.walk(rd.node)), "root-key", tag, msg="the root key written must be the one read")
    init = w.methods.get("__init__")
    r.require(any(isinstance(n, ast.If) and "WRITE_SHORT, WRITE_MEDIUM, WRITE_FULL" in norm(n.test) and any(isinstance(x, ast.Raise) for x in n.body) for n in walk_local(init.node)), "style-validated", init, msg="unknown styles must be refused")


def r5_flags(idx, r):
    c = idx.cls("armi.settings.setting.FlagListSetting")
    d, s = c.methods.get("dump"), c.methods.get("schema")
    if d is None or s is None:
        raise AnchorMissing("FlagListSetting.dump/schema")
    r.require(norm(d.node.body[-1]) == "return [Flags.toString(v) for v in self.value]", "dump-toString", d, msg="every flag must be written through Flags.toString")
    conv = [c_ for c_ in iter_calls(s.node) if dotted(c_.func) == "Flags.fromString"]
    loop = next((n for n in s.node.body if isinstance(n, ast.For)), None)
    ok = bool(conv) and loop is not None and norm(loop.iter) == s.params()[0] and any(isinstance(n, ast.Raise) for n in walk_local(loop))
    r.require(ok, "schema-fromString", s, msg="every string must be read through Flags.fromString and other element types refused")
    rets = [n for n in walk_local(s.node) if isinstance(n, ast.Return)]
    app = [c_ for c_ in iter_calls(loop) if call_attr(c_) == "append"] if loop is not None else []
    r.require(len(rets) == 1 and len(app) == 2 and all(norm(a.func.value) == norm(rets[0].value) for a in app), "schema-keeps-every-element", s, msg="each accepted element must be kept, in order")
    init = c.methods.get("__init__")
    r.require(any(k.arg == "schema" and norm(k.value) == "self.schema" for c_ in iter_calls(init.node) for k in c_.keywords), "schema-installed", init, msg="the flag schema must be installed as the setting's schema")


def r6_xs_serialisers(idx, r):
    m = idx.module("armi.physics.neutronics.crossSectionSettings")
    ser = idx.method("armi.physics.neutronics.crossSectionSettings.XSModelingOptions", "serialize")
    fun = idx.func("armi.physics.neutronics.crossSectionSettings.serializeXSSettings")
    comps = []
    for f in (ser, fun):
        for n in walk_local(f.node):
            if isinstance(n, ast.DictComp):
                g = n.generators[0]
                k, v = (norm(e) for e in g.target.elts)
                conj = []
                for c in g.ifs:
                    conj.extend(c.values if isinstance(c, ast.BoolOp) and isinstance(c.op, ast.And) else [c])
                conds = sorted(norm(c).replace(v, "<val>").replace(k, "<key>") for c in conj)
                same = norm(n.key) == k and norm(n.value) == v
                comps.append((f, n, conds, same))
    if len(comps) != 2:
        raise AnalysisError("expected one filtering dict comprehension in each serialiser")
    for f, n, conds, same in comps:
        r.require(same, f"{f.qualname}:keeps-pairs", f, node=n, msg="serialised entries must be the (key, value) pairs themselves")
        flt = [c for c in conds if "<val>" in c]
        r.require(flt == ["<val> is not None"], f"{f.qualname}:drops-only-None", f, node=n,
                  msg=f"only unset (None) options may be omitted; this serialiser filters on {flt} (explicit False/0/[] would be lost and read back as the geometry default)")
    r.require([c for c in comps[0][2] if "<val>" in c] == [c for c in comps[1][2] if "<val>" in c], "siblings-agree", fun, msg="the two serialisers of cross-section options must omit the same values")
    sd = idx.cls("armi.physics.neutronics.crossSectionSettings.XSSettingDef")
    dump = sd.methods.get("dump")
    if dump is not None:
        r.require(any(dotted(c.func) == "serializeXSSettings" for c in iter_calls(dump.node)), "XSSettingDef.dump", dump, msg="the setting must be dumped through serializeXSSettings")


# ------------------------------------------------------------------------------------------------
class _Reject(Exception):
    pass


_UNK = object()


def _sfold(idx, m, n):
    try:
        return idx.fold(m, n)
    except AnalysisError:
        return _UNK


def _vol_apply(idx, mod, sch, val):
    """Apply a voluptuous schema given as an AST to a constant; returns the (possibly coerced) value,
    raises _Reject when the schema definitely refuses it, returns _UNK when outside the fragment."""
    if isinstance(sch, ast.Constant):
        if sch.value is None:
            if val is None:
                return val
            raise _Reject("expected None")
        return val if val == sch.value else _UNK
    if isinstance(sch, ast.Name) and sch.id in ("int", "float", "str", "bool", "list", "dict"):
        t = {"int": int, "float": float, "str": str, "bool": bool, "list": list, "dict": dict}[sch.id]
        if isinstance(val, t) and not (t is int and isinstance(val, bool)):
            return val
        raise _Reject(f"expected {sch.id}")
    if isinstance(sch, ast.List):
        if not isinstance(val, list):
            raise _Reject("expected a list")
        if not sch.elts:
            return val if not val else _UNK
        out = []
        for v in val:
            acc, last = _UNK, None
            for alt in sch.elts:
                try:
                    acc = _vol_apply(idx, mod, alt, v)
                    break
                except _Reject as e:
                    last = e
                    acc = None
            if acc is None:
                raise _Reject(f"list element {v!r}: {last}")
            if acc is _UNK:
                return _UNK
            out.append(acc)
        return out
    if isinstance(sch, ast.Call):
        d = dotted(sch.func)
        kw = {k.arg: k.value for k in sch.keywords}
        if d in ("vol.Schema", "voluptuous.Schema") and sch.args:
            return _vol_apply(idx, mod, sch.args[0], val)
        if d in ("vol.Coerce", "voluptuous.Coerce") and sch.args and isinstance(sch.args[0], ast.Name) and sch.args[0].id in ("int", "float", "str"):
            t = {"int": int, "float": float, "str": str}[sch.args[0].id]
            try:
                return t(val)
            except (TypeError, ValueError):
                raise _Reject(f"expected {sch.args[0].id}")
        if d in ("vol.Range", "voluptuous.Range"):
            def cst(n):
                v = _sfold(idx, mod, n) if n is not None else None
                return v
            lo, hi = cst(kw.get("min")), cst(kw.get("max"))
            li = cst(kw.get("min_included")) if "min_included" in kw else True
            hi_i = cst(kw.get("max_included")) if "max_included" in kw else True
            if _UNK in (lo, hi, li, hi_i):
                return _UNK
            if not isinstance(val, (int, float)) or isinstance(val, bool) and False:
                raise _Reject("value not comparable with the range")
            if lo is not None and (val < lo or (val == lo and not li)):
                raise _Reject(f"value must be {'at least' if li else 'higher than'} {lo}")
            if hi is not None and (val > hi or (val == hi and not hi_i)):
                raise _Reject(f"value must be {'at most' if hi_i else 'lower than'} {hi}")
            return val
        if d in ("vol.In", "voluptuous.In") and sch.args:
            opts = _sfold(idx, mod, sch.args[0])
            if isinstance(opts, (list, tuple, set)):
                if val in opts:
                    return val
                raise _Reject(f"value not among {list(opts)[:6]}")
            return _UNK
        if d in ("vol.All", "voluptuous.All"):
            for a in sch.args:
                val = _vol_apply(idx, mod, a, val)
                if val is _UNK:
                    return _UNK
            return val
        if d in ("vol.Any", "voluptuous.Any"):
            unk, last = False, None
            for a in sch.args:
                try:
                    v = _vol_apply(idx, mod, a, val)
                except _Reject as e:
                    last = e
                    continue
                if v is _UNK:
                    unk = True
                    continue
                return v
            if unk:
                return _UNK
            raise _Reject(f"no alternative accepts it (last: {last})")
    return _UNK


def r7_default_in_schema(idx, r):
    """Full-style files write every default; reading validates each value. A default that its own
    schema / enforced option list rejects makes the written file unreadable."""
    n = 0
    for m in idx.modules.values():
        if not m.name.startswith("armi.") or ".tests" in m.name or m.name.endswith(".tests"):
            continue
        for f in list(m.all_funcs()):
            for c in iter_calls(f.node):
                d = dotted(c.func)
                if not d or d.split(".")[-1] != "Setting" or d.split(".")[0] not in ("setting", "Setting", "settings"):
                    continue
                kw = {k.arg: k.value for k in c.keywords}
                name = c.args[0] if c.args else kw.get("name")
                dflt = c.args[1] if len(c.args) > 1 else kw.get("default")
                if name is None or dflt is None:
                    continue
                nm = _sfold(idx, m, name)
                key = f"{m.relpath.rsplit('/', 1)[-1]}:{nm if isinstance(nm, str) else norm(name)}"
                try:
                    dv = ast.literal_eval(dflt)
                except (ValueError, SyntaxError):
                    dv = _sfold(idx, m, dflt)
                    if dv is _UNK or (dv is None and not (isinstance(dflt, ast.Constant) and dflt.value is None)):
                        r.undecided(key, f, "default is not a literal", node=c)
                        continue
                n += 1
                sch = kw.get("schema")
                opts, enf = kw.get("options"), kw.get("enforcedOptions")
                if sch is None or (isinstance(sch, ast.Constant) and sch.value is None):
                    if opts is not None and enf is not None and _sfold(idx, m, enf) is True:
                        ov = _sfold(idx, m, opts)
                        if isinstance(ov, (list, tuple)) and ov:  # an empty option list is not enforced (Setting._setSchema)
                            r.require(dv in ov, key, f, node=c, msg=f"default {dv!r} is not among the enforced options {list(ov)[:8]}: a full-style file cannot be read back")
                            continue
                    r.ok(key, f, node=c, msg="schema derived from the default's own type")
                    continue
                while isinstance(sch, ast.Tuple) and len(sch.elts) == 1:
                    sch = sch.elts[0]
                try:
                    out = _vol_apply(idx, m, sch, dv)
                except _Reject as e:
                    r.violate(key, f, f"the default {dv!r} is rejected by the setting's own schema `{norm(sch)[:80]}` ({e}): the full style writes it and reading the file back fails", node=c)
                    continue
                if out is _UNK:
                    r.undecided(key, f, f"schema `{norm(sch)[:60]}` outside the evaluated fragment", node=c)
                elif out != dv and not (isinstance(out, float) and isinstance(dv, int) and out == dv):
                    r.violate(key, f, f"the schema turns the default {dv!r} into {out!r}: a setting left at default does not stay at default after a full-style round trip", node=c)
                else:
                    r.ok(key, f, node=c)
    if n < 100:
        raise AnalysisError(f"only {n} Setting(...) definitions with literal defaults found")


def r8_writer_does_not_mutate(idx, r):
    """Writing a settings file must leave the settings object as it was. The writer collects `setting.dump()` results -
    for container settings that IS the live value - into a mapping; any later in-place edit of an entry of that mapping
    (stamping the armi version into `versions`) edits the setting itself unless the entry was copied first."""
    f = idx.method(IO + ".SettingsWriter", "_preprocessYaml")
    if f is None:
        raise AnchorMissing("SettingsWriter._preprocessYaml")
    live = set()   # mappings whose entries alias live values
    for st in iter_stores(f.node):
        if st.kind == "subscript" and isinstance(st.node, ast.Subscript) and isinstance(st.node.value, ast.Name) and isinstance(st.value, ast.Call) and call_attr(st.value) == "dump":
            live.add(st.node.value.id)
    if not live:
        raise AnchorMissing("_preprocessYaml: collection of setting.dump() results")
    n = 0
    for st in iter_stores(f.node):
        nd = st.node
        if st.kind in ("subscript", "subscript-aug", "mutcall") and isinstance(nd, (ast.Subscript, ast.Attribute)):
            inner = nd.value if isinstance(nd, ast.Subscript) else nd
            # D[k][j] = v   /  D[k].update(...)
            tgt = inner if isinstance(inner, ast.Subscript) else None
            if st.kind == "mutcall" and isinstance(nd, ast.Subscript):
                tgt = nd
            if tgt is not None and isinstance(tgt.value, ast.Name) and tgt.value.id in live:
                n += 1
                key = norm(tgt.slice)
                # fresh when the same entry was (re)bound to a copy earlier in the function
                fresh = any(s2.kind == "subscript" and isinstance(s2.node, ast.Subscript) and isinstance(s2.node.value, ast.Name) and s2.node.value.id == tgt.value.id and norm(s2.node.slice) == key
                            and isinstance(s2.value, (ast.Dict, ast.Call)) and not (isinstance(s2.value, ast.Call) and call_attr(s2.value) == "dump") and s2.stmt.lineno < st.stmt.lineno
                            and not [c for c, pol in path_conditions(f.node, s2.stmt) if True] for s2 in iter_stores(f.node))
                r.require(fresh, f"in-place-edit:{norm(st.stmt)[:60]}", f, node=st.stmt,
                          msg=f"`{norm(st.stmt)[:70]}` edits an entry of `{tgt.value.id}`, whose entries are the live values returned by setting.dump(): writing a file "
                              "changes the settings object it writes (the `versions` setting of the ORIGINAL gains/overwrites a key)")
    if n == 0:
        r.ok("no-in-place-edit", f, msg="no entry of the collected values is edited in place")


def r9_names_options_fields(idx, r):
    """(a) a name that IS a current setting is never redirected by the renamer: every `(other, True)` return of renameSetting lies behind the
    refusal `name in self._currentNames -> (name, False)`.  (b) whenever a Setting's option list grows, its schema is rebuilt before the method
    returns (a setting whose enforced list started empty otherwise keeps its permissive schema).  (c) a constructor of the settings model that
    stores a parameter into a field named like ANOTHER of its parameters has swapped two fields."""
    rn = idx.method("armi.settings.settingsIO.SettingRenamer", "renameSetting")
    nm = rn.params()[1]
    n = 0
    for x in [x for x in walk_local(rn.node) if isinstance(x, ast.Return) and isinstance(x.value, ast.Tuple) and len(x.value.elts) == 2]:
        renamed = norm(x.value.elts[1]) == "True" or norm(x.value.elts[0]) != nm
        if not renamed:
            continue
        n += 1
        conds = {(norm(t), p) for t, p in path_conditions(rn.node, x)}
        r.require((f"{nm} in self._currentNames", False) in conds or (f"{nm} not in self._currentNames", True) in conds, "renameSetting:current-names-win", rn, node=x,
                  msg=f"`{norm(x)}` can be reached for a name that is a current setting: a setting whose name is also an unexpired old name of another setting is redirected on reading, so "
                      "its value lands in the other setting")
    if n < 1:
        raise AnchorMissing("SettingRenamer.renameSetting: return (activeRename, True)")
    st = idx.cls("armi.settings.setting.Setting")
    g = 0
    for name, f in st.methods.items():
        grows = [c for c in iter_calls(f.node) if call_attr(c) in ("extend", "append", "insert") and norm(c.func.value) == "self.options"] + \
                [s_.stmt for s_ in iter_stores(f.node) if s_.chain == "self.options" and s_.kind in ("aug", "assign") and name != "__init__"]
        if not grows:
            continue
        g += 1
        first = grows[0]

        def ev(nd, first=first):
            if nd is first:
                return ["grown"]
            if isinstance(nd, ast.Call) and dotted(nd.func) in ("self._setSchema",):
                return ["schema"]
            return []
        fl = Flow(f.node, ev).run()
        # schema rebuilt AFTER the growth: count schema events at exits minus those before the growth statement
        before = fl.state_before(first) or {}
        bad = [e for e in fl.normal_exits() if e.state.get("grown", (0, 0))[1] >= 1 and e.state.get("schema", (0, 0))[0] <= before.get("schema", (0, 0))[1]]
        r.require(not bad, f"Setting.{name}:schema-rebuilt-after-options-grow", f, node=first,
                  msg=f"Setting.{name} extends the option list without rebuilding the schema afterwards: for a setting with enforcedOptions whose own list started empty the permissive "
                      "schema stays and values outside the options are accepted")
    if g < 1:
        raise AnchorMissing("Setting.addOptions: self.options.extend(...)")
    k = 0
    for mname in ("armi.settings.setting", "armi.settings.caseSettings", "armi.settings.settingsIO", "armi.physics.neutronics.crossSectionSettings"):
        m = idx.modules.get(mname)
        if m is None:
            raise AnchorMissing(mname)
        for f in m.all_funcs():
            if f.name != "__init__" or f.cls is None:
                continue
            ps = set(f.params()[1:]) | {a.arg for a in f.node.args.kwonlyargs}
            k += 1
            sw = [s_ for s_ in iter_stores(f.node) if s_.kind == "assign" and s_.chain == f"self.{s_.attr}" and isinstance(s_.value, ast.Name) and s_.value.id in ps and s_.attr in ps and s_.attr != s_.value.id]
            r.require(not sw, f"{f.qualname}:fields-take-their-own-argument", f, node=sw[0].stmt if sw else None,
                      msg=f"`{norm(sw[0].stmt) if sw else ''}` stores one constructor argument into the field named like another: the value read from (or assigned through) the settings ends up "
                          "in the other field, and a write/read cycle swaps it back")
    if k < 4:
        raise AnalysisError(f"only {k} constructors of the settings model found")


def r10_user_names_renamed(idx, r):
    """The medium writer keeps a default-valued setting exactly when its name is among the names the user's file mentions.  Those names are read
    raw from the YAML file, which may still use OLD names (accepted and renamed by the reader): they must go through the same renamer before they
    are compared with current setting names, or a setting entered under its old name is dropped from the medium output."""
    f = idx.method(SETTINGS, "getSettingsSetByUser")
    rets = [x for x in walk_local(f.node) if isinstance(x, ast.Return) and x.value is not None]
    if len(rets) != 1:
        raise AnchorMissing("Settings.getSettingsSetByUser: one return")
    v = propagate(rets[0].value, single_assign_env(f.node))
    r.require(any(isinstance(c, ast.Call) and call_attr(c) == "renameSetting" for c in ast.walk(v)), "getSettingsSetByUser:names-renamed", f, node=rets[0],
              msg=f"the user's names are returned as `{norm(v)[:70]}`, i.e. as spelled in the file: a setting entered under an accepted old name (burnTime, numProcessors ...) is not recognised "
                  "as user-set and the medium style omits it when it has its default value")
    users = [fn for fn in idx.module(IO).all_funcs() if any(isinstance(x, ast.Attribute) and x.attr == "settingsSetByUser" and isinstance(x.ctx, ast.Load) for x in ast.walk(fn.node))]
    r.require(bool(users), "writer:consults-user-names", users[0] if users else f, msg="the writer consults the user-set names")


def r11_exactly_one_and_expiry(idx, r):
    """(a) a detailed cycle entry must give EXACTLY one of the duration inputs: the schema hook counts them and must compare the count with 1
    by (in)equality - `> 1` lets an entry with no duration at all through.  (b) an old setting name is expired once its expiry date has
    passed: `expired` must be monotone in `today` that way round."""
    m = idx.modules.get("armi.settings.fwSettings.globalSettings")
    f = m.functions.get("_mutuallyExclusiveCyclesInputs") if m is not None else None
    if f is None:
        raise AnchorMissing("globalSettings._mutuallyExclusiveCyclesInputs")
    cmp_ = [x for x in ast.walk(f.node) if isinstance(x, ast.Compare) and len(x.ops) == 1 and isinstance(x.comparators[0], ast.Constant) and x.comparators[0].value == 1
            and any(isinstance(y, ast.Call) and dotted(y.func) in ("sum", "len") for y in ast.walk(x.left))]
    if not cmp_:
        raise AnchorMissing("_mutuallyExclusiveCyclesInputs: comparison of the number of duration inputs with 1")
    for x in cmp_:
        r.require(isinstance(x.ops[0], (ast.Eq, ast.NotEq)), "cycles:exactly-one-duration-input", f, node=x,
                  msg=f"`{norm(x)[:80]}` does not require exactly one duration input per cycle: an entry without any (or, with `<`, with several) is accepted and fails later, far from the input")
    rn = idx.method("armi.settings.settingsIO.SettingRenamer", "__init__")
    env = single_assign_env(rn.node)
    # wherever the expiry date is compared with today (in the value of a flag, or - a single-use flag being inlined by the canonical front
    # end - directly in a test): the name counts as expired once the date has passed
    ex = [x for x in ast.walk(rn.node) if isinstance(x, ast.Compare) and len(x.ops) == 1 and {"today", "expiry"} <= {norm(x.left), norm(x.comparators[0])}]
    if not ex:
        raise AnchorMissing("SettingRenamer.__init__: comparison of expiry with today")
    for x_ in ex:
        comps = [x_]
        ok = all((norm(x.left) == "expiry" and isinstance(x.ops[0], (ast.Lt, ast.LtE))) or (norm(x.left) == "today" and isinstance(x.ops[0], (ast.Gt, ast.GtE))) for x in comps)
        s_ = type("S", (), {"stmt": x_})
        r.require(ok, "renamer:expired-once-the-date-has-passed", rn, node=s_.stmt,
                  msg=f"`{norm(s_.stmt)}`: an old name must count as expired when its expiry date lies in the past; the other way round, names inside their grace period are refused and "
                      "long-expired ones are silently renamed")


# numeric kind of each coerced cross-section option, confirmed by reading XSModelingOptions and its documentation: counts are ints,
# everything measured (sizes, densities, thresholds, priorities that may be interleaved such as 2.5) is real
XS_COERCIONS = {"CONF_INTERNAL_RINGS": "int", "CONF_EXTERNAL_RINGS": "int", "CONF_XS_MAX_ATOM_NUMBER": "int", "CONF_MESH_PER_CM": "float", "CONF_XS_PRIORITY": "float",
                "CONF_MIN_DRIVER_DENSITY": "float", "CONF_TRACE_ISOTOPE_THRESHOLD": "float"}


def r12_values_reach_the_settings(idx, r):
    """(a) every entry of a settings file is applied, whatever its value (an explicit null is a value: it must not leave the default in place);
    (b) a validator that normalises through a schema USES the schema's result - a schema call whose result is discarded validates but stores
    the caller's un-coerced, shared input; (c) the numeric kind each cross-section option is coerced to is the frozen one - a real-valued
    option coerced to int is silently truncated on assignment and on reading."""
    f = idx.method(IO + ".SettingsReader", "_readYaml")
    ap = [c for c in iter_calls(f.node) if dotted(c.func) == "self._applySettings"]
    loop = next((x for x in walk_local(f.node) if isinstance(x, ast.For) and any(c in list(ast.walk(x)) for c in ap)), None)
    if loop is None or len(ap) != 1:
        raise AnchorMissing("SettingsReader._readYaml: loop applying every entry")
    conds = [norm(t) for t, p in path_conditions(ast.Module(body=loop.body, type_ignores=[]), ap[0])]
    r.require(not conds, "_readYaml:every-entry-applied", f, node=ap[0], msg=f"an entry of the file is only applied under {conds}: e.g. a setting explicitly set to null comes back as its default after a write/read cycle")
    n = 0
    for m in idx.modules.values():
        if not (m.name.startswith("armi.settings") or m.name == "armi.physics.neutronics.crossSectionSettings") or ".tests" in m.name:
            continue
        for fn in m.all_funcs():
            for st_ in walk_local(fn.node):
                if isinstance(st_, ast.Expr) and isinstance(st_.value, ast.Call):
                    d = dotted(st_.value.func) or ""
                    last = d.split(".")[-1]
                    if (last.isupper() and last.endswith("SCHEMA")) or last in ("schema", "_customSchema"):
                        n += 1
                        r.violate(f"{fn.qualname}:schema-result-used", fn, f"`{norm(st_)}` validates but throws the normalised result away: what is stored afterwards is the caller's own, un-coerced object "
                                  "(a convergence given as '1e-4' stays a string; the stored dictionaries are shared with the caller)", node=st_)
    r.ok("schema-calls-scanned", f)
    xm = idx.modules.get("armi.physics.neutronics.crossSectionSettings")
    sch = xm.consts.get("_SINGLE_XS_SCHEMA") if xm is not None else None
    if sch is None:
        raise AnchorMissing("crossSectionSettings._SINGLE_XS_SCHEMA")
    seen = {}
    for d in [x for x in ast.walk(sch) if isinstance(x, ast.Dict)]:
        for k, v in zip(d.keys, d.values):
            if isinstance(k, ast.Call) and k.args and isinstance(k.args[0], ast.Name) and isinstance(v, ast.Call) and (dotted(v.func) or "").endswith("Coerce") and v.args:
                seen[k.args[0].id] = norm(v.args[0])
    for k, t in sorted(XS_COERCIONS.items()):
        if k not in seen:
            raise AnchorMissing(f"_SINGLE_XS_SCHEMA: Coerce entry for {k}")
        r.require(seen[k] == t, f"xs-schema:{k}:{t}", (xm.relpath, sch.lineno), msg=f"{k} is coerced to {seen[k]} (frozen: {t}): a fractional value is truncated on assignment and on reading instead of being kept")
    extra = sorted(set(seen) - set(XS_COERCIONS))
    if extra:
        raise AnalysisError(f"_SINGLE_XS_SCHEMA has coerced options the frozen table does not know: {extra}")


def r13_yaml_scalars_are_not_all_strings(idx, r):
    """The values of a dictionary-valued setting come back from YAML with the type YAML gives them: `armi.foo: 20` is the integer 20, and
    the settings system itself accepts and writes it that way.  Code that consumes such values applies string methods only to str(value) -
    otherwise a file ARMI wrote itself cannot be read back."""
    f = idx.method(SETTINGS, "setModuleVerbosities")
    loop = next((x for x in walk_local(f.node) if isinstance(x, ast.For) and call_attr(x.iter) == "items" if isinstance(x.iter, ast.Call)), None)
    if loop is None or not isinstance(loop.target, ast.Tuple):
        raise AnchorMissing("Settings.setModuleVerbosities: loop over the verbosity items")
    val = norm(loop.target.elts[1])
    strs = any(isinstance(s_, ast.Assign) and norm(s_.targets[0]) == val and isinstance(s_.value, ast.Call) and dotted(s_.value.func) == "str" for s_ in ast.walk(loop))
    n = 0
    for c in ast.walk(loop):
        if isinstance(c, ast.Call) and isinstance(c.func, ast.Attribute) and c.func.attr in ("isnumeric", "isdigit", "upper", "lower", "strip", "startswith") and norm(c.func.value) == val:
            n += 1
            r.require(strs, f"setModuleVerbosities:{c.func.attr}:on-a-string", f, node=c,
                      msg=f"`{norm(c)}` assumes the level is a string; `moduleVerbosity: {{armi.foo: 20}}` is accepted, written as the number 20 and then fails to read back with AttributeError")
    if n < 1:
        raise AnchorMissing("setModuleVerbosities: string test on the level")


def r14_copy_keeps_the_class(idx, r):
    """A setting is written through its own `dump()`; the subclasses of Setting override it (flags to strings, XS / tight-coupling dictionaries
    to plain dictionaries).  A copy method of a class that has subclasses must therefore build the copy from the class of the object
    (`self.__class__` / `type(self)` / copy.copy), never by calling the base class by name: that copy silently loses every override, and
    Settings.getSetting hands such copies out."""
    n = 0
    for c in idx.all_classes():
        if not c.fq.startswith("armi.settings.") and c.fq != SETTING and not any(k.fq == SETTING for k in c.mro()):
            continue
        subs = idx.subclasses(c)
        for mn in ("__copy__", "__deepcopy__", "duplicate", "copy"):
            f = c.methods.get(mn)
            if f is None:
                continue
            n += 1
            own = [x for x in iter_calls(f.node) if isinstance(x.func, ast.Name) and x.func.id == c.name]
            overriders = sorted(k.name for k in subs if any(m in k.methods for m in ("dump", "setValue", "schema", "_load")))
            r.require(not (own and overriders), f"{c.name}.{mn}:copy-is-of-the-object's-class", f, node=own[0] if own else None,
                      msg=f"`{norm(own[0])[:50] if own else ''}...` builds the copy as a plain {c.name}: the copy of a {'/'.join(overriders)} loses its dump()/schema override and can no longer be written")
    if n < 2:
        raise AnchorMissing("Setting.__copy__ / Settings.duplicate")


def r15_default_test_and_rename_table(idx, r):
    """(a) which settings the short and medium write styles leave out is decided by Setting.isDefault, EVALUATED (MiniEval) on every pair of
    nine values (None, 0, 0.0, False, "", [], [1], 1.5, "a") for value and default: it is true exactly when the value equals the default.
    Two different falsy values (0.0 against None, [] against None) are different - a setting left out is read back as its default.
    (b) the table of old setting names is data: an old name that this tree maps to another setting than laws/setting_renames.json (frozen
    from the tree the rules were confirmed on) silently redirects every old input.  New and expired entries are not findings."""
    import json, os
    from ..minieval import MiniEval
    f = idx.method(SETTING, "isDefault")
    vals = [None, 0, 0.0, False, "", [], [1], 1.5, "a"]
    bad = []
    for v in vals:
        for d in vals:
            got, _ = MiniEval().run(f.node, {"self.value": v, "self.default": d, "self._value": v, "self._default": d})
            if bool(got) != (v == d):
                bad.append((v, d, got))
    r.require(not bad, "Setting.isDefault:true-iff-value-equals-default", f,
              msg=f"(value, default, answer) = {bad[:4]}: an off-default value that is reported as default is dropped by the short/medium write styles and reads back as the default")
    frozen = json.load(open(os.path.join(os.path.dirname(os.path.dirname(os.path.dirname(os.path.abspath(__file__)))), "laws", "setting_renames.json")))["renames"]
    now = {}
    for m in idx.modules.values():
        if ".tests" in m.name or not m.name.startswith("armi."):
            continue
        for c in ast.walk(m.tree):
            if isinstance(c, ast.Call) and norm(c.func).split(".")[-1].endswith("Setting") and c.args:
                on = [k for k in c.keywords if k.arg == "oldNames"]
                if not on or not isinstance(on[0].value, (ast.List, ast.Tuple)):
                    continue
                try:
                    name = idx.fold(m, c.args[0])
                except Exception:
                    name = None
                for t in on[0].value.elts:
                    if isinstance(t, ast.Tuple) and t.elts and isinstance(t.elts[0], ast.Constant) and isinstance(t.elts[0].value, str):
                        now.setdefault(t.elts[0].value, []).append((name, m, c))
    if len(now) < 8:
        raise AnchorMissing("settings with oldNames")
    for old, hits in sorted(now.items()):
        for name, m, c in hits:
            if old in frozen and name is not None:
                r.require(name == frozen[old], f"oldName:{old}:renames-the-same-setting", (m.relpath, c.lineno, ""), node=None,
                          msg=f"the old name `{old}` now belongs to `{name}`; it used to rename `{frozen[old]}`: an input that still says `{old}` sets the wrong setting without any message")
        targets = {h[0] for h in hits}
        r.require(len(targets) == 1, f"oldName:{old}:one-target", (hits[0][1].relpath, hits[0][2].lineno, ""), msg=f"the old name `{old}` is claimed by {sorted(map(str, targets))}")


def r17_null_is_a_value_and_strictly_increasing(idx, r):
    """(a) the reader applies every entry of the file to its setting, a YAML null included: the writer emits `null` for a setting whose value
    is None, so a reader that skips nulls reads the default back instead.  The assignment in SettingsReader._applySettings depends on the
    NAME being known, never on the value.  (b) `cumulative days` must increase strictly: the validator asks isMonotonic for "<".  With "<="
    two equal neighbours pass - a step of length zero - although the schema is there to refuse them."""
    f = idx.method("armi.settings.settingsIO.SettingsReader", "_applySettings")
    val = f.params()[2]
    sts = [s_ for s_ in iter_stores(f.node) if s_.kind == "subscript" and norm(s_.node.value) == "self.cs"] + [c for c in iter_calls(f.node) if call_attr(c) == "setValue"]
    if len(sts) != 1:
        raise AnchorMissing("_applySettings: self.cs[name] = val")
    node = getattr(sts[0], "stmt", sts[0])
    conds = [norm(t) for t, _p in path_conditions(f.node, node) if val in {y.id for y in ast.walk(t) if isinstance(y, ast.Name)}]
    r.require(not conds, "_applySettings:every-value-applied", f, node=node,
              msg=f"the value read is only applied under {conds}: a `null` entry - what the writer emits for None - is dropped and the setting reads back as its default")
    g = idx.func("armi.settings.fwSettings.globalSettings._isMonotonicIncreasing")
    calls = [c for c in iter_calls(g.node) if call_attr(c) == "isMonotonic" or dotted(c.func) == "isMonotonic"]
    if len(calls) != 1 or len(calls[0].args) < 2:
        raise AnchorMissing("_isMonotonicIncreasing: isMonotonic(list, relation)")
    rel = calls[0].args[1]
    r.require(isinstance(rel, ast.Constant) and rel.value == "<", "cumulative-days:strictly-increasing", g, node=calls[0],
              msg=f"the relation is `{norm(rel)}`: equal neighbouring values (a burn step of zero length) are accepted on assignment and on reading")


def r16_pairing(idx, r):
    from ..pairing import pairing_rule
    pairing_rule(idx, r, ["armi.settings"], 80)


def r18_default_not_aliased_and_geometry_requirement(idx, r):
    """(a) a setting's default and its value are two objects: no method of Setting binds one to the other without a copy - otherwise an
    in-place edit of the value moves the default along, the setting looks unchanged and the short style drops it.  (b) a cross-section entry
    needs a geometry unless it ONLY points to ready-made XS files: XSModelingOptions.validate is EVALUATED on the four combinations of
    (xsFileLocation given?, fluxFileLocation given?): geometry is demanded for (no, no), (no, yes) and (yes, yes)."""
    from ..minieval import MiniEval
    st = idx.cls(SETTING)
    n = 0
    for name, f in sorted(st.methods.items()):
        for s_ in iter_stores(f.node):
            if s_.chain in ("self._default", "self._value") and s_.value is not None:
                n += 1
                other = "self._value" if s_.chain == "self._default" else "self._default"
                r.require(norm(s_.value) not in (other, other.replace("_", "", 1).replace("self.", "self.")) and norm(s_.value) != other.replace("._", "."), f"Setting.{name}:{s_.attr}:not-bound-to-the-other-object", f, node=s_.stmt,
                          msg=f"`{norm(s_.stmt)}` makes default and value ONE object: editing a list/dict value in place changes the default with it")
    if n < 4:
        raise AnchorMissing("Setting: stores of _default / _value")
    g = idx.method("armi.physics.neutronics.crossSectionSettings.XSModelingOptions", "validate")
    gate = [x for x in walk_local(g.node) if isinstance(x, ast.If) and "xsFileLocation" in norm(x.test) and "fluxFileLocation" in norm(x.test) and any(isinstance(y, ast.If) and "geometry" in norm(y.test) for y in x.body)]
    if len(gate) != 1:
        raise AnchorMissing("XSModelingOptions.validate: the geometry requirement")
    bad = []
    for xs in (None, ["ISOAA"]):
        for fl in (None, "rzmflx"):
            got = MiniEval._truth(MiniEval()._ev(gate[0].test, {"self.xsFileLocation": xs, "self.fluxFileLocation": fl}))
            want = (xs is None) or (fl is not None)
            if got != want:
                bad.append((xs, fl, got))
    r.require(not bad, "XSModelingOptions.validate:geometry-required-unless-only-xs-files", g, node=gate[0],
              msg=f"(xsFileLocation, fluxFileLocation, geometry demanded) = {bad}: an entry that generates cross sections from a flux file is accepted without a geometry")


def _entry_of(node, names):
    """If `node` denotes an entry of one of the local mappings `names` - D[k], D.setdefault(k, ..), D.get(k, ..), D.pop(k, ..) -
    return (D, norm(k)); else None."""
    if isinstance(node, ast.Subscript) and isinstance(node.value, ast.Name) and node.value.id in names:
        return node.value.id, norm(node.slice)
    if isinstance(node, ast.Call) and isinstance(node.func, ast.Attribute) and node.func.attr in ("setdefault", "get", "pop") and isinstance(node.func.value, ast.Name) \
            and node.func.value.id in names and node.args:
        return node.func.value.id, norm(node.args[0])
    return None


def r19_early_contributions_accumulate(idx, r):
    """A plugin may contribute a modifier (Option / Default) of a setting BEFORE the plugin that defines the setting has been asked (hooks
    run last-registered-first).  The assembling function parks such a modifier in a local mapping keyed by the setting's name and hands the
    parked entry to the setting when it arrives: `setting.<m>(cache.pop(name))`.  Where the consumer <m> of Setting ITERATES over what it is
    handed (addOptions: a list of options), the entry is a collection with one element per contribution, so every write into an entry of that
    mapping must ADD to the entry (append/extend/+=, or a rebinding that mentions the previous entry); a plain rebinding keeps only the last
    contribution.  A consumer that takes ONE object (changeDefault) is parked by plain assignment - last one wins, as on the late path."""
    st = idx.cls(SETTING)
    n_many = 0
    for mname in sorted(idx.modules):
        if not (mname == "armi.apps" or mname.startswith("armi.settings") or mname in ("armi.plugins", "armi.pluginManager")) or ".tests" in mname:
            continue
        for f in idx.modules[mname].all_funcs():
            local = {s_.attr for s_ in iter_stores(f.node, include_nested=False) if isinstance(s_.node, ast.Name)}
            cons = {}  # mapping name -> [(consumer method name, call)]
            for c in iter_calls(f.node, include_nested=False):
                if isinstance(c.func, ast.Attribute) and len(c.args) == 1 and not c.keywords:
                    e = _entry_of(c.args[0], local)
                    if e is not None and isinstance(c.args[0], ast.Call) and c.args[0].func.attr == "pop" and c.func.attr in st.methods:
                        cons.setdefault(e[0], []).append((c.func.attr, c))
            for d, uses in sorted(cons.items()):
                many = []
                for m, c in uses:
                    g = st.methods[m]
                    ps = g.params()[1:]
                    if len(ps) != 1:
                        raise AnalysisError(f"Setting.{m}: expected one parameter besides self")
                    it = [x for x in ast.walk(g.node) if (isinstance(x, (ast.For, ast.comprehension)) and norm(x.iter) == ps[0])
                          or (isinstance(x, ast.Call) and call_attr(x) in ("extend", "update") and any(norm(a) == ps[0] for a in x.args))]
                    many.append(bool(it))
                if len(set(many)) != 1:
                    raise AnalysisError(f"{f.qualname}: entries of `{d}` go to consumers of both kinds")
                who = "/".join(sorted({m for m, _c in uses}))
                if not many[0]:
                    r.ok(f"{f.qualname}:parked-for-Setting.{who}:one-object", f, node=uses[0][1], msg="the consumer takes a single object: the last contribution wins on the early and on the late path alike")
                    continue
                n_many += 1
                writes = []
                for s_ in iter_stores(f.node, include_nested=False):
                    if s_.kind in ("subscript", "subscript-aug") and isinstance(s_.node.value, ast.Name) and s_.node.value.id == d:
                        key = norm(s_.node.slice)
                        grows = s_.kind == "subscript-aug" or (s_.value is not None and any(_entry_of(x, {d}) == (d, key) for x in ast.walk(s_.value)))
                        writes.append((s_.stmt, grows))
                for c in iter_calls(f.node, include_nested=False):
                    if isinstance(c.func, ast.Attribute) and _entry_of(c.func.value, {d}) is not None and not (isinstance(c.func.value, ast.Call) and c.func.value.func.attr == "pop"):
                        if c.func.attr in ("append", "extend", "insert", "add", "update", "appendleft"):
                            writes.append((c, True))
                        elif c.func.attr in ("clear", "remove", "pop", "discard"):
                            writes.append((c, False))
                if not writes:
                    raise AnchorMissing(f"{f.qualname}: no write into an entry of the parked-modifier mapping consumed by Setting.{who}")
                for i, (w, grows) in enumerate(sorted(writes, key=lambda t: norm(t[0]))):
                    r.require(grows, f"{f.qualname}:parked-for-Setting.{who}:write{i}:adds-to-the-entry", f, node=w,
                              msg=f"`{norm(w)[:80]}` replaces what was parked for that setting so far, but Setting.{who} is handed the entry as the collection of ALL early contributions: when a plugin "
                                  "asked before the setting's owner contributes two or more Options to one setting, only the last reaches its option list - the other (valid) values are rejected on "
                                  "assignment and when a settings file that uses them is read")
    if n_many < 1:
        raise AnchorMissing("App.getSettings: a mapping of early modifiers handed to an iterating Setting method (addOptions(cache.pop(name)))")


def _may_return_argument(fnode, param):
    """Forward may-alias analysis over the structured statements of one function: which `return`s may hand back the very object bound to
    `param` on entry (through the parameter itself or a local bound to it; rebinding a name to anything else - a call result, a literal -
    ends the alias).  Returns [(return node, bool)] for every return with a value."""
    out = []

    def yields(e, S):
        if isinstance(e, ast.Name):
            return e.id in S
        if isinstance(e, ast.IfExp):
            return yields(e.body, S) or yields(e.orelse, S)
        if isinstance(e, ast.BoolOp):
            return any(yields(v, S) for v in e.values)
        if isinstance(e, ast.NamedExpr):
            return yields(e.value, S)
        return False

    def bind(t, S, tainted):
        if isinstance(t, ast.Name):
            (S.add if tainted else S.discard)(t.id)
        elif isinstance(t, (ast.Tuple, ast.List)):
            for e in t.elts:
                bind(e, S, False)
        elif isinstance(t, ast.Starred):
            bind(t.value, S, False)

    def join(a, b):
        if a is None:
            return None if b is None else set(b)
        return set(a) if b is None else set(a) | set(b)

    loops = []

    def block(stmts, S, seen):
        for s in stmts:
            if S is None:
                break
            S = stmt(s, set(S), seen)
            if S is not None:
                seen |= S
        return S

    def stmt(s, S, seen):
        for x in ast.walk(s) if not isinstance(s, (ast.If, ast.For, ast.While, ast.Try, ast.With, ast.FunctionDef, ast.ClassDef, ast.AsyncFunctionDef)) else []:
            if isinstance(x, ast.NamedExpr):
                bind(x.target, S, yields(x.value, S))
        if isinstance(s, ast.Assign):
            t = yields(s.value, S)
            for tg in s.targets:
                bind(tg, S, t)
            return S
        if isinstance(s, ast.AnnAssign):
            if s.value is not None:
                bind(s.target, S, yields(s.value, S))
            return S
        if isinstance(s, ast.Return):
            if s.value is not None:
                out.append((s, yields(s.value, S)))
            return None
        if isinstance(s, ast.Raise):
            return None
        if isinstance(s, (ast.Break, ast.Continue)):
            if loops:
                loops[-1] |= S
            return None
        if isinstance(s, ast.If):
            return join(block(s.body, set(S), seen), block(s.orelse, set(S), seen))
        if isinstance(s, (ast.For, ast.While)):
            cur = set(S)
            for _ in range(4):
                loops.append(set())
                ent = set(cur)
                if isinstance(s, ast.For):
                    bind(s.target, ent, False)
                b = block(s.body, ent, seen)
                extra = loops.pop()
                new = cur | (b or set()) | extra
                if new == cur:
                    break
                cur = new
            return block(s.orelse, cur, seen) if s.orelse else cur
        if isinstance(s, ast.With):
            for it in s.items:
                if it.optional_vars is not None:
                    bind(it.optional_vars, S, False)
            return block(s.body, S, seen)
        if isinstance(s, ast.Try):
            inner = set(S)
            b = block(s.body, set(S), inner)
            res = block(s.orelse, b, seen) if (s.orelse and b is not None) else b
            for h in s.handlers:
                hs = set(inner)
                if h.name:
                    hs.discard(h.name)
                res = join(res, block(h.body, hs, seen))
            seen |= inner
            if s.finalbody:
                res = block(s.finalbody, res if res is not None else set(inner), seen)
            return res
        if isinstance(s, (ast.FunctionDef, ast.AsyncFunctionDef, ast.ClassDef)):
            S.discard(s.name)
            return S
        if isinstance(s, ast.Delete):
            for t in s.targets:
                bind(t, S, False)
            return S
        if isinstance(s, (ast.Expr, ast.AugAssign, ast.Pass, ast.Assert, ast.Import, ast.ImportFrom, ast.Global, ast.Nonlocal)):
            return S
        raise AnalysisError(f"statement {type(s).__name__} outside the analysed fragment")

    block(fnode.body, {param}, set())
    return out


def r20_schema_builds_its_result(idx, r):
    """Setting.setValue stores what the setting's schema returns.  The subclasses of Setting whose value is an object model that needs its
    own dump() (flag lists, cross-section settings, tight-coupling settings) install a FUNCTION as schema; that function builds the stored
    container.  On no path may it return the object it was given: `cs2[name] = cs[name]` and `cs.modified(newSettings={name: cs[name]})`
    pass the live value of one settings object to the schema of another, and an identity answer makes the two share one container."""
    base = idx.cls(SETTING)
    init0 = idx.method(SETTING, "__init__")
    if "schema" not in init0.params():
        raise AnchorMissing("Setting.__init__(..., schema, ...)")
    pos = init0.params().index("schema")
    n = 0
    for c in idx.subclasses(base):
        if ".tests" in c.module.name:
            continue
        init = c.methods.get("__init__")
        if init is None:
            r.ok(f"{c.name}:inherits-the-constructor", c.methods[sorted(c.methods)[0]] if c.methods else init0, msg="no own constructor: the schema is the caller's or the derived one")
            continue
        env = single_assign_env(init.node)
        sch = None
        for call in iter_calls(init.node, include_nested=False):
            if not (isinstance(call.func, ast.Attribute) and call.func.attr == "__init__"):
                continue
            unbound = not is_super(call)
            a = get_arg(call, pos if unbound else pos - 1, "schema")
            if a is not None:
                sch = propagate(a, env)
        if sch is None or (isinstance(sch, ast.Constant) and sch.value is None):
            r.ok(f"{c.name}:no-function-schema", init, msg="the schema is derived from the default")
            continue
        d = dotted(sch)
        fn = None
        if d and d.startswith("self."):
            fn = c.resolve(d[5:])
        elif d:
            got = idx.resolve_name(c.module, d)
            fn = got if hasattr(got, "node") and isinstance(getattr(got, "node"), ast.FunctionDef) else None
        if fn is None:
            if isinstance(sch, ast.Name) and sch.id in init.params():
                r.ok(f"{c.name}:schema-of-the-caller", init, msg="the schema is the caller's")
                continue
            r.undecided(f"{c.name}:schema", init, f"schema `{norm(sch)[:60]}` is not a function of the tree")
            continue
        ps = fn.params()
        static = any(norm(dec) == "staticmethod" for dec in fn.node.decorator_list)
        if fn.cls is not None and not static:
            ps = ps[1:]
        if not ps:
            raise AnalysisError(f"{fn.qualname}: a schema function takes the value")
        if "dump" not in c.methods:
            r.undecided(f"{c.name}:{fn.name}", fn, "the class has no dump() of its own: whether its value is a mutable object model is not decided")
            continue
        n += 1
        rets = _may_return_argument(fn.node, ps[0])
        if not rets:
            raise AnalysisError(f"{fn.qualname}: a schema function returns the value to store")
        bad = [x for x, t in rets if t]
        conds = [("" if pol else "not ") + norm(t)[:70] for t, pol in path_conditions(fn.node, bad[0])] if bad else []
        r.require(not bad, f"{c.name}:{fn.name}:returns-an-object-it-built", fn, node=bad[0] if bad else None,
                  msg=f"`{norm(bad[0]) if bad else ''}`{' (when ' + ' and '.join(conds) + ')' if conds else ''} hands back the very object that was assigned, and Setting.setValue stores it: after "
                      f"`cs2[name] = cs[name]` or `cs.modified(newSettings={{name: cs[name]}})` the two settings objects share one {c.name} value - editing the copy in place (XSSettings.setDefaults at "
                      "BOL, an attribute of one XSModelingOptions) changes the original and the settings file written from it")
    if n < 3:
        raise AnchorMissing(f"only {n} Setting subclasses with a function schema and their own dump() (FlagListSetting, XSSettingDef, TightCouplingSettingDef)")


def is_super(call):
    f = call.func
    return isinstance(f, ast.Attribute) and isinstance(f.value, ast.Call) and isinstance(f.value.func, ast.Name) and f.value.func.id == "super"


def run(idx, chk):
    chk.explanation = (
        "C17: schema validation dominating the store in Setting.setValue and the frozen writers of Setting._value; the renamed name being the one "
        "looked up and assigned; modified() returning the duplicate on every path and never writing self; writer skip filters per style, values "
        "through dump(), versions mapping preserved; flag-list codec; the two cross-section-option serialisers omitting exactly None; early plugin modifiers accumulating until their setting arrives; schema functions of Setting subclasses "
        "never returning the object they were given. YAML fidelity "
        "for every value is NOT decided."
    )
    chk.undecided_clauses = ["YAML fidelity for every value of every setting", "schema correctness of each individual setting"]
    chk.run_rule("R17.1", "values are validated before being stored; only the listed functions write Setting._value", lambda r: r1_validate(idx, r), floor=9, necessary="rejected values leave the previous value in place")
    chk.run_rule("R17.2", "the name returned by the renamer is the one tested and assigned; every file entry is applied", lambda r: r2_rename(idx, r), floor=5, necessary="renamed settings land on the new names")
    chk.run_rule("R17.3", "modified() works on and returns a deep copy on every path; copies share no value containers", lambda r: r3_copy_on_modify(idx, r), floor=5, necessary="modified copies do not affect the original")
    chk.run_rule("R17.4", "writer: short omits exactly the defaults, medium also keeps user-set names, full omits nothing; dump(); versions preserved; same root key", lambda r: r4_writer(idx, r), floor=10,
                 necessary="what is written must read back equal")
    chk.run_rule("R17.5", "flag lists: dump through Flags.toString, schema through Flags.fromString, every element kept", lambda r: r5_flags(idx, r), floor=4, necessary="flag-list settings round trip by name")
    chk.run_rule("R17.6", "the two serialisers of cross-section options omit exactly the None values", lambda r: r6_xs_serialisers(idx, r), floor=5, necessary="nested cross-section settings round trip incl. explicit False/0")
    chk.run_rule("R17.7", "every setting's default is accepted unchanged by its own schema / enforced options", lambda r: r7_default_in_schema(idx, r), floor=100,
                 necessary="'settings left at default stay at default' in every style: the full style writes defaults and reading validates them")
    chk.run_rule("R17.8", "the writer never edits in place a value it obtained from setting.dump()", lambda r: r8_writer_does_not_mutate(idx, r), floor=1,
                 necessary="a settings object is the same before and after being written; written and original must agree")
    chk.run_rule("R17.9", "current names are never renamed; a grown option list rebuilds the schema; constructor fields take their own argument", lambda r: r9_names_options_fields(idx, r), floor=6,
                 necessary="every setting reads back under its own name with its own value, and a type/option violation is rejected")
    chk.run_rule("R17.10", "the names a user's file mentions are renamed to current names before the medium writer compares them", lambda r: r10_user_names_renamed(idx, r), floor=2,
                 necessary="medium style keeps every setting the user entered, under whatever accepted name")
    chk.run_rule("R17.11", "a cycle entry needs exactly one duration input; an old name expires once its date has passed", lambda r: r11_exactly_one_and_expiry(idx, r), floor=2,
                 necessary="type and consistency violations are rejected when the settings are read; accepted old names are exactly the unexpired ones")
    chk.run_rule("R17.12", "every file entry is applied; schema results are used; cross-section options keep their numeric kind", lambda r: r12_values_reach_the_settings(idx, r), floor=9,
                 necessary="a value written reads back as the same value of the same type")
    chk.run_rule("R17.13", "string methods are applied to str(value) where the value comes from a YAML dictionary (module verbosities)", lambda r: r13_yaml_scalars_are_not_all_strings(idx, r), floor=1,
                 necessary="a settings file the system wrote can be read back")
    chk.run_rule("R17.14", "the copy of a setting is an object of the setting's own class (keeps dump/schema overrides)", lambda r: r14_copy_keeps_the_class(idx, r), floor=2,
                 necessary="every value that can be written reads back equal - also from a copied setting")
    chk.run_rule("R17.15", "isDefault is value == default (evaluated on 81 pairs); an old setting name keeps the setting it renames", lambda r: r15_default_test_and_rename_table(idx, r), floor=10,
                 necessary="every off-default value is written by every style; an input under an old name sets the setting it always set")
    chk.run_rule("R17.16", "arguments stand at the parameter they are named after; sibling calls forward the same pass-through parameters", lambda r: r16_pairing(idx, r), floor=1,
                 necessary="style, path and settings object reach the writer in that order")
    chk.run_rule("R17.17", "the reader applies every value, null included; cumulative days increase strictly", lambda r: r17_null_is_a_value_and_strictly_increasing(idx, r), floor=2,
                 necessary="a written None reads back as None; an invalid history is refused on assignment and on reading alike")
    chk.run_rule("R17.18", "default and value are never one object; a geometry is demanded unless only XS files are given (evaluated)", lambda r: r18_default_not_aliased_and_geometry_requirement(idx, r), floor=5,
                 necessary="an edited value is off-default and written; an invalid entry is refused and the previous value kept")
    chk.run_rule("R17.19", "modifiers parked until their setting arrives are all kept: an entry handed to an iterating Setting method (addOptions) is only ever added to", lambda r: r19_early_contributions_accumulate(idx, r), floor=2,
                 necessary="settings (and option lists) contributed by plugins are complete whatever the plugin order: every contributed option is a valid value on assignment and on reading")
    chk.run_rule("R17.20", "the schema function of a Setting subclass never returns the object it was given (may-alias analysis of every return)", lambda r: r20_schema_builds_its_result(idx, r), floor=3,
                 necessary="modified copies of a settings object do not affect the original: a value passed from one settings object to another is stored as a separate object")
