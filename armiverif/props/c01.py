"""C01 - the composite tree stays a well-formed tree: ownership of the child list and the parent
back-pointer, pairing inside add/insert/remove, override discipline, pickle/deepcopy protocol,
traversal delegation.  Structural necessary conditions only (DESIGN.md section 3, C01)."""
from __future__ import annotations

import ast

from ..astutil import (call_attr, get_arg, is_super_call, iter_calls, iter_stores, single_assign_env, propagate, walk_local)
from ..flow import Flow, always_exits, path_conditions
from ..index import AnalysisError, AnchorMissing, dotted, norm
from ..own import check_writers

COMP = "armi.reactor.composites.Composite"
AO = "armi.reactor.composites.ArmiObject"

CHILD_WRITERS = {
    "Composite.__init__": "creates the empty list",
    "Composite.add": "primitive", "Composite.insert": "primitive", "Composite.remove": "primitive",
    "Composite.append": "raw list API (documented unsafe)", "Composite.extend": "raw list API", "Composite.sort": "in-place permutation",
    "Core.sortAssemsByRing": "permutation: RHS must be sorted(self._children, ...)",
}
PARENT_WRITERS = {
    "ArmiObject.__init__": "new object has no parent", "ArmiObject.__setstate__": "re-link children after unpickle/copy",
    "Composite.add": "primitive", "Composite.insert": "primitive", "Composite.remove": "primitive",
    "ExcoreStructure.__init__": "constructor parameter", "SpentFuelPool.__init__": "constructor parameter",
    "Database._compose": "re-composition from the database; the same object is add()ed by its parent's _compose",
    "Operator.detach": "documented transient detachment of the reactor from the operator",
    "Component.__setstate__": "material back-pointer", "Component.setProperties": "material back-pointer",
    "Material.__init__": "material back-pointer", "Material.duplicate": "material back-pointer", "FuelMaterial.duplicate": "material back-pointer",
}


def r1_children_owner(idx, r):
    def extra(f, s):
        return None
    check_writers(r, idx, "_children", CHILD_WRITERS)
    f = idx.method("armi.reactor.cores.Core", "sortAssemsByRing")
    for s in iter_stores(f.node):
        if s.attr == "_children":
            okp = isinstance(s.value, ast.Call) and dotted(s.value.func) == "sorted" and s.value.args and norm(s.value.args[0]) == "self._children"
            r.require(okp, "Core.sortAssemsByRing:permutation", f, node=s.stmt, msg="the child list may only be replaced by a sorted() permutation of itself")
    # __setitem__ stays disabled
    si = idx.cls(COMP).methods.get("__setitem__")
    r.require(si is not None and always_exits(si.node.body) and any(isinstance(x, ast.Raise) for x in ast.walk(si.node)), "Composite.__setitem__:refuses", si or idx.cls(COMP).methods["add"],
              msg="direct item assignment must stay refused")


def r2_parent_owner(idx, r):
    ao = idx.cls(AO)
    mat = idx.cls("armi.materials.material.Material")

    def relevant(f, s):
        # `self.parent = ...` inside a class unrelated to the composite model / materials is another attribute
        if s.chain and s.chain.startswith("self.") and s.chain.count(".") == 1 and f.cls is not None:
            return f.cls.is_subclass_of(ao) or f.cls.is_subclass_of(mat)
        return True

    check_writers(r, idx, "parent", PARENT_WRITERS, relevant=relevant)


def _arg0_is(call, name):
    a = call.args
    if dotted(call.func) and dotted(call.func).startswith(("composites.Composite.", "Composite.", "ArmiObject.", "composites.ArmiObject.")):
        return len(a) >= 2 and norm(a[0]) == "self" and norm(a[1]) == name
    return len(a) >= 1 and norm(a[0]) == name


def r3_primitives(idx, r):
    c = idx.cls(COMP)
    for meth, listop in (("add", "append"), ("insert", "insert")):
        f = c.methods.get(meth)
        if f is None:
            raise AnchorMissing(f"Composite.{meth}")
        obj = f.params()[-1]

        def ev(n, obj=obj, listop=listop):
            out = []
            if isinstance(n, ast.If) and isinstance(n.test, ast.Compare) and len(n.test.ops) == 1 and isinstance(n.test.ops[0], ast.In) \
                    and norm(n.test.left) == obj and norm(n.test.comparators[0]) in ("self", "self._children") and always_exits(n.body) \
                    and any(isinstance(x, ast.Raise) for x in n.body):
                out.append("dupcheck")
            if isinstance(n, ast.Assign) and norm(n) == f"{obj}.parent = self":
                out.append("setparent")
            if isinstance(n, ast.Call) and dotted(n.func) == f"self._children.{listop}" and norm(n.args[-1]) == obj:
                out.append("listed")
            return out
        fl = Flow(f.node, ev).run()
        for e in fl.normal_exits():
            st = e.state
            r.require(st.get("setparent", (0, 0)) == (1, 1) and st.get("listed", (0, 0)) == (1, 1), f"Composite.{meth}:pairing@{e.kind}", f,
                      msg=f"every normal path must set `{obj}.parent = self` and list `{obj}` exactly once: parent{st.get('setparent', (0, 0))} listed{st.get('listed', (0, 0))}")
        ins = [n for n in iter_calls(f.node) if dotted(n.func) == f"self._children.{listop}"]
        for n in ins:
            st = fl.state_before(n) or {}
            r.require(st.get("dupcheck", (0, 0))[0] >= 1, f"Composite.{meth}:duplicate-refused", f, node=n, msg="the insertion into the child list is not dominated by the `already a child -> raise` test")
    f = c.methods.get("remove")
    obj = f.params()[-1]

    def ev2(n):
        out = []
        if isinstance(n, ast.Assign) and norm(n) == f"{obj}.parent = None":
            out.append("unparent")
        if isinstance(n, ast.Assign) and norm(n) == f"{obj}.spatialLocator = {obj}.spatialLocator.detachedCopy()":
            out.append("detach")
        if isinstance(n, ast.Call) and dotted(n.func) == "self._children.remove" and norm(n.args[0]) == obj:
            out.append("unlisted")
        return out
    fl = Flow(f.node, ev2).run()
    for e in fl.normal_exits():
        for fact, what in (("unparent", "obj.parent = None"), ("detach", "detached copy of the locator"), ("unlisted", "removal from the child list")):
            r.require(e.state.get(fact, (0, 0)) == (1, 1), f"Composite.remove:{fact}", f, msg=f"a normal path through remove() lacks: {what}")
    # a non-child is refused BEFORE the object is touched: the list removal (which raises ValueError for a non-member) or an explicit
    # membership test comes first
    for fact_node in [n for n in walk_local(f.node) if ev2(n) and ev2(n)[0] in ("unparent", "detach")]:
        stb = fl.state_before(fact_node) or {}
        guarded = stb.get("unlisted", (0, 0))[0] >= 1 or any((f"{obj} not in" in norm(t) and not p) or (f"{obj} in" in norm(t) and " not in" not in norm(t) and p) for t, p in path_conditions(f.node, fact_node))
        r.require(guarded, f"Composite.remove:{ev2(fact_node)[0]}:only-for-a-child", f, node=fact_node,
                  msg="remove(obj) cuts obj loose (parent, locator) before it finds out that obj is not a child of this composite: the call raises, but obj has lost its real parent, which still lists it")
    ra = c.methods.get("removeAll")
    loop = next((n for n in ra.node.body if isinstance(n, ast.For)), None)
    it = norm(loop.iter) if loop is not None else ""
    is_copy = it not in ("self", "self._children", "iter(self)") and (it.endswith("[:]") or it.startswith(("list(", "tuple(")) or it in ("self.getChildren()",))
    calls_remove = loop is not None and any(dotted(x.func) == "self.remove" and norm(x.args[0]) == norm(loop.target) for x in iter_calls(loop)) \
        and not any(isinstance(x, (ast.If, ast.Break, ast.Continue)) for x in walk_local(loop))
    r.require(is_copy and calls_remove, "Composite.removeAll", ra, node=loop, msg=f"removeAll must call self.remove(c) for every c of a COPY of the child list (iterates `{it}`)")
    sc = c.methods.get("setChildren")

    def ev3(n):
        if isinstance(n, ast.Call) and dotted(n.func) == "self.removeAll":
            return ["cleared"]
        return []
    fl = Flow(sc.node, ev3).run()
    adds = [n for n in iter_calls(sc.node) if dotted(n.func) == "self.add"]
    loop = next((n for n in sc.node.body if isinstance(n, ast.For)), None)
    oks = bool(adds) and all((fl.state_before(n) or {}).get("cleared", (0, 0))[0] >= 1 for n in adds) and loop is not None \
        and norm(loop.iter) == sc.params()[-1] and norm(adds[0].args[0]) == norm(loop.target) and not any(isinstance(x, ast.If) for x in walk_local(loop))
    r.require(oks, "Composite.setChildren", sc, msg="setChildren must removeAll() first, then add() every given item")


STRUCT = ["add", "insert", "remove", "removeAll", "setChildren", "moveTo"]


def _reaches_base(idx, f, meth, depth=0):
    """Calls in f that are the base primitive `meth` (explicit base, super()) with the same object."""
    objs = f.params()[1:]
    hits = []
    for c in iter_calls(f.node):
        d = dotted(c.func) or ""
        if is_super_call(c, meth) or d.endswith(f"Composite.{meth}") or d.endswith(f"ArmiObject.{meth}"):
            hits.append(c)
    return hits


def r4_overrides(idx, r):
    comp = idx.cls(COMP)
    n = 0
    for c in idx.subclasses(comp):
        for meth in STRUCT:
            f = c.methods.get(meth)
            if f is None:
                continue
            n += 1
            key = f"{c.name}.{meth}"
            # no direct touch of _children / parent
            touches = [s for s in iter_stores(f.node) if s.attr in ("_children", "parent") and s.chain and "." in s.chain and not s.chain.endswith("material.parent")]
            if touches:
                r.violate(key + ":direct-write", f, f"override writes {touches[0].chain} itself instead of going through the base primitive", node=touches[0].stmt)
                continue
            if meth == "removeAll":
                loop = next((x for x in f.node.body if isinstance(x, ast.For)), None)
                it = norm(loop.iter) if loop is not None else ""
                ok = loop is not None and it not in ("self", "self._children") and any(dotted(x.func) == "self.remove" and norm(x.args[0]) == norm(loop.target) for x in iter_calls(loop))
                ok = ok or bool(_reaches_base(idx, f, meth))
                r.require(ok, key, f, msg="removeAll override must remove every child of a copy of the list through self.remove (or call the base)")
                continue
            hits = _reaches_base(idx, f, meth)
            param = f.params()[1] if len(f.params()) > 1 else None
            if meth == "insert":
                param = f.params()[2] if len(f.params()) > 2 else None

            def ev(nd, hits=hits):
                return ["base"] if any(nd is h for h in hits) else []
            fl = Flow(f.node, ev).run()
            miss = [e for e in fl.normal_exits() if e.state.get("base", (0, 0)) != (1, 1)]
            same = all(any(norm(a) == param for a in h.args) for h in hits) if hits else False
            r.require(bool(hits) and not miss and same, key, f,
                      msg=(f"override of {meth} does not reach the base primitive exactly once with the same object on every normal path "
                           f"(base calls: {[norm(h) for h in hits]}, exits without it: {[e.line for e in miss]})"))
    # Assembly.add/insert place the block in the assembly's own grid after the base call
    a = idx.cls("armi.reactor.assemblies.Assembly")
    for meth in ("add", "insert"):
        f = a.methods.get(meth)
        if f is None:
            continue
        st = [s for s in iter_stores(f.node) if s.chain and s.chain.endswith(".spatialLocator")]
        base = _reaches_base(idx, f, meth)
        ok = bool(st) and bool(base) and st[0].stmt.lineno > base[0].lineno and norm(st[0].value).startswith("self.spatialGrid[")
        r.require(ok, f"Assembly.{meth}:locator", f, node=st[0].stmt if st else None, msg="a block added to an assembly must be located in the assembly's own grid, after the base call")


def r5_pickle(idx, r):
    ao = idx.cls(AO)
    gs, ss = ao.methods.get("__getstate__"), ao.methods.get("__setstate__")
    if gs is None or ss is None:
        raise AnchorMissing("ArmiObject.__getstate__/__setstate__")

    def ev(n):
        if isinstance(n, ast.Assign) and norm(n) == "state['parent'] = None":
            return ["noparent"]
        return []
    fl = Flow(gs.node, ev).run()
    rets = [e for e in fl.normal_exits()]
    r.require(bool(rets) and all(e.state.get("noparent", (0, 0))[0] >= 1 and e.node is not None and norm(e.node.value) == "state" for e in rets), "ArmiObject.__getstate__:strips-parent", gs,
              msg="the pickled/copied state must carry parent=None (a copy shares no node with the original)")
    r.require(any(norm(s.value) == "self.__dict__.copy()" for s in iter_stores(gs.node) if s.attr == "state"), "ArmiObject.__getstate__:copies-dict", gs, msg="state must be a copy of __dict__, not __dict__ itself")
    loops = [n for n in walk_local(ss.node) if isinstance(n, ast.For) and norm(n.iter) == "self"]
    relink = any(any(norm(s) == f"{norm(l.target)}.parent = self" for s in l.body) and l in ss.node.body for l in loops)
    r.require(relink, "ArmiObject.__setstate__:relinks-children", ss, msg="__setstate__ must set c.parent = self for every child, unconditionally")
    grid = any(norm(s.stmt) == "self.spatialGrid.armiObject = self" for s in iter_stores(ss.node))
    assoc = any(call_attr(c) == "associate" and norm(c.args[0]) == "self.spatialGrid" for c in iter_calls(ss.node))
    r.require(grid and assoc, "ArmiObject.__setstate__:relinks-grid", ss, msg="__setstate__ must point the grid at the new owner and re-associate the children's locators with it")
    from ..flow import _path_to
    for st_ in [s for s in iter_stores(ss.node) if norm(s.stmt) == "self.spatialGrid.armiObject = self"]:
        path = _path_to(ss.node, st_.stmt) or []
        r.require(not any(isinstance(par, (ast.For, ast.While)) for par, _f, _i, _c in path), "ArmiObject.__setstate__:grid-owner-outside-loops", ss, node=st_.stmt,
                  msg="the grid is pointed at its new owner only inside a loop over the children: a copied/unpickled composite with a grid but no children keeps a grid owned by nobody")
    g = idx.cls("armi.reactor.grids.grid.Grid")
    ggs, gss = g.methods.get("__getstate__"), g.methods.get("__setstate__")
    r.require(ggs is not None and any(norm(s.stmt) == "state['armiObject'] = None" for s in iter_stores(ggs.node)), "Grid.__getstate__:strips-owner", ggs or gs, msg="grid state must not carry its owner")
    r.require(gss is not None and any(isinstance(n, ast.For) and any(norm(s).endswith("._grid = self") for s in n.body) for n in gss.node.body), "Grid.__setstate__:relinks-locators", gss or ss,
              msg="every locator of an unpickled grid must point at the new grid")
    # overrides go through the base; __deepcopy__ registers in memo first and uses get/setstate
    for c in idx.subclasses(ao):
        for meth in ("__getstate__", "__setstate__"):
            f = c.methods.get(meth)
            if f is None:
                continue

            def evb(n, meth=meth):
                if isinstance(n, ast.Call) and (is_super_call(n, meth) or (dotted(n.func) or "").endswith(("Composite." + meth, "ArmiObject." + meth))):
                    return ["base"]
                return []
            fl = Flow(f.node, evb).run()
            miss = [e for e in fl.normal_exits() if e.state.get("base", (0, 0))[0] < 1]
            r.require(not miss, f"{c.name}.{meth}:calls-base", f, msg=f"{meth} override must go through the base implementation (parent stripping / child re-linking)")
            if meth == "__getstate__":
                bad = [s for s in iter_stores(f.node) if s.kind == "subscript" and norm(s.node.slice) == "'parent'" and norm(s.value) != "None"]
                r.require(not bad, f"{c.name}.{meth}:keeps-parent-stripped", f, msg="override re-inserts a parent into the state")
        f = c.methods.get("__deepcopy__")
        if f is not None:
            memo = [s for s in iter_stores(f.node) if s.kind == "subscript" and norm(s.node) == "memo[id(self)]"]
            dc = [x for x in iter_calls(f.node) if dotted(x.func) == "copy.deepcopy"]
            setst = [x for x in iter_calls(f.node) if call_attr(x) == "__setstate__"]
            getst = [x for x in iter_calls(f.node) if dotted(x.func) == "self.__getstate__"]
            env = single_assign_env(f.node)
            ok = bool(memo) and bool(dc) and bool(setst) and bool(getst) and memo[0].stmt.lineno <= dc[0].lineno
            if ok:
                ok = all(len(x.args) >= 2 and norm(x.args[1]) == "memo" for x in dc)
                arg = propagate(setst[0].args[0], env)
                ok = ok and isinstance(arg, ast.Call) and dotted(arg.func) == "copy.deepcopy"
            r.require(ok, f"{c.name}.__deepcopy__", f, msg="__deepcopy__ must register the new object in memo first and rebuild through __setstate__(copy.deepcopy(self.__getstate__() state, memo))")
    det = idx.cls("armi.reactor.grids.locations.IndexLocation").resolve("detachedCopy")
    if det is None:
        raise AnchorMissing("IndexLocation.detachedCopy")
    # every implementation of LocationBase.associate re-points the locator itself at the new grid
    lb = idx.cls("armi.reactor.grids.locations.LocationBase")
    n_assoc = 0
    for c in [lb] + idx.subclasses(lb):
        f = c.methods.get("associate")
        if f is None:
            continue
        n_assoc += 1
        g = f.params()[1]

        def eva(n, g=g):
            if isinstance(n, ast.Assign) and norm(n) == f"self._grid = {g}":
                return ["grid"]
            if isinstance(n, ast.Call) and (is_super_call(n, "associate") or (dotted(n.func) or "").endswith("LocationBase.associate")) and any(norm(a) == g for a in n.args):
                return ["grid"]
            return []
        fl = Flow(f.node, eva).run()
        miss = [e for e in fl.normal_exits() if e.state.get("grid", (0, 0))[0] < 1]
        r.require(not miss, f"{c.name}.associate:repoints-self", f, msg="associate() must point this locator at the new grid on every path (a copied/unpickled child otherwise stays attached to no grid or to the original's)")
        if c.name == "MultiIndexLocation":
            loop = next((x for x in f.node.body if isinstance(x, ast.For)), None)
            r.require(loop is not None and norm(loop.iter) == "self._locations" and any(call_attr(x) == "associate" for x in iter_calls(loop)), "MultiIndexLocation.associate:sub-locations", f,
                      msg="every sub-location must be re-associated too")
    if n_assoc < 2:
        raise AnalysisError("associate implementations not found")
    dc = lb.resolve("detachedCopy") or det
    for c in [lb] + idx.subclasses(lb):
        f = c.methods.get("detachedCopy")
        if f is None:
            continue
        rets = [x for x in walk_local(f.node) if isinstance(x, ast.Return) and x.value is not None]
        okd = bool(rets) and all(isinstance(x.value, ast.Call) and norm(x.value.args[-1] if x.value.args else ast.Constant(0)) == "None" or (isinstance(x.value, ast.Name)) for x in rets)
        r.require(okd, f"{c.name}.detachedCopy:no-grid", f, msg="a detached copy must be built without a grid")


def r6_traversal(idx, r):
    c = idx.cls(COMP)
    ao = idx.cls(AO)
    it = c.methods.get("__iter__")
    r.require(it is not None and norm(it.node.body[-1]) == "return iter(self._children)", "Composite.__iter__", it, msg="iteration must be over the child list itself, in order")
    core_it = idx.cls("armi.reactor.cores.Core").methods.get("__iter__")
    if core_it is not None:
        r.require(norm(core_it.node.body[-1]) == "return iter(self._children)", "Core.__iter__", core_it, msg="iteration must be over the child list itself, in order")
    ln = c.methods.get("__len__")
    r.require(ln is not None and norm(ln.node.body[-1]) == "return len(self._children)", "Composite.__len__", ln, msg="len must count the child list")
    gi = c.methods.get("__getitem__")
    r.require(gi is not None and norm(gi.node.body[-1]) == "return self._children[index]", "Composite.__getitem__", gi, msg="indexing must index the child list")
    co = c.methods.get("__contains__")
    txt = norm(co.node.body[-1]) if co else ""
    r.require("id(item)" in txt and "self._children" in txt and " in " in txt, "Composite.__contains__:identity", co, msg="membership must be by identity over the child list")
    # getChildren forwards all three arguments to iterChildren*
    gc = c.methods.get("getChildren")
    for call in [x for x in iter_calls(gc.node) if call_attr(x) in ("iterChildren", "iterChildrenWithMaterials")]:
        kw = {k.arg: norm(k.value) for k in call.keywords}
        pos = [norm(a) for a in call.args]
        ok = all(kw.get(p) == p or p in pos for p in ("deep", "generationNum", "predicate"))
        r.require(ok, f"Composite.getChildren:forwards:{call_attr(call)}", gc, node=call, msg=f"deep, generationNum and predicate must all be forwarded; call is `{norm(call)}`")
    rets = [n for n in walk_local(gc.node) if isinstance(n, ast.Return)]
    r.require(len(rets) == 1 and norm(rets[0].value) == "list(items)", "Composite.getChildren:list", gc, msg="getChildren must return list(iterator)")
    ic = c.methods.get("iterChildren")
    y = [n for n in walk_local(ic.node) if isinstance(n, ast.YieldFrom)]
    oky = len(y) == 1 and norm(y[0].value) == "self._iterChildren(deep, generationNum, checker)"
    r.require(oky, "Composite.iterChildren:delegates", ic, msg="iterChildren must yield from self._iterChildren(deep, generationNum, checker)")
    from ..astutil import cond_values
    chk = cond_values(ic.node, "checker")
    okc = any(norm(v) == "predicate" for v, _c in chk) and any(isinstance(v, ast.Lambda) and norm(v.body) == "True" and any("predicate" in norm(t) for t, _p in c_) for v, c_ in chk)
    r.require(okc, "Composite.iterChildren:checker", ic, msg="checker must be the predicate, or accept-all when none is given")
    f = c.methods.get("_iterChildren")
    ys = [n for n in walk_local(f.node) if isinstance(n, ast.YieldFrom)]
    own = [n for n in ys if "filter(checker, self)" == norm(n.value)]
    rec = [n for n in ys if isinstance(n.value, ast.Call) and call_attr(n.value) == "_iterChildren"]
    if len(own) != 1 or len(rec) != 1:
        r.violate("Composite._iterChildren:shape", f, f"expected one `yield from filter(checker, self)` and one recursive yield; found {[norm(n.value) for n in ys]}")
    else:
        conds = [norm(t) if pol else f"not ({norm(t)})" for t, pol in path_conditions(f.node, own[0])]
        r.require(conds == ["deep or generationNum == 1"], "Composite._iterChildren:own-guard", f, node=own[0], msg=f"own children are yielded under {conds}; must be exactly `deep or generationNum == 1`")
        conds = [norm(t) if pol else f"not ({norm(t)})" for t, pol in path_conditions(f.node, rec[0])]
        r.require(conds == ["deep or generationNum > 1"], "Composite._iterChildren:recursion-guard", f, node=rec[0], msg=f"recursion happens under {conds}; must be exactly `deep or generationNum > 1`")
        call = rec[0].value
        args = [norm(a) for a in call.args]
        loop = next((n for n in walk_local(f.node) if isinstance(n, ast.For) and rec[0] in list(ast.walk(n))), None)
        okr = args == ["deep", "generationNum - 1", "checker"] and loop is not None and norm(loop.iter) == "self" and norm(call.func.value) == norm(loop.target)
        r.require(okr, "Composite._iterChildren:recursion-args", f, node=call, msg=f"recursion must visit every child of self with (deep, generationNum - 1, checker); found `{norm(call)}` over `{norm(loop.iter) if loop else None}`")
        r.require(own[0].lineno < rec[0].lineno, "Composite._iterChildren:order", f, msg="own children are yielded before descending")
    icp = c.methods.get("iterComponents")
    r.require(icp is not None and norm(icp.node.body[-1]) == "return (c for child in self for c in child.iterComponents(typeSpec, exact))", "Composite.iterComponents", icp,
              msg="leaf components must be chained from every child, in child order, forwarding typeSpec and exact")
    leaf = idx.cls("armi.reactor.components.component.Component").methods.get("iterComponents")
    body = [s for s in leaf.node.body if not (isinstance(s, ast.Expr) and isinstance(s.value, ast.Constant))]
    r.require(len(body) == 1 and norm(body[0]) == "if self.hasFlags(typeSpec, exact):\n    yield self", "Component.iterComponents", leaf, msg="a component yields itself exactly when it has the flags")
    for name, recur in (("getAncestor", "self.parent.getAncestor(fn)"), ("getAncestorAndDistance", "self.parent.getAncestorAndDistance(fn, _distance + 1)"),
                        ("getAncestorWithFlags", "self.parent.getAncestorWithFlags(typeSpec, exactMatch=exactMatch)")):
        f = ao.methods.get(name)
        if f is None:
            raise AnchorMissing(f"ArmiObject.{name}")
        rets = [norm(n.value) for n in walk_local(f.node) if isinstance(n, ast.Return) and n.value is not None]
        r.require(recur in rets and any(x in ("self", "(self, _distance)") for x in rets) and "None" in rets, f"ArmiObject.{name}", f, msg=f"must return self when matching, None at the root, else recurse on the parent; returns {rets}")
    # typed/flag filters are iterChildren with a predicate
    for name in ("iterChildrenWithFlags", "iterChildrenOfType", "getChildrenWithFlags", "getChildrenOfType"):
        f = ao.methods.get(name)
        if f is None:
            continue
        r.require(any(call_attr(x) in ("iterChildren", "iterChildrenWithFlags", "iterChildrenOfType") for x in iter_calls(f.node)), f"ArmiObject.{name}:delegates", f, msg="filtered queries must delegate to iterChildren")


def r7_identity(idx, r):
    ao = idx.cls(AO)
    n = 0
    for c in [ao] + idx.subclasses(ao):
        n += 1
        bad = [m for m in ("__eq__", "__hash__") if m in c.methods]
        r.require(not bad, f"no-eq:{c.name}", (c.module.relpath, c.node.lineno, c.name), msg=f"{c.name} defines {bad}: `obj in self._children` and list.remove/index would stop meaning identity")


def r8_single_parent(idx, r):
    c = idx.cls(COMP)
    for meth in ("add", "insert"):
        f = c.methods[meth]
        obj = f.params()[-1]
        tests = [n for n in walk_local(f.node) if isinstance(n, (ast.If, ast.Assert)) and f"{obj}.parent" in norm(n.test)]
        calls = [x for x in iter_calls(f.node) if norm(x.func) in (f"{obj}.parent.remove",)]
        r.require(bool(tests) or bool(calls), f"Composite.{meth}:other-parent", f,
                  msg=f"{meth}() accepts an object that still has another parent: afterwards the old parent lists it but is not its parent")


def r9_paired_query_args(idx, r):
    """`exact` qualifies how `typeSpec` is matched. Inside a query that takes both, every call that hands the
    caller's typeSpec on to another query (any armi function that itself takes `exact`) must hand `exact` on too -
    also inside lambdas and comprehensions - or the qualifier is silently dropped on that path."""
    TYPES = ("typeSpec", "blockType", "typeID")
    with_exact = set()
    for m in idx.modules.values():
        if m.name.startswith("armi.") and ".tests" not in m.name:
            for f in m.all_funcs():
                if "exact" in f.params():
                    with_exact.add(f.name)
    n = 0
    for m in idx.modules.values():
        if not m.name.startswith("armi.reactor") or ".tests" in m.name:
            continue
        for f in m.all_funcs():
            ps = f.params()
            T = [p for p in ps if p in TYPES]
            if "exact" not in ps or not T:
                continue
            # an element drawn from the caller's spec (`for t in typeSpec`, comprehensions) is still the caller's spec
            T = list(T)
            for g in ast.walk(f.node):
                it, tg = (g.iter, g.target) if isinstance(g, (ast.For, ast.comprehension)) else (None, None)
                if isinstance(it, ast.Name) and it.id in T and isinstance(tg, ast.Name) and tg.id not in T:
                    T.append(tg.id)
            for c in ast.walk(f.node):
                if not isinstance(c, ast.Call):
                    continue
                callee = c.func.attr if isinstance(c.func, ast.Attribute) else (c.func.id if isinstance(c.func, ast.Name) else None)
                if callee not in with_exact:
                    continue
                args = list(c.args) + [k.value for k in c.keywords]
                names = {a.id for a in args if isinstance(a, ast.Name)}
                if not names & set(T):
                    continue
                n += 1
                r.require("exact" in names, f"{f.qualname}:{norm(c)[:60]}", f, node=c,
                          msg=f"`{norm(c)[:70]}` passes on `{sorted(names & set(T))[0]}` without `exact`: on this path exact=True is ignored and objects "
                              "whose flags are a superset of the spec are returned too")
    if n < 12:
        raise AnalysisError(f"only {n} typeSpec-forwarding calls found")


def r10_container_copies(idx, r):
    """A class of the reactor package that IS a dict or list and defines its own __deepcopy__ must copy its elements too:
    copying only __dict__ yields an empty container, so a deep copy of the reactor loses what the container registered
    (the ex-core structures: a tracked discharge on the copy then drops the assembly instead of pooling it).
    setChildren must not empty the container before it has consumed its argument (which may iterate over that container)."""
    n = 0
    for c in idx.all_classes():
        if not c.module.name.startswith("armi.reactor") or ".tests" in c.module.name:
            continue
        if not any(b in ("dict", "list", "collections.OrderedDict", "OrderedDict") for b in c.base_exprs):
            continue
        dc = c.methods.get("__deepcopy__")
        if dc is None:
            continue
        n += 1
        touches = False
        for x in ast.walk(dc.node):
            if isinstance(x, ast.Call) and isinstance(x.func, ast.Attribute) and dotted(x.func.value) == "self" and x.func.attr in ("items", "values", "keys", "copy", "__iter__", "__reduce_ex__", "__reduce__"):
                touches = True
            if isinstance(x, (ast.For, ast.comprehension)) and dotted(x.iter) == "self":
                touches = True
            if isinstance(x, ast.Call) and dotted(x.func) in ("dict", "list", "dict.items", "list.__iter__") and x.args and dotted(x.args[0]) == "self":
                touches = True
        r.require(touches, f"{c.name}.__deepcopy__:copies-elements", dc,
                  msg=f"{c.name} is a {[b for b in c.base_exprs if b in ('dict', 'list', 'OrderedDict')][0]} but its __deepcopy__ never reads its own elements (only instance attributes are copied): "
                      "the deep copy is an empty container")
    # a detached copy of a multi-location must not share its inner locations with the original: they still point at the old
    # grid (they ARE that grid's cached cells), and re-associating the copy would move those cells to another grid
    ml = idx.cls("armi.reactor.grids.locations.MultiIndexLocation")
    dcp = ml.methods.get("detachedCopy") if ml is not None else None
    if dcp is None:
        raise AnchorMissing("MultiIndexLocation.detachedCopy")
    shared = [c_ for c_ in iter_calls(dcp.node) if call_attr(c_) in ("extend", "append") and c_.args and dotted(c_.args[0]) in ("self._locations", "self")]
    percopy = any(isinstance(c_, ast.Call) and call_attr(c_) == "detachedCopy" and not (isinstance(c_.func.value, ast.Call) and dotted(c_.func.value.func) == "super") for c_ in ast.walk(dcp.node))
    r.require(not shared and percopy, "MultiIndexLocation.detachedCopy:inner-locations-detached", dcp, node=shared[0] if shared else dcp.node,
              msg="the detached copy re-uses the inner IndexLocation objects: the removed component's locator has grid None but its cells still belong to (and are cached by) the old grid")
    # a block that takes over another block's content takes over a COPY: the replacement stays intact and can be used again
    rb = idx.method("armi.reactor.blocks.Block", "replaceBlockWithBlock")
    if rb is None:
        raise AnchorMissing("Block.replaceBlockWithBlock")
    rp = [q for q in rb.params() if q != "self"][0]
    from ..flow import Flow as _Flow
    flr = _Flow(rb.node, lambda nd: ["copied"] if isinstance(nd, ast.Call) and dotted(nd.func) in ("copy.deepcopy", "deepcopy") and nd.args and norm(nd.args[0]) == rp else []).run()
    takes = [c_ for c_ in iter_calls(rb.node) if call_attr(c_) == "setChildren"]
    bad_exit = [e for e in flr.normal_exits() if e.state.get("copied", (0, 0))[0] < 1]
    direct = [x for x in ast.walk(rb.node) if isinstance(x, ast.Attribute) and isinstance(x.value, ast.Name) and x.value.id == rp and x.attr in ("p", "getChildren", "_children")]
    r.require(bool(takes) and not bad_exit and not direct, "replaceBlockWithBlock:always-copies", rb, node=(direct[0] if direct else (takes[0] if takes else rb.node)),
              msg=f"on some path the components / parameters of `{rp}` itself (not of a deep copy) are moved into this block: the replacement is gutted, and used a second time its "
                  "components end up listed by several parents")
    comp = idx.cls(COMPOSITE) if "COMPOSITE" in globals() else idx.cls("armi.reactor.composites.Composite")
    sc = comp.methods.get("setChildren") if comp is not None else None
    if sc is None:
        raise AnchorMissing("Composite.setChildren")
    p = [q for q in sc.params() if q != "self"][0]

    def ev(nd):
        if isinstance(nd, ast.Call) and dotted(nd.func) in ("self.removeAll", "self._children.clear"):
            return ["cleared"]
        if isinstance(nd, ast.Call) and dotted(nd.func) in ("list", "tuple") and nd.args and dotted(nd.args[0]) == p:
            return ["materialised"]
        return []
    from ..flow import Flow
    fl = Flow(sc.node, ev).run()
    clears = [x for x in ast.walk(sc.node) if ev(x) == ["cleared"]]
    uses = [x for x in ast.walk(sc.node) if isinstance(x, ast.For) and dotted(x.iter) == p]
    ok = bool(clears) and all((fl.state_before(x) or {}).get("materialised", (0, 0))[0] >= 1 for x in clears) or not uses
    r.require(ok, "setChildren:argument-consumed-before-clearing", sc, node=clears[0] if clears else sc.node,
              msg=f"setChildren empties the container and only then iterates `{p}`: when `{p}` is an iterator over this container's own children "
                  "(reversed(c), iter(c), a generator) nothing is left to iterate and all children are lost")
    if n < 1:
        raise AnalysisError("no dict/list subclass with __deepcopy__ found in armi.reactor (ExcoreCollection expected)")


def _self_filter(stmt):
    """`L = [x for x in L if cond]` / `L = list(filter(f, L))`: returns L."""
    if not (isinstance(stmt, ast.Assign) and len(stmt.targets) == 1 and isinstance(stmt.targets[0], ast.Name)):
        return None
    L, v = stmt.targets[0].id, stmt.value
    if isinstance(v, ast.Call) and dotted(v.func) in ("list", "tuple") and len(v.args) == 1:
        v = v.args[0]
    if isinstance(v, (ast.ListComp, ast.GeneratorExp)) and len(v.generators) == 1:
        g = v.generators[0]
        if isinstance(g.iter, ast.Name) and g.iter.id == L and g.ifs and isinstance(v.elt, ast.Name) and isinstance(g.target, ast.Name) and v.elt.id == g.target.id:
            return L
    if isinstance(v, ast.Call) and dotted(v.func) == "filter" and len(v.args) == 2 and isinstance(v.args[1], ast.Name) and v.args[1].id == L:
        return L
    return None


def r11_filter_covers_all(idx, r):
    """A query that narrows its candidate list `L` by a filter (`L = [x for x in L if ...]`) must not add candidates to `L`
    after the filter on any path: what is added later is returned unfiltered, so the query returns objects a naive walk
    with the same arguments would not.  Anchor: Core.getAssemblies filters by typeSpec and by zones."""
    n = 0
    anchored = False
    for m in idx.modules.values():
        if not m.name.startswith("armi.reactor") or ".tests" in m.name:
            continue
        for f in m.all_funcs():
            filt = {}
            for st_ in walk_local(f.node):
                L = _self_filter(st_)
                if L:
                    filt.setdefault(L, []).append(st_)
            if not filt:
                continue

            def ev(nd, filt=filt):
                out = []
                for L, sts in filt.items():
                    if any(nd is x for x in sts):
                        out.append("filtered:" + L)
                return out
            fl = Flow(f.node, ev).run()
            for L, sts in filt.items():
                n += 1
                if f.qualname == "Core.getAssemblies" and any("hasFlags" in norm(x) for x in sts):
                    anchored = True
                grows = []
                for nd in walk_local(f.node):
                    if isinstance(nd, ast.Call) and call_attr(nd) in ("extend", "append", "insert") and isinstance(nd.func.value, ast.Name) and nd.func.value.id == L:
                        grows.append(nd)
                    elif isinstance(nd, ast.AugAssign) and isinstance(nd.target, ast.Name) and nd.target.id == L and isinstance(nd.op, ast.Add):
                        grows.append(nd)
                late = []
                for g in grows:
                    stb = fl.state_before(g)
                    if stb is not None and stb.get("filtered:" + L, (0, 0))[1] >= 1:
                        late.append(g)
                r.require(not late, f"{f.qualname}:{L}:no-growth-after-filter", f, node=late[0] if late else sts[0],
                          msg=f"`{norm(late[0])[:70] if late else ''}` adds candidates to `{L}` after it was filtered: they are returned without the filter applied")
    if not anchored:
        raise AnchorMissing("Core.getAssemblies: `assems = [a for a in assems if a.hasFlags(typeSpec, ...)]`")
    if n < 2:
        raise AnalysisError(f"only {n} self-filters found")


def r12_ring_cache(idx, r):
    """Core.circularRingList memoises, per circular ring, the set of OCCUPIED location labels.  It answers getAssembliesInRing / getNumRings in
    circular-ring mode, so it must be dropped whenever the set of occupied locations changes - in Core.add and Core.removeAssembly (a move keeps
    the set of a swap intact) - and a query must not write to it (it is a defaultdict: reading a ring by subscript creates that ring)."""
    core = idx.cls("armi.reactor.cores.Core")
    builder = core.methods.get("buildCircularRingDictionary")
    if builder is None or not any(s_.chain == "self.circularRingList" for f in core.methods.values() for s_ in iter_stores(f.node)):
        raise AnchorMissing("Core.circularRingList / buildCircularRingDictionary")
    for name in ("add", "removeAssembly"):
        f = core.methods.get(name)
        if f is None:
            raise AnchorMissing(f"Core.{name}")

        def ev(nd):
            if isinstance(nd, ast.Assign) and any(norm(t) == "self.circularRingList" for t in nd.targets) and norm(nd.value) in ("{}", "None", "dict()", "collections.defaultdict(set)"):
                return ["dropped"]
            if isinstance(nd, ast.Call) and norm(nd.func) == "self.circularRingList.clear":
                return ["dropped"]
            return []
        fl = Flow(f.node, ev).run()
        bad = [e for e in fl.normal_exits() if e.state.get("dropped", (0, 0))[0] < 1]
        r.require(not bad, f"Core.{name}:drops-the-ring-table", f, node=bad[0].node if bad and bad[0].node is not None else f.node,
                  msg=f"Core.{name} changes which locations are occupied but keeps circularRingList: in circular-ring mode getAssembliesInRing/getNumRings keep answering from the table "
                      "built at the first query (an added assembly is in no ring, a removed location stays listed)")
    n = 0
    for f in core.methods.values():
        for x in walk_local(f.node):
            if isinstance(x, ast.Subscript) and isinstance(x.ctx, ast.Load) and norm(x.value) == "self.circularRingList":
                n += 1
                r.violate(f"Core.{f.name}:ring-table-read-without-inserting", f, f"`{norm(x)}` reads the defaultdict by subscript: asking for a ring that holds nothing creates it, and getNumRings (max of the keys) "
                          "then reports that ring", node=x)
    r.ok("ring-table-reads-scanned", core)


def r13_single_parent_paths(idx, r):
    """(a) FuelHandler.dischargeSwap re-charges an assembly that may sit in the spent-fuel pool: it is taken out of the pool whenever it is
    there - under no other condition - before the core adopts it, or it ends up listed by two parents.  (b) getAncestorAndDistance applies
    the predicate to the object itself before it looks at the parent, so the parentless root can be the answer.  (c) a __deepcopy__ override
    registers only the new object in the memo: mapping any other part of the original onto itself makes the copy share that part."""
    f = idx.method("armi.physics.fuelCycle.fuelHandlers.FuelHandler", "dischargeSwap")
    inc = f.params()[1]
    rm = [c for c in iter_calls(f.node) if call_attr(c) == "remove" and "sfp" in norm(c.func) and c.args and norm(c.args[0]) == inc]
    if len(rm) != 1:
        raise AnchorMissing("dischargeSwap: removal of the incoming assembly from the pool")
    conds = [norm(t) for t, p in path_conditions(f.node, rm[0]) if p]
    extra = [c for c in conds if not (("sfp" in c and "is not None" in c and " and " not in c) or (c.startswith(inc + " in ") and "sfp" in c))]
    r.require(not extra, "dischargeSwap:incoming-leaves-the-pool-whenever-it-is-there", f, node=rm[0],
              msg=f"the incoming assembly is only taken out of the pool when {extra}: otherwise the core adopts an assembly the pool still lists (two parents)")
    g = idx.method(AO, "getAncestorAndDistance")
    fn = g.params()[1]
    hit = [x for x in walk_local(g.node) if isinstance(x, ast.Return) and isinstance(x.value, ast.Tuple) and norm(x.value.elts[0]) == "self"]
    if len(hit) != 1:
        raise AnchorMissing("getAncestorAndDistance: return self, distance")
    pc = [(norm(t), p) for t, p in path_conditions(g.node, hit[0])]
    r.require(not any("parent" in c for c, _p in pc) and any(c.startswith(fn + "(") for c, p in pc if p), "getAncestorAndDistance:self-tested-before-the-parent", g, node=hit[0],
              msg=f"the object itself is returned only under {pc}: a root (parent None) that satisfies the predicate is never found, so a block of a stand-alone assembly has no Assembly ancestor")
    n = 0
    for c in idx.subclasses(idx.cls(AO)):
        d = c.methods.get("__deepcopy__")
        if d is None:
            continue
        n += 1
        memo = d.params()[1]
        sts = [s_ for s_ in iter_stores(d.node) if s_.kind == "subscript" and norm(s_.node.value) == memo]
        bad = [s_ for s_ in sts if norm(s_.node.slice) != "id(self)"]
        r.require(not bad, f"{c.name}.__deepcopy__:memo-holds-only-the-new-object", d, node=bad[0].stmt if bad else None,
                  msg=f"`{norm(bad[0].stmt) if bad else ''}` tells deepcopy that a part of the original is already copied: the copy then SHARES that part with the original (and __setstate__ re-anchors it to the copy)")
    if n < 1:
        raise AnchorMissing("a __deepcopy__ override below ArmiObject")


def r14_refusal_before_adoption(idx, r):
    """An add/insert that refuses the child (raise) does so before it has adopted it: no path reaches a `raise` after the child was appended
    to the child list (directly, through the base-class add, or through the owner's lookup tables).  A refusal after the adoption leaves a
    child that the caller was told was not added."""
    n = 0
    for c in idx.subclasses(idx.cls(AO)):
        for name in ("add", "insert"):
            f = c.methods.get(name)
            if f is None or not any(isinstance(x, ast.Raise) for x in walk_local(f.node)):
                continue
            child = f.params()[-1] if name == "insert" else f.params()[1]

            def ev(nd, child=child, name=name):
                if isinstance(nd, ast.Call):
                    t = norm(nd.func)
                    if t in ("self._children.append", "self._children.insert") or (call_attr(nd) in ("add", "insert") and (t.startswith("super().") or t.split(".")[-2:-1] == ["Composite"] or t.startswith("composites.Composite."))):
                        return ["adopted"]
                    if call_attr(nd) == "moveTo" and norm(nd.func.value) == child:
                        return ["adopted"]
                if isinstance(nd, (ast.Assign, ast.AugAssign)):
                    for s_ in iter_stores(nd):
                        if s_.kind == "subscript" and norm(s_.node.value).startswith("self."):
                            return ["adopted"]
                return []
            fl = Flow(f.node, ev).run()
            for x in walk_local(f.node):
                if not isinstance(x, ast.Raise):
                    continue
                st = fl.state_before(x)
                if st is None:
                    continue
                n += 1
                r.require(st.get("adopted", (0, 0))[1] == 0, f"{c.name}.{name}:refuses-before-adopting", f, node=x,
                          msg=f"`{norm(x)[:80]}` can be reached after the child was adopted: the caller is told the {name} failed, but the child stays in the child list / lookup tables")
    if n < 3:
        raise AnchorMissing("refusals in add/insert overrides below ArmiObject")


def r15_deepcopy_passes_the_memo(idx, r):
    """Inside `__deepcopy__(self, memo)` every nested copy.deepcopy() receives the memo.  Without it the nested copy starts a fresh memo:
    objects already copied (the parent, siblings referenced twice) are copied a second time and the results are not the same objects -
    a registry entry that should be the copy's own child becomes a parentless twin."""
    n = 0
    for c in idx.all_classes():
        if not c.fq.startswith("armi.reactor.") or ".tests" in c.fq:
            continue
        f = c.methods.get("__deepcopy__")
        if f is None or len(f.params()) < 2:
            continue
        memo = f.params()[1]
        for call in iter_calls(f.node):
            if dotted(call.func) in ("copy.deepcopy", "deepcopy"):
                n += 1
                got = get_arg(call, 1, "memo")
                r.require(got is not None and norm(got) == memo, f"{c.name}.__deepcopy__:nested-copy-shares-the-memo:{norm(call.args[0])[:40] if call.args else ''}", f, node=call,
                          msg=f"`{norm(call)[:70]}` copies without the memo of the enclosing __deepcopy__: what was already copied (the new parent, shared children) is copied again into separate objects")
    if n < 4:
        raise AnchorMissing("nested deepcopy calls inside __deepcopy__ overrides")


def r16_pairing(idx, r):
    from ..pairing import pairing_rule
    pairing_rule(idx, r, ["armi.reactor.composites", "armi.reactor.assemblies", "armi.reactor.cores", "armi.reactor.reactors", "armi.reactor.excoreStructure", "armi.reactor.spentFuelPool"], 100)


EXACT_NAMES = ("exact", "exactMatch")


def r17_exactness_and_type_names(idx, r):
    """(a) a query method of the composite model that takes an `exact` / `exactMatch` option and answers through another method that has that
    option hands it on: otherwise `exact=True` silently becomes the default and objects with additional flags are returned too.
    (b) iterChildrenOfType selects by the type NAME (`getType() == typeName`): flags are a lossy image of the name ("fuel" and "fuel 2" have
    the same flags; explicit flags need not match the name at all)."""
    from ..pairing import resolve_callee
    n = 0
    for m in idx.modules.values():
        if not m.name.startswith("armi.reactor.") or ".tests" in m.name:
            continue
        for f in m.all_funcs():
            mine = [p for p in f.params() + [a.arg for a in f.node.args.kwonlyargs] if p in EXACT_NAMES]
            if not mine:
                continue
            for c in iter_calls(f.node):
                rc = resolve_callee(idx, f, c)
                if rc is None:
                    continue
                g, skip = rc
                gp = g.params()[skip:]
                theirs = [p for p in gp + [a.arg for a in g.node.args.kwonlyargs] if p in EXACT_NAMES]
                if not theirs or g is f:
                    continue
                n += 1
                t = theirs[0]
                got = get_arg(c, gp.index(t) if t in gp else None, t)
                r.require(got is not None and any(isinstance(x, ast.Name) and x.id == mine[0] for x in ast.walk(got)), f"{f.qualname}->{g.name}:exactness-handed-on", f, node=c,
                          msg=f"`{norm(c)[:80]}` does not pass `{mine[0]}` on to {g.qualname}({t}=...): a caller asking for exact matches also gets the objects that merely include the flags")
    if n < 8:
        raise AnchorMissing("delegating queries with an exactness option")
    f = idx.method(AO, "iterChildrenOfType")
    tn = f.params()[1]
    lam = [x for x in ast.walk(f.node) if isinstance(x, ast.Lambda)] + [x for x in ast.walk(f.node) if isinstance(x, ast.GeneratorExp)]
    cmp_ = [x for l_ in lam for x in ast.walk(l_) if isinstance(x, ast.Compare)]
    okp = len(cmp_) == 1 and len(cmp_[0].ops) == 1 and isinstance(cmp_[0].ops[0], ast.Eq) and {norm(cmp_[0].left).split(".")[-1], norm(cmp_[0].comparators[0]).split(".")[-1]} == {"getType()", tn}
    r.require(okp, "iterChildrenOfType:selects-by-type-name", f, node=cmp_[0] if cmp_ else f.node,
              msg=f"children are selected by `{norm(cmp_[0]) if cmp_ else '?'}`, not by `getType() == {tn}`: children of different type names that share flags are mixed up, and a child with explicit flags is not found under its name")


def r_borrowed_r01_18(idx, r):
    """Core.removeAssembly takes the assembly out of the core before the pool adopts it (clause of R14.2): otherwise it has two parents"""
    from ..report import Only
    from .c14 import r2_add_remove
    r2_add_remove(idx, Only(r, ["Core.removeAssembly:remove-before-pooling"]))


def r19_detached_copy_is_a_copy(idx, r):
    """Composite.remove hands the removed child `spatialLocator.detachedCopy()`: every locator class answers with a NEW locator that belongs to no
    grid.  An override that returns the locator itself leaves the removed child attached to the grid of its former parent."""
    n = 0
    for c in idx.all_classes():
        if not c.fq.startswith("armi.reactor.grids.") or ".tests" in c.fq:
            continue
        f = c.methods.get("detachedCopy")
        if f is None:
            continue
        for x in walk_local(f.node):
            if isinstance(x, ast.Return):
                n += 1
                built = {s_.node.id for s_ in iter_stores(f.node) if s_.kind == "assign" and isinstance(s_.node, ast.Name) and isinstance(s_.value, ast.Call)}
                fresh = isinstance(x.value, ast.Call) or (isinstance(x.value, ast.Name) and x.value.id in built)
                r.require(x.value is not None and norm(x.value) != "self" and fresh, f"{c.name}.detachedCopy:returns-a-new-locator", f, node=x,
                          msg=f"`{norm(x)}` is not a newly built locator: a removed child keeps a location on the grid of the parent it was taken from")
    if n < 2:
        raise AnchorMissing("detachedCopy implementations")


def run(idx, chk):
    chk.explanation = (
        "C01: who may write Composite._children / .parent (frozen owners), pairing of parent/list/locator effects on every path of "
        "add/insert/remove/removeAll/setChildren, every override below Composite reaching the base primitive with the same object, "
        "pickle/deepcopy protocol (parent stripped, children/grids re-linked, memo registered), traversal methods delegating to the child "
        "list with exact guards. Global invariance over arbitrary edit histories is NOT decided."
    )
    chk.undecided_clauses = ["invariant under arbitrary interleavings", "sort() being a permutation (depends on __lt__)"]
    chk.run_rule("R01.1", "only the Composite primitives (and one sorted() permutation) write the child list", lambda r: r1_children_owner(idx, r), floor=9,
                 necessary="a writer that bypasses add/remove leaves parent pointers out of step")
    chk.run_rule("R01.2", "only the listed owners assign .parent of a composite-model object", lambda r: r2_parent_owner(idx, r), floor=14,
                 necessary="a parent assigned without listing the child breaks 'a parent lists each child and is that child's parent'")
    chk.run_rule("R01.3", "add/insert: duplicate refused, then parent set and child listed once; remove: unparent, detach locator, unlist; removeAll/setChildren compose them",
                 lambda r: r3_primitives(idx, r), floor=9, necessary="each missing effect is a direct counterexample to the tree invariant")
    chk.run_rule("R01.4", "every override of add/insert/remove/removeAll/setChildren/moveTo below Composite reaches the base primitive with the same object on every normal path",
                 lambda r: r4_overrides(idx, r), floor=12, necessary="an override that forgets the base call adds an unparented or unlisted child")
    chk.run_rule("R01.5", "pickle/deepcopy: state carries parent=None; __setstate__ re-links children and grid; overrides go through the base; __deepcopy__ registers memo first",
                 lambda r: r5_pickle(idx, r), floor=14, necessary="a copy must share no node with the original and be internally re-linked")
    chk.run_rule("R01.6", "traversal queries delegate to the child list with the exact generation guards and forwarded arguments", lambda r: r6_traversal(idx, r), floor=20,
                 necessary="each traversal must return what a naive walk of the child lists would")
    chk.run_rule("R01.7", "no class of the composite model defines __eq__/__hash__ (membership and removal are by identity)", lambda r: r7_identity(idx, r), floor=30,
                 necessary="with value equality `in`/remove/index would act on an equal sibling")
    chk.run_rule("R01.8", "add/insert refuse (or detach) an object that still has another parent", lambda r: r8_single_parent(idx, r), floor=2,
                 necessary="'every object has at most one parent'")
    chk.run_rule("R01.9", "a query that takes typeSpec and exact hands both on together, on every path (lambdas included)", lambda r: r9_paired_query_args(idx, r), floor=12,
                 necessary="queries by flags return exactly the objects a naive walk with the same arguments returns")
    chk.run_rule("R01.10", "container classes that define __deepcopy__ copy their elements; setChildren consumes its argument before clearing", lambda r: r10_container_copies(idx, r), floor=2,
                 necessary="copying a subtree yields an independent, complete tree; structural edits never lose children")
    chk.run_rule("R01.11", "a query's filter is applied to the complete candidate list (nothing is added to the list after it was filtered)", lambda r: r11_filter_covers_all(idx, r), floor=2,
                 necessary="queries by flags return exactly the objects a naive walk with the same arguments returns")
    chk.run_rule("R01.12", "the memo of occupied locations per circular ring is dropped by Core.add/removeAssembly and never written by a query", lambda r: r12_ring_cache(idx, r), floor=3,
                 necessary="ring queries return the assemblies a naive walk over the current children returns")
    chk.run_rule("R01.13", "a re-charged assembly leaves the pool whenever it is there; ancestor search tests self first; deepcopy memo holds only the new object", lambda r: r13_single_parent_paths(idx, r), floor=3,
                 necessary="every object has at most one parent; copies share no node with the original; queries agree with a naive walk")
    chk.run_rule("R01.14", "an add/insert that refuses the child raises before it adopted it", lambda r: r14_refusal_before_adoption(idx, r), floor=3,
                 necessary="the child list and the parent pointers agree after any sequence of add/insert, including refused ones")
    chk.run_rule("R01.15", "a nested deepcopy inside __deepcopy__ passes the memo on", lambda r: r15_deepcopy_passes_the_memo(idx, r), floor=4,
                 necessary="a copy shares no node with the original and every node of the copy has exactly one parent in the copy")
    chk.run_rule("R01.16", "arguments stand at the parameter they are named after; sibling calls forward the same pass-through parameters", lambda r: r16_pairing(idx, r), floor=1,
                 necessary="queries with every combination of options agree with a naive walk")
    chk.run_rule("R01.17", "an exactness option is handed on by every delegating query; children of a type are selected by type name", lambda r: r17_exactness_and_type_names(idx, r), floor=9,
                 necessary="queries agree with a naive walk of the child list under the same filter")
    chk.run_rule("R01.18", "Core.removeAssembly takes the assembly out of the core before the pool adopts it (clause of R14.2): otherwise it has two parents", lambda r: r_borrowed_r01_18(idx, r), floor=1,
                 necessary="every object has at most one parent")
    chk.run_rule("R01.19", "detachedCopy of every locator class builds a new locator", lambda r: r19_detached_copy_is_a_copy(idx, r), floor=2,
                 necessary="a removed object keeps no location on the grid of its former parent")
